PROPS["C20"] = P(
    "exploration",
    "one case = one (lender kind, input, take mode) triple on which a set of consume/rewind histories is run, each on a fresh lender: poll c items (c in 0,1,n/2,n-1,n,n+1 polls), rewind, repeated 1-4 times, then read to the end; "
    "every item of every pass is copied as it is lent and compared with the expected list (line lenders: the harness's own splitting of the input text at LF with one CR removed before LF, final unterminated line kept; "
    "FromIntoIterator: the collected iterator; take(m): the first m expected items). op first_pass = pass 1 vs the input's lines (also judged once per case on a fresh lender read to the end), op pass_after_rewind = pass k vs pass 1, op rewind = error/panic of rewind(). "
    "Lender kinds: LineLender over Cursor / BufReader(3 bytes) over Cursor / from_path / from_file; ZstdLineLender and GzipLineLender over Cursor / from_path / from_file on streams produced in-process "
    "(single frame, flushed blocks, several concatenated zstd frames, minimum level incl. gzip stored blocks; several gzip members in a stratum of its own); FromIntoIterator over Range, StepBy, Vec<u64>, Vec<String>, Chars, VecDeque<u8>; "
    "take(m) of each for m in 0,1,n-1,n,n+5, split into histories that rewind an untouched Take (stratum take/no-poll-before-rewind) and histories that poll before rewinding (take/polled-before-rewind: DESIGN 7 item 16). "
    "Inputs: empty, single newline, with/without final newline, CRLF, mixed terminators, lone CR, empty lines, unicode, 300 lines, lines around 128/8192/16384 bytes, a 1 MB line, 10^5 lines (10^6 thorough), random texts. "
    "Builder level (stratum forced-retry): for each file/compressed kind (and its take(n), as the crate's vfunc/vfilter binaries use it) a VBuilder seed is pre-screened whose first attempt fails on the keys; the build over the lender under test, wrapped in a counting lender, must be lent all n keys in every pass and map every key. "
    "distinct_nontrivial = distinct cells (lender kind | input | take class | poll class; for random rounds the hash of kind+text+histories; for builds kind | n | retried) whose expected list has >= 2 items (builds: at least one rewind happened)"
    ' Passes consumed through Lender::nth / advance_by; inputs with invalid UTF-8 lines (error items are part of the sequence); K02 is identified by the exact item count its mechanism predicts. ',
    dict(builds=["DBG", "UBC"]),
    dict(builds=["DBG", "UBC"]),
    hang="violation",
    level_text="Exploration: every rewindable lender of the crate (26 line-lender configurations over in-memory and real temporary files with in-process zstd/gzip encoders, 6 FromIntoIterator sources, Take of each) driven through deterministic and random consume/rewind histories with every lent item compared with the harness's own expectation, plus builds forced to retry over each lender kind; debug build and release build with -Zub-checks (no Miri: zstd is C code, files). Right level because the property quantifies over inputs x histories x lender kinds: only sampling with a total oracle reaches it.",
    level_note="Trusted: the harness's line splitter and the zstd/flate2 encoders used to produce the compressed inputs. Not covered: inputs that are not valid UTF-8 (line lenders return an error item), non-seekable sources (no rewind), inputs/histories not generated, I/O faults (C17).",
    technique="runtime monitoring: stratified + randomized consume/rewind histories against an expected-item-list oracle; pre-screened builder seeds for the retry path",
)
