PROPS["C16"] = P(
    "exploration",
    "set-ups (set_up_shards(n, eps) then set_up_graphs(n, max_shard)) of FuseLge3Shards, FuseLge3FullSigs, FuseLge3NoShards for [u64;2] and [u64;1]: every n in 0..=2000 (0..=20000 thorough), "
    "2^k-1, 2^k, 2^k+1 for k = 11..40, every regime boundary of the code (100, 10^5, 8*10^5, 5*10^6, 10^7, 2*10^7, the shard-count thresholds 5*10^4*2^j and 10^7*2^j, "
    "the 32-bit vertex capacity around 3.8*10^9, 10^8 .. 10^12) +-1, x eps in {1e-4,1e-3,1e-2,1e-1} x max_shard in {ceil(n/shards), midpoint, largest value the builder accepts = floor(1.01 n/shards)} "
    "(max_shard = n when there is one shard), some set up twice (expected then actual number of keys), plus random (n log-uniform to 10^12, eps, max_shard in the accepted interval); "
    "on every reachable set-up: all 36^2 combinations of {0,1,2^31-1,2^31,2^32-2,2^32-1} in each 32-bit half of each word, all-zeros/all-ones/extreme patterns in the shard bits and the bits below them, "
    "all-zeros/all-ones in the two XOR fields, inputs whose fixed-point product is the first/last vertex of the first/last segment (smallest and largest such input, +-1), sort-key boundaries, "
    "and 3000..10^5 random signatures (also sparse/dense/shifted words); per signature: shard() = top bits = Sig::high_bits, shard < num_shards, the 3 vertices of edge() inside the array and inside "
    "the shard's slice, pairwise distinct, = local_edge(local_sig()) + shard base, local_edge < num_vertices and distinct, sort_key < num_sort_keys. Set-ups rejected by the documented capacity "
    "assertion of set_up_graphs are counted (notes) and not judged. distinct_nontrivial = distinct tuples of reachable set-ups (variant, shard_high_bits, num_vertices, num_sort_keys) judged in a case"
    ' Largest shards far below the average in the lazy-Gaussian regime. ',
    dict(builds=["DBG", "UBC"]),
    dict(builds=["DBG", "UBC"]),
    hang="violation",
    level_text="Exploration: the shard/edge logic is pure arithmetic, so the real implementations are set up for key counts up to 10^12 at no cost and every set-up is probed with the extremes of every "
               "field the edge computation reads plus thousands of random signatures, in a debug build (arithmetic overflow panics, debug assertions) and a release build with -Zub-checks. "
               "Right level because the property quantifies over all set-ups and all 64/128-bit signatures: the inequalities are a total oracle, only sampling of the inputs is possible.",
    level_note="Trusted: the inequalities as coded in the harness and the shift-based shard model. Not covered: n above 2^40+1, eps outside [1e-4, 1e-1], maximum shard sizes the builder would reject, "
               "signatures not generated; the Mwhc implementations (feature mwhc, not compiled).",
    technique="runtime monitoring: exhaustive small/boundary parameter enumeration and boundary-value + random signatures against the property's inequalities, debug-overflow and UB-checking builds",
)
