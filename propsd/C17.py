PROPS["C17"] = P(
    "fault_enumeration",
    "one case = one fault plan executed against try_build_func / try_build_filter (4 function and 3 filter variants over the three shard/edge logics, both signature widths, both backends; online and offline store): "
    "the harness's ProbeLender serves the keys (and, for functions, the values), returns an io::Error carrying a tag unique to the case from `next` at a planned (pass, position) or from the planned n-th `rewind`, "
    "and records per pass the number of next calls, items served and how the pass ended (the trace is in every violation detail and sample). Positions: EVERY position 0..=len (one build each) for small inputs (pass 1: n in 1,2,3,10,100 for every lender and n = 300 for the key lender; retry passes: n = 10 and 100 (duplicate-forced) and 105 (screened); thorough: n = 300 for every lender and pass), "
    "first/second/middle/last-but-one/last/at-end for inputs of 10^3..1.5*10^5 (thorough 4*10^5) items; passes 1, 2, 3, 4 and rewinds 1, 2, 3; lenders: keys, values, both. Retry passes are forced deterministically "
    "(a) by one duplicated key under check_dups(true) and (b) by builder seeds screened with fault-free runs on key counts whose first attempts almost always fail (105, 198, 340; thorough also an over-full shard at 800000 keys). "
    "Judgement: after a delivered fault the result must be Err whose chain contains the tag (Ok = violation `ok-after-fault`, another error = `wrong-error`); duplicates (adjacent, first+last, far apart, multiplicity 2..10 spread or as a run, "
    "in 10..10^5 keys, thorough 10^6) with check_dups(true) must give Err within 4 passes over the keys (8 when the logic uses several shards, since another shard may legitimately fail first), Ok = `ok-on-duplicates`; "
    "every Ok of a fault-free or not-reached run has len() and ALL pairs checked; a panic is a violation; more rewinds than the bound (duplicates: allowed passes + 6; otherwise 20000 for n <= 5000, 200 above) is `no-progress`. "
    "Extra duplicate strata: a rank sweep (the n keys followed by key #j again, one build for EVERY j of a 4200-key function and a 2100-key filter, so that the duplicated pair takes every rank of the signature-sorted shard in every attempt) and duplicates in 100000/200000-key sets (2/4 shards) with max_num_threads 1/2 (more shards than solver threads; a build that never returns is reported through the 300 s hang limit). Nothing is generated or judged for duplicates without check_dups. "
    "distinct_nontrivial = number of distinct (variant | lender | next-pass-p-position-class or rewind-k | how the retry was forced | n class | store) cells in which the injected fault was really delivered "
    "(Stats.fired recorded by the lender) or, for fault-free duplicate plans, the duplicate was refused"
    ' A repeated key is judged even when the planned read fault is never reached; heavily repeated keys in sharded builds (dup:x700/x1500/x3000) and key sets with hardly any distinct key (most shards empty, fewer threads than shards); multi-shard duplicate builds may take up to 60 passes. ',
    dict(builds=["DBG", "UBC"]),
    dict(builds=["DBG", "UBC"]),
    hang="violation",
    hang_limit=300,
    level_text="Fault enumeration: every position of every pass (1-4) and every rewind at which the key or value source can fail is enumerated for small inputs and sampled at the edges for large ones, with a tagged error injected by the harness's own "
    "lender, and every placement/multiplicity class of a duplicated key; each plan is run against the real builder in a debug build and a release build with -Zub-checks and the result compared with what the plan dictates. "
    "Right level because the property quantifies over fault sequences and duplicate placements, and the fault points are few and enumerable while the key sets are sampled.",
    level_note="Trusted: the ProbeLender (it is the fault source and the recorder), the tag check on the anyhow error chain, the key/value generators. Not covered: faults of the offline store's own files (disk full), "
    "two faults in the same lender, key counts above 10^6, multi-shard duplicate detection races beyond what the OS scheduler produced; "
    "the bound on retries for non-duplicate plans is the bounded-progress rule of C07 (20000/200 attempts), wall-clock only through the 300 s hang limit.",
    technique="runtime monitoring with fault injection: enumerated (pass, position)/rewind I/O faults and duplicate placements through an instrumented RewindableIoLender, results judged against the plan under UB-checking builds",
)
