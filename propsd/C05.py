PROPS["C05"] = P(
    "exploration",
    "for every word type (u8,u16,u32,u64,usize,u128) and EVERY bit width 0..=W::BITS (both tiers): random operation histories "
    "(new/with_capacity/extend/from_raw_parts clean and dirty/new_unaligned, push, pop, set, get, resize up/down, clear, extend, iter, iter_from, forward/reverse unchecked "
    "iterators from every start, == against fresh/dirty/boxed/slice copies and against copies differing in one bit or in length, clone, from_slice into other word types, "
    "Vec<->Box<->Atomic<->&[W]<->&mut [W] conversions, rejected calls: index >= len, value not fitting) checked step by step against a Vec<u128>; "
    "iteration cases over nine storage backings (fresh, popped, truncated, cleared+refilled, unaligned, raw with zero/ones/random garbage and 0-3 spare words); "
    "single-threaded AtomicBitFieldVec histories (set_atomic/get_atomic/rejected calls/round trips); width 0 through with_capacity and the macro forms in cases of their own. "
    "distinct_nontrivial = number of distinct cells (word type, exact width, constructor or backing or atomic round) whose case was non-degenerate: a history that grew, shrank and "
    "set elements with more than one element alive; an iteration case with len > 1; an atomic history with at least one set_atomic on len > 1"
    ' Iterator-protocol monitor on iter / iter_from; positioned iteration beyond the end must panic; extend from inexact size hints; the AtomicHelper short-name entry points; the memory orderings Relaxed, Acquire, SeqCst. ',
    dict(builds=["DBG", "UBC"]),
    dict(builds=["DBG", "UBC", "ASAN", "MIRI"], shards={"MIRI": 12, "ASAN": 8}),
    hang="violation",
    level_text="Exploration: thousands of random operation histories on the real BitFieldVec/AtomicBitFieldVec for all six word types and every bit width, every observation compared with a "
    "Vec<u128> model, in a debug build (overflow checks, debug assertions, std UB pre-condition checks) and a release build with -Zub-checks; thorough adds ASan and Miri (reduced widths, "
    "histories of 40 steps). Right level because the property quantifies over all histories x word types x widths: only sampling with a total oracle reaches it.",
    level_note="Trusted: the Vec<u128> model, the harness's own bit packer used to build and decode storage words, the comparison code. Not covered: histories not generated; lengths above "
    "~3000 elements; concurrent use of the atomic form (C13).",
    technique="runtime monitoring: randomized operation histories vs Vec<u128> reference model under UB-checking/ASan/Miri builds",
)
