PROPS["C02"] = P(
    "exploration",
    "every selection structure is built over generated vectors and select / select_zero (all ranks when the count is <= 4096, else inventory-quantum boundaries +-1, a random sample, the last ranks, "
    "and count, count+1, ..., usize::MAX which must give None), the in-range *_unchecked methods, and (where the stack offers rank and indexing) b[select(r)] and rank(select(r)) are compared with the sorted "
    "one/zero position lists of a Vec<bool> model. Structures: Select9; SelectAdapt/SelectZeroAdapt via new (M=0..5), with_span (7 spans) and with_inv (L=0..13 x M=0..5); SelectAdaptConst/SelectZeroAdaptConst "
    "for 7 const pairs; SelectSmall/SelectZeroSmall over the five RankSmall variants with new and with_inv(1,2,8,64); backends without NumBits (unchecked only); &/Box/&dyn; 39 nestings in both orders over "
    "AddNumBits, Rank9 and RankSmall. Inputs: the C01 generator (11 length classes x 19 patterns, tail states fresh/popped/truncated/dirty) plus strata aimed at the inventories (spans between inventoried ones "
    "of exactly 2^16-1, 2^16, 2^16+1 and of 2^17..2^20 with spill; counts k*2^L+-1 with ragged tails; sparse vectors with word count = 0,1,2,3 mod 4 and the first one far from 0; Select9 span thresholds), "
    "random lengths up to 2^17 quick / 2^24 thorough, and in thorough/UBC spans of 2^32-1, 2^32, 2^32+1 bits in vectors of 2^32+ and 2^33+ bits. "
    "A cell is (structure variant | stratum class incl. tail state); distinct_nontrivial counts cells in which a vector held both a 0 and a 1 (so that both in-range and out-of-range ranks exist), "
    "or an aimed stratum, or an all-ones/all-zeros stratum of at least 512 bits"
    ' The quick tier gives every selector variant one of the three 2^32-gap cases; Tail::Regrown vectors. ',
    dict(builds=["DBG", "UBC"], budget=45),
    dict(builds=["DBG", "UBC", "ASAN", "MIRI"], shards={"MIRI": 6, "ASAN": 3, "DBG": 3, "UBC": 4}),
    hang="violation",
    level_text="Exploration: hundreds of thousands of (structure, parameters, vector) combinations executed on the real crate, every answer compared with the position lists of an independent Vec<bool> model, "
    "in a debug build (the debug-only assertion paths named in the property) and a release build with -Zub-checks (a wrong inventory entry turns into an out-of-bounds get_unchecked); thorough adds ASan "
    "(raw-pointer reads of the subinventories), Miri on short vectors, and the 64-bit span encoding at 2^32-bit gaps. Right level because the property quantifies over all vectors, structures, parameters and "
    "nestings: only stratified sampling with a total oracle reaches it.",
    level_note="Trusted: the Vec<bool> / sparse-position models and the comparison code; the sanitizers' detection on executed paths. Not covered: vectors above ~2^33+2^21 bits; const parameter pairs "
    "outside the menu; SelectAdaptConst<13,16> on vectors with more than 2^18 ones (memory); which span encodings were exercised is argued from the generated spans, not measured (no hook).",
    technique="runtime monitoring: stratified and random bit vectors x all selection structures, parameters and nestings vs sorted-position reference model under UB-checking/ASan/Miri builds",
)
