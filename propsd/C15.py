PROPS["C15"] = P(
    "exploration",
    "every serializable structure (BitVec Vec/Box; BitFieldVec over u8..u128 Vec/Box incl. width 0, full width, padded; Rank9; the five RankSmall; Select9; SelectAdapt/Const; "
    "SelectZeroAdapt/Const; SelectSmall/SelectZeroSmall x5; eleven compositions; plain EliasFano, EfSeq, EfDict, EfSeqDict and two custom back-ends; RearCodedList; VFunc and VFilter for "
    "FuseLge3Shards, FuseLge3NoShards with [u64;2] and [u64;1], FuseLge3FullSigs, on Box<[W]> and BitFieldVec back-ends, usize and String keys, incl. 2- and 4-shard functions of >= 100 000 keys) "
    "is built from generated contents (empty, minimal, word/block edges, all-zeros/ones, dense, sparse, runs, stale tails, > 2^16 gaps; (n,u) classes; k and string classes; key counts 0..20 000), "
    "serialized, and loaded back through deserialize_full (unaligned reader), serialize_with_schema+deserialize_full, deserialize_eps on a 64-byte-aligned buffer of exactly the serialized size, "
    "deserialize_eps with a garbage tail, store+load_full, load_mem, mmap, load_mmap (random Flags); the query transcript (all positional queries on small instances, sampled on large; by-value "
    "queries; iteration; unchecked variants inside their preconditions) of every loaded value must equal the transcript of the original instance produced by the same trait-bounded generic code; "
    "re-serializing the fully loaded copy must give identical bytes, and the stored file must equal the in-memory serialization. A panic or error while loading or querying a loaded value is a violation; "
    "a panic of the original is not (case abandoned, counted in the note abandoned_because_original_panicked). "
    "distinct_nontrivial = number of distinct (variant, contents stratum, mem|file) cells in which an instance holding at least two different elements (both bit values / two different values, "
    "strings, keys) went through every loading path of the mode"
    ' The transcript of a BitFieldVec includes its atomic view and equality with a heap copy; a loaded Elias-Fano is also queried through &T under the keys the original answers directly; a rear-coded list is loaded where another one had been loaded and queried (same buffer, same address). ',
    dict(builds=["DBG", "UBC"]),
    dict(builds=["DBG", "UBC", "ASAN", "MIRI"], shards={"MIRI": 8, "ASAN": 8}),
    hang="violation",
    level_text="Exploration: thousands of generated instances of every serializable type and composition, each pushed through all eight loading paths, every answer of the loaded value compared with the "
    "answer of the original instance, in a debug build (overflow, debug assertions, std UB checks) and a release build with -Zub-checks; thorough adds ASan (raw-pointer reads of the zero-copy views) and "
    "Miri on the in-memory paths of small instances (alignment, provenance and bounds of the zero-copy casts). Right level because the property quantifies over all types x contents x loading paths and "
    "only sampling with a total oracle (the original instance) reaches it.",
    level_note="Trusted: the transcript comparison; that the original instance is itself a fixed point of its query code (it is the oracle). Not covered: contents not generated; instances above ~4*10^5 bits / "
    "2*10^5 keys; Miri sees only in-memory paths of tiny instances and no VFunc/VFilter (VBuilder cannot run under Miri); the borrowed forms of SelectSmall/SelectZeroSmall do not implement "
    "Select/SelectZero at all (compile-time gap, see notes/C15-defects.md), so their selection queries are compared on owned copies only; AtomicBitFieldVec cannot be serialized with an atomic back-end.",
    technique="runtime monitoring: serialize/load round trips through all epserde loading paths, query transcripts of loaded values vs the original instance, under UB-checking/ASan/Miri builds",
)
