PROPS["C01"] = P(
    "exploration",
    "every rank structure (Rank9, the five RankSmall variants) bare, behind &/Box, over &BitVec/AddNumBits backends and underneath 90+ stacks of selection wrappers is built over generated vectors "
    "(length classes around 0/64/128/256/512/1024/2048/4096/8192/16384/2^16/2^17 bits, random lengths up to 2^17 quick / 2^24 thorough, one 2^32+2^20-bit vector in thorough/UBC; "
    "19 content patterns incl. saturated/empty blocks in alternation; tail states fresh/popped/truncated/dirty from_raw_parts) and rank, rank_zero, num_ones/num_zeros, count_ones/count_zeros, len and "
    "indexing are compared with a Vec<bool> model (naive prefix sums) at all positions 0..=len+3 for short vectors, else at all word/sub-block/block boundaries +-1, random positions, len..len+3 and usize::MAX. "
    "A cell is (structure variant | length class/content pattern/tail state); distinct_nontrivial counts the cells in which at least one vector held both a 0 and a 1, or the stratum is a "
    "saturated-block one (all ones / alternating full and empty blocks) of at least 512 bits"
    ' Since rounds 5-6 of the seeded changes: the vector under a structure may be the product of a shrink-then-grow history (Tail::Regrown); rank_unchecked / rank_zero_unchecked are asked inside their documented domain (Rank9 also at pos == len when the backend has a spare bit); BitVec::rank_hinted is called directly with valid hints at any distance. ',
    dict(builds=["DBG", "UBC"], budget=45),
    dict(builds=["DBG", "UBC", "MIRI"], shards={"MIRI": 6, "DBG": 5, "UBC": 5}),
    hang="violation",
    level_text="Exploration: tens of thousands of (structure variant, vector) pairs executed on the real crate, every answer compared with an independent Vec<bool> prefix-popcount model, in a debug build "
    "(overflow checks, debug assertions, std UB pre-condition checks) and a release build with -Zub-checks; thorough adds Miri on short vectors and a 2^32+2^20-bit vector (second 2^32-bit super-block of "
    "RankSmall, UBC only). Right level because the property quantifies over all vectors, variants and positions: only stratified sampling with a total oracle reaches it.",
    level_note="Trusted: the Vec<bool>/word-copy models and the comparison code; the sanitizers' detection on executed paths. Not covered: vectors above 2^32+2^20 bits, more than two 2^32-bit super-blocks, "
    "backends other than BitVec<Vec<usize>> (and references to it), inputs not generated.",
    technique="runtime monitoring: stratified and random bit vectors x all rank structure variants and wrapper stacks vs naive prefix-popcount reference model under UB-checking/Miri builds",
)
