PROPS["C04"] = P(
    "exploration",
    "Elias-Fano dictionaries built from generated monotone sequences (same (n, u, sequence-shape) strata as C03: n on word/inventory edges incl. empty and singleton, u on both sides of powers of two of u/n and up to "
    "usize::MAX, sequences with duplicates, long stretches of empty buckets, values at 0 and at u) queried with index_of/contains/succ/succ_strict/pred/pred_strict: every q in x_0-2..=x_last+2 when that range is <= 8192, "
    "otherwise all elements +-1, bucket boundaries k*2^l +-1, 2048 random values, always 0, 1, u-1, u; and, in cases of their own, q > u (u+1, next-bucket boundaries, 2u, 2^63, usize::MAX-1, usize::MAX, random). "
    "Every answer is compared with partition_point/binary_search on the generated Vec<usize> (any index holding the value is accepted). Types: EfSeqDict, EfDict (index_of + unchecked succ/pred within their precondition), "
    "and five other zero/one selector stacks. distinct_nontrivial = number of distinct (variant, n class, u class, sequence class, query group) cells observed with n >= 2, at least two distinct values and a non-empty query set"
    ' All six queries also through D = &EliasFano (forwarding impls for &T), the unchecked ones included. ',
    dict(builds=["DBG", "UBC"], max_restarts=10000),
    dict(builds=["DBG", "UBC", "ASAN", "MIRI"], shards={"MIRI": 6, "ASAN": 4, "DBG": 3, "UBC": 3}, max_restarts=10000),
    hang="violation",
    max_restarts=10000,
    level_text="Exploration: tens of thousands of generated monotone sequences per run, each queried with hundreds to thousands of values covering below/between/equal/above the elements and above the declared bound u, every answer compared with a binary-search model, in a debug build (overflow checks, debug assertions, std UB checks) and a release build with -Zub-checks; thorough adds ASan (raw-pointer reads of the selection structures), Miri on n <= 130, larger n and more rounds. Right level because the property quantifies over all sequences and all usize queries: only sampling with a total oracle reaches it, and the sanitizer builds turn the unchecked selects past the end into visible aborts.",
    level_note="Trusted: the generated Vec<usize>, partition_point/binary_search of std, the comparison code; UB checks / ASan / Miri on executed paths. Not covered: sequences and queries not generated; n above 3*10^5; construction failures (they are C03's: a structure that cannot be built is not queried here).",
    technique="runtime monitoring: stratified and random monotone sequences, dense and boundary-aimed query sets incl. q > u, vs binary search on the generating Vec<usize>, under UB-checking builds, ASan and Miri",
)
