PROPS["C06"] = P(
    "exploration",
    "random operation histories (push/pop/set/resize/fill/flip/reset/extend/conversions/out-of-range) on BitVec and AtomicBitVec checked step by step against a Vec<bool>; "
    "plus constructors/macro forms at every edge length and iterators polled after exhaustion. distinct_nontrivial = number of distinct histories (hash of the operation trace) "
    "that performed at least one mutation and held both bit values, plus distinct constructor/poll cells"
    ' Iterator-protocol monitor on iter, into_iter, iter_ones, iter_zeros; collect / extend from inexact size hints (gen::HintIter); clone_from into shorter / longer / equal / empty destinations; every memory ordering std admits for AtomicBitVec set / swap / get. ',
    dict(builds=["DBG", "UBC"]),
    dict(builds=["DBG", "UBC", "ASAN", "MIRI"], shards={"MIRI": 6, "ASAN": 4, "DBG": 4, "UBC": 4}),
    hang="violation",
    level_text="Exploration: thousands of random operation histories on the real BitVec/AtomicBitVec, every observation compared with a Vec<bool> model, in a debug build (overflow + debug assertions + std UB checks) and a release build with -Zub-checks; thorough adds ASan and Miri. Right level because the property quantifies over all histories: only sampling with a total oracle reaches it.",
    level_note="Trusted: the Vec<bool> model and the comparison code; the sanitizers' detection on executed paths. Not covered: histories not generated, lengths above ~8k bits (5k in histories).",
    technique="runtime monitoring: randomized operation histories vs Vec<bool> reference model under UB-checking/ASan/Miri builds",
)
