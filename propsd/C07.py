PROPS["C07"] = P(
    "exploration",
    "one case = one try_build_func call on n distinct keys (an injective function of the index: usize/u64 ranges, high ranges, shifted and scrambled integers; str/String/&str decimal, long-common-prefix, "
    "tiny-alphabet (with the empty string) and UTF-8 keys; &[u8] minimal/fixed/zero-prefixed slices) with values identity / all 0 (width 0) / all ones / random of a chosen width / one maximum at the first, middle or last position, "
    "in one of 18 monomorphic variants (words u8/u16/u32/u64/usize x Box<[W]>/BitFieldVec<W> x FuseLge3Shards, FuseLge3NoShards with 128- and 64-bit signatures, FuseLge3FullSigs x key type) and a builder configuration "
    "(expected_num_keys absent/exact/n/10/0/n-1/n+1/2n/8n/800000/10^8, max_num_threads 1/2/3/8/16, offline, low_mem None/false/true, seed, log2_buckets 0/4/8/10, eps 0.001/0.01/0.1). "
    "After every Ok: len() and get(k_i) for ALL pairs, get_unaligned for all pairs when the bit width satisfies its documented precondition, 200..10^4 non-member queries (result ignored, run for the UB checks). "
    "Err on distinct keys, a panic, or exceeding the attempt bound (bounded progress: the harness's lender counts rewinds and refuses the next one after 20000 attempts for n <= 5000 and after 200 for larger n, which stops the build; the pinned tree legitimately needs hundreds of attempts for many n between 100 and 1200, so successful builds needing more than the design's nominal 64 attempts are only counted, see notes c07_counters and notes/C07-defects.md) are violations; a case running 600 s is a hang violation. "
    "Strata: every n in 0..=300 for each shard/edge logic; all hint kinds at n in 0,1,2,3,10,100,101,1000,10^4 with default knobs; regime edges 99/100/101/49999/50000/99999/100000/100001/200000 "
    "(thorough: 199999/399999/400000/799999/800000/800001/1.5M) x logic x hint; multi-shard sizes x thread count x low_mem x too-small hint; every variant x value kind x n in 0,1,2,7,64,1000,20000; "
    "thorough UBC only: 12M (two logics), 3M and 1.5M offline; random configurations on top. Debug builds stay at n <= 200000, ASAN/TSAN at n <= 100000. "
    "distinct_nontrivial = number of distinct (variant | stratum group | n class | hint kind | value kind | store) cells whose build succeeded on n >= 2 keys and had all pairs checked"
    ' Key type &[u32] (slices of multi-byte elements sharing their first bytes); the 800 000-key regime switch in the quick tier. ',
    dict(builds=["DBG", "UBC"]),
    dict(builds=["DBG", "UBC", "ASAN", "TSAN"], shards={"DBG": 6, "UBC": 6, "ASAN": 2, "TSAN": 2}),
    hang="violation",
    hang_limit=600,
    level_text="Exploration: thousands of real VBuilder runs over a stratified grid of key counts (every n up to 300, all regime switches), key types, value widths, backends, signature types, shard/edge logics and builder knobs, "
    "each followed by a check of every supplied pair against the generated list, in a debug build (overflow checks, debug assertions, std UB checks) and a release build with -Zub-checks; thorough adds ASan, TSan (parallel shard solver) and sizes up to 1.2*10^7. "
    "Right level because the property quantifies over all key sets x configurations x schedules: only sampling with a total oracle reaches it; termination is observed as bounded progress (attempt bound 20000 for n <= 5000, 200 above), not proved.",
    level_note="Trusted: the injective key generators and the value functions of the harness (the oracle), the lender that serves them and counts rewinds. Not covered: key sets and configurations not generated; "
    "n above 1.2*10^7 (so multi-shard peeling without LGE, which needs >= 2*10^7 keys, and the >2^33-key local-signature dedup are never reached); the builder cannot run under Miri (thread priorities); "
    "thread schedules are whatever the OS produced (TSan watches them in thorough); get_by_sig is not observable from outside (seed is private); the wall-clock rule of the design is replaced by the 600 s hang limit.",
    technique="runtime monitoring: stratified + randomized differential testing of VBuilder/VFunc against the generated key/value list, with a rewind-counting lender for bounded progress, under UB-checking/ASan/TSan builds",
)
