PROPS["C12"] = P(
    "exploration",
    "table-driven sweep: (structure instance: empty / minimal / ordinary / degenerate) x (safe public method) x (argument class: 0, 1, len-1, len, len+1, 2len, cnt-1, cnt, cnt+1, u-1, u, u+1, 2^16, 2^32, 2^63, MAX-1, MAX, MAX/64, random) "
    "for BitVec/AtomicBitVec, BitFieldVec/AtomicBitFieldVec (six word types, widths 0,1,7,BITS-1,BITS), all rank/select structures and nestings, Elias-Fano, rear-coded lists, VFunc/VFilter (never-inserted keys, extreme signatures). "
    "One case per triple because a violation kills the process; the oracle is the process outcome (return or unwinding panic = held; UB-check abort, ASan/Miri/valgrind report or fatal signal with a sux frame = violated). "
    "distinct_nontrivial = distinct (structure, instance, method, argument class) tuples executed; notes.outcomes counts answered vs panicked"
    ' Added strata: sizes whose product with the bit width overflows usize (new / new_unaligned / resize / AtomicBitFieldVec::new), bit widths larger than the word, unwinding faults injected through caller-supplied iterators and closures followed by safe probes, vectors from with_capacity before their first push, constructor parameters of the selection structures over the whole usize domain, Elias-Fano instances whose upper-bits array ends on a word boundary, GF(2) equations and systems (add without a common variable, variables beyond the declared number). ',
    dict(builds=["DBG", "UBC", "ASAN"], shards={"DBG": 5, "UBC": 5, "ASAN": 6}),
    dict(builds=["DBG", "UBC", "ASAN", "MIRI", "VG"], shards={"DBG": 4, "UBC": 4, "ASAN": 4, "MIRI": 12, "VG": 4}),
    hang="violation", hang_limit=120,
    level_text="Exploration under sanitizers: about 10^4 (structure, method, argument class) triples of safe calls with out-of-domain arguments are executed in builds where an out-of-bounds access stops the process with a report (std UB pre-condition checks in debug and release, AddressSanitizer; thorough adds Miri and valgrind memcheck). Right level: the property is a memory-safety statement, which only instrumented execution can observe.",
    level_note="Trusted: the instrumented builds report the accesses they are documented to report (red-zone tools miss non-adjacent overflows inside one allocation; UB checks see only std's unchecked slice/pointer APIs). Not covered: methods missing from the table, sizes above 2^20.",
    technique="runtime monitoring with sanitizers: safe-API argument sweep under -Zub-checks, debug assertions, AddressSanitizer, Miri and valgrind; process outcome is the oracle",
)
