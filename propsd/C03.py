PROPS["C03"] = P(
    "exploration",
    "Elias-Fano structures built from generated monotone sequences (strata: n on word/inventory edges x u on both sides of every power of two of u/n, "
    "u in {0, x_max, x_max+1, n-1, n, 2^53+-1, 2^63, 2^64-1025, usize::MAX-1, usize::MAX} x sequence class {random, all 0, all u, all equal, ending at u, 0..u, long duplicate runs, huge gap, "
    "arithmetic, bucket edges, consecutive, clusters}) by every builder (push, extend, chunked extend, From<&[usize]>, From<Vec>, concurrent set in shuffled order) and finished with 20 selection "
    "back-ends; len, get(i) for all i, iter/into_iter/iter_from(k)/into_iter_from(k) for the start positions 0..=n with the remaining-length hint before every step, compared with the generated Vec<usize>; "
    "plus builder rejection cases (out-of-order, > u, beyond n; via push, extend and From) after which the accepted values must come out. "
    "distinct_nontrivial = number of distinct (back-end, builder, n class, u class, sequence class, op) cells observed with n >= 2, plus rejection cells in which at least one push was rejected and one accepted"
    ' The iterators are also taken through nth / skip / step_by / count / last / size_hint / ExactSizeIterator::len (iterator-protocol monitor); extend is fed by iterators with legal but inexact size hints; a rejected extend follows an earlier push / extend history. ',
    dict(builds=["DBG", "UBC"], max_restarts=4000),
    dict(builds=["DBG", "UBC", "MIRI"], shards={"MIRI": 6, "DBG": 5, "UBC": 5}, max_restarts=4000),
    hang="violation",
    max_restarts=4000,
    level_text="Exploration: tens of thousands of generated monotone sequences per run, stratified over (n, u, sequence shape, builder, selection back-end), every len/get/iterator observation compared with the generated Vec<usize>, in a debug build (overflow checks, debug assertions, std UB checks) and a release build with -Zub-checks; thorough adds larger n (to 2^20), more random rounds and Miri on n <= 130. Right level because the property quantifies over all sequences, builders and back-ends: only sampling with a total oracle reaches it.",
    level_note="Trusted: the generated Vec<usize> and the comparison code; the UB checks / Miri on executed paths. Not covered: sequences not generated; n above 2^20; 64-bit spans in the selection inventories (need > 2^32 upper bits); concurrent use of the concurrent builder (C13). A different but self-consistent choice of the number of lower bits is invisible to this property (it is a space matter, C11).",
    technique="runtime monitoring: stratified and random monotone sequences vs the generating Vec<usize>, all builders x 20 selection back-ends, under UB-checking builds and Miri",
)
