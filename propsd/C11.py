PROPS["C11"] = P(
    "exploration",
    "heap part of mem_size(SizeFlags::default()) (total minus size_of_val of the struct; for rank/select structures minus the heap part of the wrapped structure) compared with bounds written "
    "in the harness from the documentation and the property statement, never computed by sux. Additive constants allowed on top of the stated factors: BitVec ceil(len/64)+1 words; "
    "BitFieldVec<W> ceil(len*width/W::BITS)+1 words (+1 padding word for new_unaligned), also with SizeFlags::CAPACITY for new/with_value/new_unaligned; rank structures ratio*words*8 bytes + 2 counter "
    "blocks (Rank9 16-byte blocks; RankSmall 12/8/8/8/16-byte blocks) + 8 bytes per started 2^32 bits for RankSmall; Select9 over its Rank9 0.375*words*8 + 64 bytes; Elias-Fano (builder and concurrent "
    "builder, no selection) n*(2+max(0,lg(u/n))) bits + 3 words; functions/filters cells*b bits + 3 words with cells <= ceil(C(n)*n) + k*shards(n)*seg(n) + 16, C = 1.23 below 100 000 keys and 1.135 from "
    "there on, seg(n)/shards(n) the documented segment size and shard count (shard_edge.rs), k = 1 segment per shard for rounding the graph to whole segments and k = 2 when there are several shards "
    "(the second segment covers the builder's documented 1 % tolerance on the largest shard). Workload: BitVec x 8 ways of building/growing and BitFieldVec over u8..u128 x 7 ways x (width,len) edges "
    "and random pairs; Rank9, five RankSmall, Select9 at lengths 0,1,63,64,65,511..513,1023..1025,8191..8193,10^3,10^5+1,10^6 (2^24 and one 2^32+1000-bit vector in thorough) x five densities; "
    "Elias-Fano: fixed pairs incl. (100000,110000) and 13 classes of (n,u) (n=0, n=1, u<n, u=n, u/n in (1,2), (2,3), (3,4), just below / equal / just above 2^k, inside (2^k,2^(k+1)), u near 2^64, "
    "random) with n log-uniform up to 2*10^6; VFunc/VFilter for FuseLge3Shards, FuseLge3FullSigs, FuseLge3NoShards with [u64;2] and [u64;1], back-ends Box<[usize]>, Box<[u8]>, BitFieldVec with "
    "b in {1,8,13,64}: key counts 0..=300 step 7, 1,2,3,99,100,101, 10^3, 10^4, 99 999, 100 000, 100 001, 150 000, 200 000, 400 000, 800 000 (thorough: 50 001, 199 999, 300 000, 800 001, 1.5 M, 12 M) "
    "plus log-uniform random key counts; debug builds skip key counts above 100 001. The unsharded logic between 100 001 and 800 000 keys (documented expansion above 1.135) has strata of its own. "
    "A failed or panicking build/constructor gives no verdict here (C07/C17/C01-C05 own that). "
    "distinct_nontrivial = number of distinct (structure variant, size/parameter stratum) cells in which at least one instance large enough for the factor to dominate the additive constant "
    "(vectors above 2 words, rank/select above 1024 bits, Elias-Fano with n >= 10^4, any built function) was measured"
    ' Sizes after rejected operations (rejected-ops); RankSmall built through the rank_small! macro; any size above the K01 ceiling is reported under its own operation. ',
    dict(builds=["DBG", "UBC"]),
    dict(builds=["DBG", "UBC"]),
    hang="inconclusive",
    hang_limit=900,
    level_text="Exploration: every structure the statement names is built at sizes on both sides of every rounding and regime switch and on random sizes, and the size it reports through mem_size is "
    "compared with the documented bound. Sizes do not depend on the build: the release build (UB checks on) carries the large instances, the debug build cross-checks the small ones. Right level because "
    "the bound quantifies over all sizes, (n,u) pairs and key counts: only stratified sampling with an independent bound reaches it.",
    level_note="Trusted: mem_dbg's MemSize derive reports the heap of every field; the bound formulas transcribed from the documentation. Not covered: sizes not generated; key counts of 2*10^7 and more "
    "(several shards of a peelable fuse graph); selection structures other than Select9 (no bound stated); capacity slack of vectors grown by push (not counted by SizeFlags::default()).",
    technique="runtime monitoring: mem_size of built structures vs documented space bounds over stratified and random sizes",
)
