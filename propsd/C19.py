PROPS["C19"] = P(
    "exploration",
    "one case = a batch of GF(2) systems (6 quick / 24 thorough / 3 Miri) of one shape, word type and size class; every system satisfies the property's precondition (non-empty, strictly increasing variable lists "
    "below num_vars) and is given, on fresh copies, to gaussian_elimination and lazy_gaussian_elimination. Oracle: dense-row Gauss-Jordan elimination written in the harness with the constant words carried along "
    "(solvable iff every row with vanished coefficients has constant 0, i.e. rank(A) = rank([A|c_j]) for every bit j; on all cheap systems and 1/16 of the others the ranks are also computed literally, one augmented matrix per bit, and must agree). "
    "Ok on an unsolvable system, Err on a solvable one, an assignment violating an equation under the harness's evaluator (on the equations as generated), check() on a pristine copy disagreeing with that evaluator, "
    "the two solvers disagreeing, and any panic are violations. Shapes: equation sizes 1..8, exactly 3, repeated rows, dependent rows (XOR of others), contradictory copies, contradictory sums, one-bit contradictions (top/bottom/random bit), "
    "planted solutions (also overdetermined), unused variables, all constants zero, single-variable chains (with and without contradiction), dense cores, singletons, wide rows (up to all variables), nested variable sets; "
    "word types u8,u16,u32,u64,u128,usize; num_vars in 1,2,3,5,8,20,63,64,65,128,129,200 (random 1..200), equations 0..260; 24 hand-made systems. "
    "distinct_nontrivial = number of distinct cells (word type | shape | num_vars class | equations-vs-variables class | outcomes seen in the batch: solvable/unsolvable/both) whose batch held a system with >= 2 equations and >= 2 variables, plus hand-made cells",
    dict(builds=["DBG", "UBC"]),
    dict(builds=["DBG", "UBC", "ASAN", "MIRI"], shards={"MIRI": 8, "ASAN": 8}),
    hang="violation",
    level_text="Exploration: ~10^5 (quick) / ~10^6 (thorough) systems over six word types and 17 shapes solved by both solvers of the real crate and compared with an independent rank test and evaluator, in a debug build (overflow/debug assertions/std UB checks) and a release build with -Zub-checks; thorough adds ASan and Miri (add_ptr is raw-pointer code). Right level because the property quantifies over all systems: only sampling with a total oracle reaches it.",
    level_note="Trusted: the harness's dense elimination (cross-checked against the literal per-bit rank computation) and evaluator. Not covered: systems not generated, more than 200 variables / 260 equations, inputs outside the precondition (unsorted, repeated or out-of-range variables, empty equations).",
    technique="runtime monitoring: stratified + randomized differential testing of both solvers against an independent GF(2) rank oracle under UB-checking/ASan/Miri builds",
)
