PROPS["C14"] = P(
    "exploration",
    "every vector is placed with from_raw_parts over storage whose bits beyond len*width are garbage: rest of the last word plus 0..3 spare words, all zeros / all ones / random (first bit beyond "
    "the contents always set). READS (BitFieldVec for u8,u16,u32,u64,usize,u128 over Vec, Box and &[W] backends; BitVec over Vec and &[usize]; AtomicBitFieldVec; AtomicBitVec): len, get, iter, "
    "iter_from, forward/reverse unchecked iterators from every start, get_unaligned (spare word = padding), clone, from_slice, get_atomic, count_ones/zeros, par_count_ones, iter_ones/iter_zeros, "
    "== against the clean twin and against twins over other garbage in both orders, != against a vector differing in the last element's top bit, Rank9 / RankSmall / "
    "SelectAdapt / SelectAdaptConst / SelectZeroAdapt / Select9 built on dirty vectors (one structure per case) - all compared with the Vec<u128>/Vec<bool> model. "
    "WRITES (set, reset, par_reset, copy into the vector, apply_in_place/_unchecked, set / reset / apply_in_place through try_chunks_mut views, set_atomic, reset_atomic, par_reset_atomic; "
    "BitVec set/fill/flip/reset (+par_), AtomicBitVec set/swap/fill/flip/reset (+par_)): the harness computes from the arguments the half-open bit ranges the operation is documented to write, "
    "and every storage word - plus two canary words on each side when the backend is a &mut [W] sub-slice of a larger buffer - is compared before/after outside those ranges; inside, the "
    "fields are decoded by the harness's own unpacker and compared with the model. Widths 1..=W::BITS: quick = all for u8..u32, 35-40 selected for 64/128-bit words; thorough = all. "
    "distinct_nontrivial = number of distinct cells (structure, read or write operation, exact width or edge length, garbage kind, number of spare words, backend kind) whose case really had "
    "storage bits beyond the contents (len*width not a multiple of the word size, or at least one spare word) and, for reads, more than one element"
    ' BitFieldVec growth (resize with zero / a value, push, extend) over dirty spare storage; the sequence of chunk views is compared with the one over clean storage. ',
    dict(builds=["DBG", "UBC"]),
    dict(builds=["DBG", "UBC", "ASAN", "MIRI"], shards={"MIRI": 12, "ASAN": 8}),
    hang="violation",
    level_text="Exploration: the real readers and writers are run on vectors over deliberately dirty caller-supplied storage; reads are compared with a model, writes with independently computed "
    "write masks over all storage words and canaries, in a debug build and a release build with -Zub-checks; thorough adds ASan and Miri (writes past a &mut sub-slice, reads of spare words). "
    "Right level because the property quantifies over all contents x garbage patterns x operations: stratified sampling with exact masks is what reaches it.",
    level_note="Trusted: the harness's bit packer/unpacker and mask arithmetic; the model loops. Not covered: push/pop/resize on vectors with spare storage (not in the property's list of "
    "mutators; C05 covers their values); vectors above 300 elements (70 000 bits for rank/select).",
    technique="runtime monitoring: dirty-storage twins for readers, independently computed write masks + canary words for writers, under UB-checking/ASan/Miri builds",
)
