PROPS["C18"] = P(
    "exploration",
    "every (bucket bits, max shard bits, shard bits) triple of {0,1,2,5,8,9,12}^3 with shard<=max (plus the VBuilder configurations with max=16), online and offline, "
    "x 13 multiset classes (empty, single, tiny, 10^4 uniform (10^5 on selected triples), one shard, all-zero / all-ones high bits, duplicates, buckets holding exactly k*1024 / k*1024-1 / k*1024+1 pairs, skewed, "
    "lowest/highest signature of every shard and bucket) x signature types [u64;1],[u64;2] x value types u8,u64,usize,EmptyVal; each store is pushed, turned into a shard store, "
    "iterated borrowed twice and then consumed (other plans: abandoned borrowed iteration first, consuming only, borrowed then consuming), every iteration compared with the pushed Vec "
    "(number of shards, shard of every pair = top bits computed by shifting, per-shard multiset, union, shard_sizes vs model counts and vs yielded lengths, len). "
    "distinct_nontrivial = distinct (mode, bit triple, multiset class + plan, type combination) cells in which at least one pair was pushed"
    ' Borrowed iteration also through nth / step_by / skip. ',
    dict(builds=["DBG", "UBC"]),
    dict(builds=["DBG", "UBC", "ASAN", "MIRI"], shards={"MIRI": 6, "ASAN": 4, "DBG": 3, "UBC": 3}),
    hang="violation",
    level_text="Exploration: the real online and offline signature stores are driven through every bit-triple class (split / equal / aggregate iterator branches) with skewed, boundary and "
               "chunk-size-aligned multisets and all signature/value type combinations; each of three iterations is compared pair by pair with the pushed vector. Debug build (overflow, "
               "debug assertions, std UB checks) and -Zub-checks release build; thorough adds ASan and Miri (online store only, small; the offline store needs real files). "
               "Right level because the property quantifies over all multisets and parameter triples and the oracle (the pushed vector) is total.",
    level_note="Trusted: the pushed vector, the shift-based shard model and the sort-based multiset comparison. Not covered: more than 12 shard/bucket bits (except max shard bits 16), "
               "more than 10^5 pairs per store, I/O failures of the temporary directory.",
    technique="runtime monitoring: parameter-space enumeration plus randomized multisets vs the pushed vector as reference, under UB-checking/ASan/Miri builds",
)
