PROPS["C09"] = P(
    "exploration",
    "one case = one (string list, block size k) pair: the list is built with RearCodedListBuilder (push, or extend over a lender) and len, get(i)/get_in_place(i) for every i, "
    "iter/into_iter/lend/into_lender, iter_from(j)/lend_from(j) for every 0 <= j <= n (exact len()/size_hint() before every step) are compared with the pushed Vec<String>; "
    "index_of/contains are probed with every stored string, proper prefixes, one-char extensions, last-char +-1 neighbours, strings between sorted neighbours, before the first, after the last and \"\" "
    "(any index holding the probe is accepted). Strata: empty list (each iteration entry point in its own case), start position = len with len % k = 0 (own cases), hand-made lists, "
    "rear lengths on the VByte boundaries (127/128/129, 16511/16512/16513, thorough: 2113663/2113664/2113665) at every block offset, a content x order x k x n grid "
    "(contents: all-empty strings, shared prefixes 0..300, multi-byte UTF-8 with prefixes ending inside a code point, edge bytes 0x01..0xF4, duplicates, tiny alphabet, words, long strings, prefix chains; "
    "orders: sorted, reverse, shuffled, sorted-except-last; k in 1,2,3,4,5,8,16,64,n,n+1; n in 1,k-1,k,k+1,2k-1,2k,2k+1,3k,3k+2), lists of 10^3..10^5 strings with sampled positions, random lists on top. "
    "distinct_nontrivial = number of distinct cells (content stratum | order | k class | relation of n to k) whose list held at least 2 strings, plus the dedicated empty-list / from-len cells (op | k | n/k)"
    ' Iterator-protocol monitor on iter / iter_from. ',
    dict(builds=["DBG", "UBC"]),
    dict(builds=["DBG", "UBC", "MIRI"], shards={"MIRI": 8}),
    hang="violation",
    level_text="Exploration: tens of thousands of string lists x block sizes built with the real RearCodedListBuilder; every accessor, every iteration start position and a model-derived probe set compared with the pushed Vec<String>, in a debug build (overflow checks, debug assertions of encode_int, std UB checks) and a release build with -Zub-checks; thorough adds Miri on lists of at most ~16 strings and the 2^21 VByte boundary. Right level because the property quantifies over all lists, block sizes, positions and probes: only sampling with a total oracle reaches it.",
    level_note="Trusted: the Vec<String> model, String ordering (= byte order) for deriving probes, and the comparison code. Not covered: lists and probes not generated; rear lengths beyond 4194304 (VByte codes of 5+ bytes); strings containing NUL (excluded by the property); serialized/mmapped instances (C15).",
    technique="runtime monitoring: stratified + randomized differential testing against a Vec<String> reference model under UB-checking/Miri builds",
)
