PROPS["C08"] = P(
    "exploration",
    "one case = one try_build_filter call on n distinct keys (injective function of the index: usize/u64 ranges, high ranges, shifted, scrambled; str/String decimal, long-prefix, tiny-alphabet, UTF-8) in one of 10 monomorphic variants "
    "(BitFieldVec<u8|u16|u32|u64|usize> with a requested width b, Box<[u8|u16|u32|u64]>; FuseLge3Shards, FuseLge3NoShards with 128/64-bit signatures, FuseLge3FullSigs) and a random builder configuration "
    "(hint absent/exact/n/10/0/n+1/2n/8n/800000, threads, offline, low_mem, seed, log2_buckets, eps, check_dups). Exact checks after every Ok: len() = n, hash_bits() = b (W::BITS for slices), and for EVERY inserted key "
    "contains(k), filter[k] and (when b satisfies its documented precondition) contains_unaligned(k) are true. Rate check (only for n >= 1000): N probe keys disjoint from the members by construction (indices >= n of the same injective family), "
    "N = 10^6 for b <= 12 and b > 16, 4*10^6 for 13 <= b <= 16; with p = 2^-b the count of positives must satisfy |fp - Np| <= 6 sqrt(Np(1-p)) + 3, for b > 16 only the upper side; a count outside the band is re-measured on a second disjoint set of N probes and reported only if that is outside on the same side as well; contains_unaligned must agree with contains on a sample of the probes. "
    "Strata: b in {1,2,3,7,8,9,15,16,31,32,63,64} (thorough: every b in 1..=W::BITS) x n in {1000, 10^5} (debug build: {1000, 10^4}; thorough: + 10^6) for the bit-field variants, W::BITS for the slice variants; "
    "members-only cases at n in {0,1,2,3,10,99,100,101,300} x width classes and at the builder's regime edges 10^4..200000 (thorough: to 800001); random rounds on top. "
    "Err on distinct keys, a panic or exceeding the attempt bound of C07 (20000 rewinds for n <= 5000, 200 above) are violations. "
    "distinct_nontrivial = number of distinct (variant | group | b | n class | hint kind | store | rate-or-members) cells whose build succeeded on n >= 1 keys and had all members checked (and, for rate cells, the band judged)"
    ' Key type &[u32]. ',
    dict(builds=["DBG", "UBC"]),
    dict(builds=["DBG", "UBC"]),
    hang="violation",
    hang_limit=600,
    level_text="Exploration: real filters are built for a grid of hash widths, backends, signature types, shard/edge logics and key-set sizes; every member is queried through every query path (exact oracle) and 10^6-4*10^6 fresh non-members per "
    "filter are counted against a 6-sigma+3 binomial acceptance band, in a debug build and a release build with -Zub-checks. Right level because the property quantifies over all key sets and configurations (sampled) and the "
    "false-positive statement is statistical: it can only be tested, with a false-alarm probability that the band keeps below 10^-6 per run.",
    level_note="Trusted: key generators (members/probes disjoint by construction), the binomial band arithmetic. Not covered: deviations of the rate smaller than the band (e.g. a factor 2 at b = 16, any factor at b > 20 on the low side, "
    "removal of the random pre-fill), key sets above 10^6, the >2^33-key duplicate-local-signature branch, filters loaded from disk (C15).",
    technique="runtime monitoring: differential (members) and statistical (non-members, 6-sigma binomial band) testing of VBuilder/VFilter under UB-checking builds",
)
