PROPS["C13"] = P(
    "exploration",
    "scenario generator (T threads x distinct (index,value) writes placed in the same word / adjacent words / straddling fields, widths 1..64; AtomicBitVec sets on private bits + swaps on shared bits; "
    "Elias-Fano concurrent builder partitions) executed (1) under a hook-driven controlled scheduler that enumerates interleavings of the real atomic operations depth-first "
    "(exhaustive where the cell name ends in 'exh'), (2) with seeded random schedules on larger scenarios, (3) natively in parallel with random delays at the scheduling points; "
    "thorough adds Miri (one Miri seed per process, data-race detector + weak memory) and TSan. evaluations = complete executions judged against the Vec model; "
    "distinct_nontrivial = distinct (structure, shape, placement, width, mode) scenario cells, every one with >= 2 threads writing; notes.interleavings_executed_dfs = distinct complete interleavings run by the DFS",
    dict(builds=["DBG", "UBC", "MIRI"], shards={"DBG": 6, "UBC": 6, "MIRI": 6}, budget=50, miri_seed_shards=True),
    dict(builds=["DBG", "UBC", "TSAN", "MIRI"], shards={"DBG": 6, "UBC": 6, "TSAN": 4, "MIRI": 32}, budget=500, miri_seed_shards=True),
    hang="violation", hang_limit=600, exhaustive=True, miriflags="-Zmiri-preemption-rate=0.2",
    level_text="Exploration, exhaustive on the small scenarios: every interleaving of the atomic operations (as delimited by the verif_hooks scheduling points) of 2 threads x <=3 writes and 3 threads x <=2 writes is executed on the real code and the final state compared with a plain Vec; larger scenarios are sampled (random schedules, native stress with injected delays); thorough adds Miri seeds (weak memory, data races) and TSan. Right level: the property quantifies over schedules, which only a controlled scheduler or an interpreter can vary.",
    level_note="Trusted: the scheduling points are placed before every atomic access of the &self methods (hook commit 09c5f91); sequentially consistent interleavings of single-word atomic operations decide the final state; Miri's weak-memory emulation for non-SC effects. Not covered: more than 3 writers exhaustively, hardware-specific reorderings beyond Miri's model.",
    technique="runtime monitoring: hook-driven controlled scheduler enumerating interleavings of the real atomic operations (stateless DFS), plus Miri many-seeds, TSan and delay-injected stress",
)
