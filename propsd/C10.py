PROPS["C10"] = P(
    "exploration",
    "word types u8,u16,u32,u64,usize,u128. copy: (width, lengths, from, to, len) are drawn until every branch class computed by the harness from the arguments "
    "(single/multi-word source x single/multi-word destination x src_bit <,=,> dst_bit; for multi-word: 2 or 3+ destination words, source word count relative to the destination's, "
    "full or partial last destination word) has its quota per word type (30 quick, 100 thorough; hits per class are in notes.copy_classes_<W>), contents random per element, source and "
    "destination over nine storage backings (fresh, popped, truncated, cleared+refilled, new_unaligned, from_raw_parts with zero/ones/random garbage and 0-3 spare words), len clamped by "
    "source / destination / usize::MAX, plus width 0 and empty ranges; the whole destination and the source are compared with the element-wise loop. apply_in_place / _unchecked with "
    "identity, successor-with-mask, running sum and a mixing function on Vec, Box and &mut [W] backends: recorded arguments of f, number of calls and stored results vs the model "
    "(f panics after 10*len+100 calls). reset/par_reset, reset_atomic/par_reset_atomic vs zero loops (incl. vectors of 250 000 words so that rayon splits). try_chunks_mut: "
    "Ok/Err exactly as documented, chunk lengths, reads, set/reset/apply_in_place through the views vs the model. get_unaligned(+_unchecked) for every admissible width of every word "
    "type on new_unaligned and raw one-padding-word vectors. Blanket Vec<W> impls. BitVec/AtomicBitVec fill/flip/reset/count_ones and par_ variants at every edge length x seven tail "
    "states, plus 210 000-word vectors. Widths: quick = all for u8..u32, a selection of 35-40 for the 64/128-bit types (copy and get_unaligned: all); thorough = all. "
    "distinct_nontrivial = number of distinct cells (word type, operation class, exact width or width class, backing/mode) whose case was non-degenerate: at least one element copied at "
    "width > 0; len > 1 for apply/chunks/unaligned; len > 1 with a non-zero element for reset; both bit values present for BitVec"
    ' Chunk views also through step_by / skip / nth. ',
    dict(builds=["DBG", "UBC"]),
    dict(builds=["DBG", "UBC", "ASAN", "MIRI"], shards={"MIRI": 12, "ASAN": 8}),
    hang="violation",
    level_text="Exploration: the real bulk operations are run on stratified inputs (every copy branch class, every width class x storage backing) and compared element by element with the obvious "
    "loops on a Vec<u128>/Vec<bool> model, in a debug build (overflow checks, debug assertions, std UB checks) and a release build with -Zub-checks; thorough adds ASan (raw unaligned reads) "
    "and Miri (<= 40 elements). Right level because the property quantifies over all vectors, ranges and functions: sampling per branch class with a total oracle is what reaches it.",
    level_note="Trusted: the element-wise model loops, the harness's own branch-class arithmetic and bit packer. Not covered: vectors above 300 elements except the rayon strata; functions f other "
    "than the four listed; chunk_size 0.",
    technique="runtime monitoring: stratified differential testing of bulk operations against element-wise reference loops under UB-checking/ASan/Miri builds",
)
