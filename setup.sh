#!/bin/sh
# Builds every monitor binary in the configurations the quick tier uses
# (offline, from files on disk only). Thorough-only configurations are built
# on first use by ./check.
cd "$(dirname "$0")"
export CARGO_NET_OFFLINE=true
exec ./check --build-all --tier "${VERIF_SETUP_TIER:-quick}"
