#!/usr/bin/env python3
"""Validates MANIFEST.json and evidence/*.json against the schemas (uses the tooling venv's jsonschema)."""
import json, glob, sys
import jsonschema
ok = True
try:
    jsonschema.validate(json.load(open('/verif/MANIFEST.json')), json.load(open('/root/.vp/MANIFEST.schema.json')))
    print("MANIFEST.json valid")
except Exception as e:
    ok = False; print("MANIFEST invalid:", e)
es = json.load(open('/root/.vp/EVIDENCE.schema.json'))
for f in sorted(glob.glob('/verif/evidence/*.json')):
    try:
        jsonschema.validate(json.load(open(f)), es); print(f, "valid")
    except Exception as e:
        ok = False; print(f, "INVALID:", str(e)[:300])
sys.exit(0 if ok else 1)
