#!/usr/bin/env python3
"""Regenerates MANIFEST.json from props.py (single source of truth)."""
import json, os, subprocess, sys
sys.path.insert(0, os.path.dirname(os.path.abspath(__file__)))
from props import PROPS, NOT_APPLICABLE, HOOK_COMMITS, CLAIMED

ids = [json.loads(l)["id"] for l in open("/verif/properties.jsonl")]
checks = []
for pid in ids:
    if pid not in PROPS or pid in NOT_APPLICABLE or pid not in CLAIMED:
        continue
    pc = PROPS[pid]
    checks.append(dict(
        property_id=pid,
        quick_cmd=f"./check {pid} --tier quick",
        thorough_cmd=f"./check {pid} --tier thorough",
        evidence_file=f"/verif/evidence/{pid}.json",
        replay_cmd_template=f"./check {pid} --replay {{path}}",
        engine="suxmon",
        level_claimed=dict(category=pc["level"], text=pc["level_text"], design_ref=pc.get("design_ref", f"DESIGN.md section 6, {pid}")),
        level_note=pc["level_note"],
        technique=pc["technique"],
    ))
na = [dict(property_id=p, reason=NOT_APPLICABLE.get(p, "monitor not built yet; see DESIGN.md section 6 for the planned design")) for p in ids if p not in PROPS or p in NOT_APPLICABLE or p not in CLAIMED]
m = dict(
    version=1,
    setup_cmd="./setup.sh",
    hooks=dict(
        guard="cargo feature verif_hooks",
        enable="the harness crate /verif/harness depends on sux = { path = \"/repo\", features = [\"verif_hooks\"] }; every ./check run rebuilds it from /repo's working tree",
        baseline_off_cmd="cd /repo && cargo test --workspace --no-fail-fast --offline",
        source_commits=HOOK_COMMITS,
        add_only=True,
    ),
    engines=[dict(name="suxmon", path="/verif/harness", serves_properties=[c["property_id"] for c in checks],
                  kind_free_text="Rust harness (one binary per property) running the real crate under generated hostile workloads with reference-model oracles, in several instrumented builds (debug assertions + std UB checks, release + -Zub-checks, ASan, TSan, Miri, valgrind); Python driver ./check shards, restarts after aborting cases, matches known findings and writes evidence")],
    checks=checks,
    not_applicable=na,
    notes="Runtime monitoring and sanitizers only. Exit 3 of ./check means the machinery failed (never reported as a violation). known_findings.json lists genuine defects of the pinned tree (open = reported as KNOWN-FINDING, fixed = repaired by a fix: commit, suppresses nothing).",
)
json.dump(m, open("/verif/MANIFEST.json", "w"), indent=1)
print(f"{len(checks)} checks, {len(na)} not claimed")
