#!/usr/bin/env python3
"""Regenerates sections 11 (seeded changes) and 12 (defects) of DESIGN.md from
seeded/*/meta.json and known_findings.json (between the AUTO markers)."""
import glob, json, os, re
D = '/verif/DESIGN.md'
s = open(D).read()
rows = []
for m in sorted(glob.glob('/verif/seeded/*/meta.json')):
    j = json.load(open(m)); mid = os.path.basename(os.path.dirname(m))
    def c(x): return str(x).replace('|', '\\|').replace('\n', ' ')
    rows.append(f"| {mid} | {c(j.get('file',''))} | {c(j.get('summary',''))[:400]} | {c(j.get('needs',''))[:400]} | {c(j.get('detected_by',''))} |")
sec11 = """## 11. Seeded changes and which checks catch them

Each row is a change produced by a fresh sub-agent that saw only the text of
one property and a scratch worktree (nothing from /verif), confirmed by the
coordinator in a scratch worktree (`tools/confirm_mutant.sh`: the patch applies
to /repo's HEAD, its demonstration fails with it and passes without it, the
pinned suite still passes with it) and kept under `seeded/<id>/`. "Detected by"
is the registered check run against the changed tree (`tools/run_on_mutant.sh`,
which uses the internal alt-repo mode so that /repo is never touched).

| id | file | change | needs | detected by |
|---|---|---|---|---|
""" + "\n".join(rows) + "\n"
kf = json.load(open('/verif/known_findings.json'))['findings']
r2 = []
for f in kf:
    def c(x): return str(x).replace('|', '\\|')
    r2.append(f"| {f['id']} | {f['property']}{(' (+' + ','.join(f.get('also_affects', [])) + ')') if f.get('also_affects') else ''} | {f['status']}{' ' + f['commit'] if f.get('commit') else ''} | {c(f['what'])} |")
sec12 = """## 12. Genuine defects of the pinned tree and their disposition

Every entry was reproduced against the real code by a monitor (failing input in
the `what` column); `fixed <commit>` = repaired by a minimal unguarded `fix:`
commit in /repo (the entry suppresses nothing: the check is silent on the
repaired tree and reports the violation again if it returns); `open` = recorded
in `known_findings.json`, reported as `KNOWN-FINDING` and not as a violation,
with the reason it was not repaired.

| id | property | status | what fails |
|---|---|---|---|
""" + "\n".join(r2) + "\n\n" + "\n".join(f"* {f['id']} not repaired because: {f['why_not_fixed']}" for f in kf if f['status'] == 'open') + "\n"
import sys
sys.path.insert(0, '/verif')
from props import PROPS, CLAIMED
r3 = []
for pid in sorted(PROPS):
    pc = PROPS[pid]
    ev = {}
    try:
        ev = json.load(open(f'/verif/evidence/{pid}.json'))
    except Exception:
        pass
    cov = ev.get('coverage', {})
    r3.append(f"| {pid} | {'yes' if pid in CLAIMED else 'no'} | {pc['level']} | {','.join(pc['quick']['builds'])} | {','.join(pc['thorough']['builds'])} | {ev.get('tier','-')}: {cov.get('cases_run','-')} cases, {cov.get('evaluations','-')} evaluations, {cov.get('distinct_nontrivial','-')} distinct non-trivial, {ev.get('wall_s','-')} s | {pc['technique'].replace('|','/')} |")
sec13 = """## 13. Monitors as built

One row per property: whether it is claimed in MANIFEST.json, the evidence level,
the instrumented builds of each tier (section 3; UBG = UBC without
target-cpu=native, used as valgrind base), the numbers of the last run whose
evidence file is on disk, and the deciding technique. The rule that defines
`distinct_nontrivial` is in `propsd/CNN.py` and is copied into every evidence file.

| id | claimed | level | quick builds | thorough builds | last evidence on disk | technique |
|---|---|---|---|---|---|---|
""" + "\n".join(r3) + "\n"
block = "<!-- AUTO-BEGIN -->\n" + sec11 + "\n" + sec12 + "\n" + sec13 + "<!-- AUTO-END -->\n"
if '<!-- AUTO-BEGIN -->' in s:
    s = re.sub(r'<!-- AUTO-BEGIN -->.*<!-- AUTO-END -->\n', lambda _: block, s, flags=re.S)
else:
    s += "\n---------------------------------------------------------------------------\n\n" + block
open(D, 'w').write(s)
print(len(rows), "seeded,", len(r2), "findings")
