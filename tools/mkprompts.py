#!/usr/bin/env python3
"""tools/mkprompts.py <round tag, e.g. 5> PROP...
Prepares a round of seeded-change sub-agents: for every PROP creates the scratch git
worktree /tmp/mut<tag>-<PROP> of /repo (HEAD), the output directory
/tmp/mut<tag>-<PROP>-out with property.txt and prompt.txt (notes/MUTANT_PROMPT.txt with
the property text and the list of seeded changes that already exist for it).
The sub-agent gets nothing from /verif but that text."""
import json, os, subprocess, sys, glob

tag = sys.argv[1]
props = {json.loads(l)["id"]: json.loads(l) for l in open("/verif/properties.jsonl")}
tmpl = open("/verif/notes/MUTANT_PROMPT.txt").read()
for p in sys.argv[2:]:
    d = props[p]
    wt, out = f"/tmp/mut{tag}-{p}", f"/tmp/mut{tag}-{p}-out"
    if not os.path.isdir(wt):
        subprocess.run(["git", "-C", "/repo", "worktree", "add", "-q", "--detach", wt, "HEAD"], check=True)
        subprocess.run(["cp", "/repo/Cargo.lock", wt + "/"], check=True)
    os.makedirs(out, exist_ok=True)
    q = d.get("quantifier", {})
    text = f"{p}: {d['title']}\n\n{d['statement']}\n\nQuantified over: {q.get('text', '')}\n"
    open(out + "/property.txt", "w").write(text)
    existing = []
    for m in sorted(glob.glob(f"/verif/seeded/{p}-*/meta.json")):
        mm = json.load(open(m))
        existing.append(f"- {mm.get('file', '?')}: {mm.get('summary', '')[:260]}")
    extra = (
        "\n\nSeeded changes that ALREADY EXIST for this property — produce DIFFERENT ones (different functions and "
        "mechanisms). Prefer changes that need a combination of circumstances: two cooperating sites that each look fine "
        "alone, a state reached only after a specific multi-step history, a parameter combination, a size/boundary regime, "
        "an error/fault or a panic at a particular point, a rarely used public entry point (trait forwarding impls, "
        "conversions, iterator adaptors, parallel variants, alternative constructors), or a code path only taken by "
        "non-default type parameters. Existing ones:\n" + "\n".join(existing) + "\n"
    )
    body = tmpl.replace("/tmp/mut-PROP", f"/tmp/mut{tag}-{p}").replace("PROPERTY_TEXT", text + extra).replace('"property":"PROP"', f'"property":"{p}"').replace("PROP", p)
    open(out + "/prompt.txt", "w").write(body)
    print("prepared", wt, out, len(existing), "existing")
