#!/bin/bash
# Confirms a seeded change in the scratch worktree /tmp/mv (never in /repo):
#   tools/confirm_mutant.sh <dir with patch.diff, verif_demo.rs, meta.json> [--release]
# 1. patch applies to /repo's HEAD  2. demo fails with it  3. the pinned suite passes with it
# 4. demo passes without it. Prints a JSON summary.
set -u
D="$1"; REL="${2:-}"
MV=${MV:-/tmp/mv}
export CARGO_NET_OFFLINE=true
if [ ! -d $MV ]; then git -C /repo worktree add -q --detach $MV HEAD; cp /repo/Cargo.lock $MV/; fi
cd "$MV" || exit 2
[ "$(pwd -P)" != /verif ] && [ "$(pwd -P)" != /repo ] || exit 2
git checkout -q --detach main 2>/dev/null; git reset -q --hard; rm -f tests/verif_demo.rs
cp /repo/Cargo.lock . 2>/dev/null
if git apply --3way "$D/patch.diff" 2>/tmp/mv-apply.err || git apply "$D/patch.diff" 2>>/tmp/mv-apply.err; then APPLIES=true; else APPLIES=false; fi
if [ $APPLIES = false ]; then echo "{\"applies\": false, \"err\": \"$(head -c 300 /tmp/mv-apply.err | tr '\n"' '  ')\"}"; git reset -q --hard; exit 1; fi
git reset -q   # unstage whatever --3way staged
cp "$D/verif_demo.rs" tests/verif_demo.rs
cargo test --offline -j 8 $REL --test verif_demo > /tmp/mv-demo-with.log 2>&1; DEMO_WITH=$?
rm -f tests/verif_demo.rs
cargo test --workspace --no-fail-fast --offline -j 8 > /tmp/mv-suite.log 2>&1; SUITE=$?
git diff > /tmp/mv-applied.diff
git checkout -q -- .
cp "$D/verif_demo.rs" tests/verif_demo.rs
cargo test --offline -j 8 $REL --test verif_demo > /tmp/mv-demo-without.log 2>&1; DEMO_WITHOUT=$?
rm -f tests/verif_demo.rs
echo "{\"applies\": true, \"demo_with_change_exit\": $DEMO_WITH, \"suite_with_change_exit\": $SUITE, \"demo_without_change_exit\": $DEMO_WITHOUT, \"head\": \"$(git rev-parse --short HEAD)\"}"
