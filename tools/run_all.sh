#!/bin/bash
# tools/run_all.sh <tier> "<props>" [seed]  -> one summary line per property in logs/run_all-<tier>-<seed>.txt
T="$1"; PS="$2"; S="${3:-1}"
OUT=/verif/logs/run_all-$T-$S.txt; mkdir -p /verif/logs; : > $OUT
for p in $PS; do
  t0=$(date +%s)
  VERIF_SEED=$S /verif/check $p --tier $T > /verif/logs/run_all-$p-$T-$S.log 2>&1; rc=$?
  t1=$(date +%s)
  echo "$p exit=$rc wall=$((t1-t0))s $(grep -E '^\[C' /verif/logs/run_all-$p-$T-$S.log | tail -1)" >> $OUT
  grep -E "^(VIOLATION|KNOWN-FINDING|MACHINERY)" /verif/logs/run_all-$p-$T-$S.log | head -5 >> $OUT
done
echo ALL-DONE >> $OUT
