#!/bin/bash
# tools/eval_mutants.sh <out-dir prefix, e.g. /tmp/mut3-> <result tag, e.g. r3> <MV dir> <PROP>...
# For every PROP and k in a b: confirm the seeded change in the scratch worktree and run the
# property's quick check against it (alt-repo mode); results in /tmp/mutres/<tag>-<PROP>-<k>.{confirm,check}
PFX="$1"; TAG="$2"; export MV="$3"; shift 3
mkdir -p /tmp/mutres
for p in "$@"; do for k in a b; do
  d="${PFX}${p}-out/$k"
  [ -f "$d/patch.diff" ] || continue
  /verif/tools/confirm_mutant.sh "$d" > /tmp/mutres/$TAG-$p-$k.confirm 2>&1
  /verif/tools/run_on_mutant.sh "$d" $p quick > /tmp/mutres/$TAG-$p-$k.check 2>&1
done; done
echo done > /tmp/mutres/$TAG-$(echo "$@" | tr ' ' '_').done
