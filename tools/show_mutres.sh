#!/bin/bash
# tools/show_mutres.sh <tag> : one line per evaluated seeded change
for f in /tmp/mutres/$1-*.check; do m=$(basename $f .check); c=/tmp/mutres/$m.confirm
  echo "$m suite=$(grep -a -o 'suite_with_change_exit": [0-9]*' $c | grep -a -o '[0-9]*$') with=$(grep -a -o 'demo_with_change_exit": [0-9]*' $c | grep -a -o '[0-9]*$') wo=$(grep -a -o 'demo_without_change_exit": [0-9]*' $c | grep -a -o '[0-9]*$') | $(grep -a -E '^\[C' $f | sed 's/.*\(violations=[0-9]*\).*wall=\([0-9.]*s\)/\1 \2/') $(grep -a 'check exit' $f)"
done
