#!/bin/bash
# Runs a registered check against a seeded change applied in the scratch worktree /tmp/mv
#   tools/run_on_mutant.sh <dir with patch.diff> <PROP> [quick|thorough] [extra ./check args]
set -u
D="$1"; P="$2"; T="${3:-quick}"; shift 3 2>/dev/null || shift 2
MV=${MV:-/tmp/mv}
[ -d "$MV" ] || { git -C /repo worktree add -q --detach "$MV" HEAD; cp /repo/Cargo.lock "$MV"/; }
cd "$MV" || exit 2
[ "$(pwd -P)" != /verif ] && [ "$(pwd -P)" != /repo ] || exit 2
git checkout -q --detach main 2>/dev/null; git reset -q --hard; rm -f tests/verif_demo.rs
(git apply --3way "$D/patch.diff" 2>/dev/null || git apply "$D/patch.diff") || { echo "patch does not apply"; exit 2; }
git reset -q
cd /verif && ./check "$P" --tier "$T" --repo $MV "$@"; RC=$?
cd $MV && git checkout -q -- .
echo "check exit=$RC"
exit $RC
