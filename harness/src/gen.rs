//! Shared input generators. The generator keeps the *logical* contents
//! (`Vec<bool>`, `Vec<usize>`, ...) which is what the oracles use; the sux
//! values are built from it and never read back to form expectations.
use rand::rngs::SmallRng;
use rand::{Rng, RngCore};
use sux::bits::BitVec;

pub const LEN_EDGES: &[usize] = &[
    0, 1, 2, 63, 64, 65, 127, 128, 129, 191, 192, 193, 255, 256, 257, 511, 512, 513, 1023, 1024,
    1025, 2047, 2048, 2049, 4095, 4096, 4097, 8191, 8192, 8193,
];

#[derive(Clone, Copy, Debug, PartialEq)]
pub enum Pattern {
    /// independent bits with the given probability of a one
    Density(f64),
    /// alternating runs of ones and zeros with geometric lengths around `mean`
    Runs(usize),
    /// alternating fully saturated / fully empty blocks of `block` bits
    BlockAlt(usize),
    /// first half dense, second half sparse
    TwoDensity,
    /// a single one at the given relative position (0 = first, 1 = last, 2 = middle)
    Single(u8),
    /// ones exactly every `gap` bits starting at `start`
    Every(usize, usize),
}

impl Pattern {
    pub fn name(&self) -> String {
        match self {
            Pattern::Density(d) => format!("dens{}", d),
            Pattern::Runs(m) => format!("runs{}", m),
            Pattern::BlockAlt(b) => format!("blockalt{}", b),
            Pattern::TwoDensity => "twodens".into(),
            Pattern::Single(p) => format!("single{}", p),
            Pattern::Every(g, s) => format!("every{}+{}", g, s),
        }
    }
}

pub fn gen_bits(rng: &mut SmallRng, len: usize, pat: Pattern) -> Vec<bool> {
    let mut v = vec![false; len];
    match pat {
        Pattern::Density(d) => {
            if d >= 1.0 {
                v.iter_mut().for_each(|b| *b = true);
            } else if d > 0.0 {
                let thr = (d * (u32::MAX as f64)) as u32;
                for b in v.iter_mut() {
                    *b = rng.next_u32() <= thr;
                }
            }
        }
        Pattern::Runs(mean) => {
            let mut cur = rng.random_bool(0.5);
            let mut i = 0;
            while i < len {
                let run = 1 + (rng.random_range(0..mean.max(1) * 2));
                for j in i..(i + run).min(len) {
                    v[j] = cur;
                }
                i += run;
                cur = !cur;
            }
        }
        Pattern::BlockAlt(b) => {
            let first = rng.random_bool(0.5);
            for (i, x) in v.iter_mut().enumerate() {
                *x = ((i / b.max(1)) % 2 == 0) == first;
            }
        }
        Pattern::TwoDensity => {
            for (i, x) in v.iter_mut().enumerate() {
                *x = if i < len / 2 {
                    rng.random_bool(0.9)
                } else {
                    rng.random_bool(0.002)
                };
            }
        }
        Pattern::Single(p) => {
            if len > 0 {
                let i = match p {
                    0 => 0,
                    1 => len - 1,
                    _ => len / 2,
                };
                v[i] = true;
            }
        }
        Pattern::Every(gap, start) => {
            let mut i = start;
            while i < len {
                v[i] = true;
                i += gap.max(1);
            }
        }
    }
    v
}

pub fn bits_to_words(bits: &[bool]) -> Vec<usize> {
    let mut w = vec![0usize; bits.len().div_ceil(64)];
    for (i, &b) in bits.iter().enumerate() {
        if b {
            w[i / 64] |= 1usize << (i % 64);
        }
    }
    w
}

/// Clean bit vector (exact number of words, zero tail), built without going
/// through `push`.
pub fn clean_bitvec(bits: &[bool]) -> BitVec<Vec<usize>> {
    unsafe { BitVec::from_raw_parts(bits_to_words(bits), bits.len()) }
}

#[derive(Clone, Copy, Debug, PartialEq, Eq)]
pub enum Tail {
    /// exact words, zero bits beyond len
    Fresh,
    /// built longer by push, then popped down to len (stale bits, maybe a spare word)
    Popped,
    /// built longer, then truncated with resize (stale bits and spare words)
    Truncated,
    /// from_raw_parts over storage with ones beyond len and `n` spare all-ones words
    DirtyOnes(usize),
    /// from_raw_parts over storage with random bits beyond len and `n` spare random words
    DirtyRandom(usize),
    /// the complement written first, truncated (by resize or pops) below len across
    /// word boundaries, then grown again to the contents with resize + set, push or
    /// extend: the contents are the product of a shrink-then-grow history over
    /// stale storage
    Regrown,
}

impl Tail {
    pub fn name(&self) -> String {
        match self {
            Tail::Fresh => "fresh".into(),
            Tail::Popped => "popped".into(),
            Tail::Truncated => "truncated".into(),
            Tail::DirtyOnes(n) => format!("dirtyones+{}w", n),
            Tail::DirtyRandom(n) => format!("dirtyrand+{}w", n),
            Tail::Regrown => "regrown".into(),
        }
    }
    pub const ALL: &'static [Tail] = &[
        Tail::Fresh,
        Tail::Popped,
        Tail::Truncated,
        Tail::DirtyOnes(0),
        Tail::DirtyOnes(2),
        Tail::DirtyRandom(1),
        Tail::DirtyRandom(3),
        Tail::Regrown,
    ];
}

/// Builds a `BitVec<Vec<usize>>` with logical contents `bits` and the given
/// state of the storage beyond `len`.
pub fn bitvec_with_tail(rng: &mut SmallRng, bits: &[bool], tail: Tail) -> BitVec<Vec<usize>> {
    let len = bits.len();
    match tail {
        Tail::Fresh => clean_bitvec(bits),
        Tail::Popped => {
            let extra = 1 + rng.random_range(0..100usize);
            let mut b = BitVec::new(0);
            for &x in bits {
                b.push(x);
            }
            for _ in 0..extra {
                b.push(rng.random_bool(0.8));
            }
            for _ in 0..extra {
                b.pop();
            }
            b
        }
        Tail::Truncated => {
            let extra = 1 + rng.random_range(0..200usize);
            let mut b = BitVec::with_value(len + extra, true);
            for (i, &x) in bits.iter().enumerate() {
                b.set(i, x);
            }
            b.resize(len, false);
            b
        }
        Tail::Regrown => {
            let extra = rng.random_range(0..200usize);
            let mut b = BitVec::new(0);
            // the complement of the final contents (and ones beyond) goes in first
            for i in 0..len + extra {
                b.push(if i < len { !bits[i] } else { true });
            }
            let cut = if len == 0 { 0 } else { rng.random_range(0..=len) };
            if rng.random_bool(0.5) {
                b.resize(cut, false);
            } else {
                while b.len() > cut {
                    b.pop();
                }
            }
            // overwrite what is left, then grow again
            for (i, &x) in bits[..cut].iter().enumerate() {
                b.set(i, x);
            }
            match rng.random_range(0..4u32) {
                0 => {
                    for &x in &bits[cut..] {
                        b.push(x);
                    }
                }
                1 => b.extend(bits[cut..].iter().copied()),
                2 => {
                    let v = rng.random_bool(0.5);
                    b.resize(len, v);
                    for (i, &x) in bits.iter().enumerate().skip(cut) {
                        if x != v {
                            b.set(i, x);
                        }
                    }
                }
                _ => {
                    // a mix, in pieces
                    let mut at = cut;
                    while at < len {
                        let step = 1 + rng.random_range(0..130usize).min(len - at - 1);
                        match rng.random_range(0..3u32) {
                            0 => bits[at..at + step].iter().for_each(|&x| b.push(x)),
                            1 => b.extend(bits[at..at + step].iter().copied()),
                            _ => {
                                let v = bits[at];
                                b.resize(at + step, v);
                                for i in at..at + step {
                                    if bits[i] != v {
                                        b.set(i, bits[i]);
                                    }
                                }
                            }
                        }
                        at += step;
                    }
                }
            }
            b
        }
        Tail::DirtyOnes(spare) | Tail::DirtyRandom(spare) => {
            let mut w = bits_to_words(bits);
            let random = matches!(tail, Tail::DirtyRandom(_));
            if len % 64 != 0 {
                let garbage: usize = if random { rng.next_u64() as usize | (1usize << 63) } else { !0 };
                let last = w.len() - 1;
                w[last] |= garbage << (len % 64);
            }
            for _ in 0..spare {
                w.push(if random { rng.next_u64() as usize } else { !0 });
            }
            unsafe { BitVec::from_raw_parts(w, len) }
        }
    }
}

/// Monotone sequence generators for Elias–Fano style workloads.
pub fn sorted_values(rng: &mut SmallRng, n: usize, max: usize) -> Vec<usize> {
    let mut v: Vec<usize> = (0..n)
        .map(|_| {
            if max == usize::MAX {
                rng.next_u64() as usize
            } else {
                rng.random_range(0..=max)
            }
        })
        .collect();
    v.sort_unstable();
    v
}

pub fn rand_string(rng: &mut SmallRng, max_len: usize, alphabet: &[char]) -> String {
    let l = rng.random_range(0..=max_len);
    (0..l)
        .map(|_| alphabet[rng.random_range(0..alphabet.len())])
        .collect()
}

pub fn show_bits(bits: &[bool]) -> String {
    if bits.len() <= 256 {
        bits.iter().map(|&b| if b { '1' } else { '0' }).collect()
    } else {
        // words in hex, little endian bit order
        let w = bits_to_words(bits);
        let mut s = format!("len={} words(hex,lsb-first)=", bits.len());
        for (i, x) in w.iter().enumerate() {
            if i >= 64 {
                s.push_str("…");
                break;
            }
            s.push_str(&format!("{:x},", x));
        }
        s
    }
}

/// An iterator adaptor whose `size_hint` is legal but inexact, in one of several
/// ways (`mode`): consumers that pre-size from the hint (collect, extend) must still
/// end up with exactly the items yielded.
pub struct HintIter<I> {
    it: I,
    left: usize,
    mode: u8,
}

impl<I: Iterator> HintIter<I> {
    /// `len` must be the exact number of items `it` yields.
    pub fn new(it: I, len: usize, mode: u8) -> Self {
        HintIter { it, left: len, mode }
    }
    pub fn mode_name(mode: u8) -> &'static str {
        match mode % 6 {
            0 => "hint(0,None)",
            1 => "hint(0,Some(2n+7))",
            2 => "hint(n/2,Some(n+100))",
            3 => "hint(n,None)",
            4 => "hint(0,Some(n))",
            _ => "hint(n,Some(n))",
        }
    }
}

impl<I: Iterator> Iterator for HintIter<I> {
    type Item = I::Item;
    fn next(&mut self) -> Option<I::Item> {
        let x = self.it.next();
        if x.is_some() {
            self.left = self.left.saturating_sub(1);
        }
        x
    }
    fn size_hint(&self) -> (usize, Option<usize>) {
        let n = self.left;
        match self.mode % 6 {
            0 => (0, None),
            1 => (0, Some(2 * n + 7)),
            2 => (n / 2, Some(n + 100)),
            3 => (n, None),
            4 => (0, Some(n)),
            _ => (n, Some(n)),
        }
    }
}
