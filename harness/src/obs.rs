//! Observation layer shared by all workloads: case numbering, sharding, the
//! JSONL event log, guarded calls, violation records and the hang watchdog.
//!
//! Event log lines (one JSON object per line, field `t` is the type):
//!   B  case begins            {t,c,variant,stratum,op}
//!   E  case ends              {t,c,ev,nt,cell,out}
//!   V  violation              {t,c,sig,kind,op,variant,stratum,msg,detail,n}
//!   D  input description      {t,c,input}           (describe mode / samples)
//!   S  sample                 {t,c,variant,stratum,op,input}
//!   N  note / counter         {t,key,val}           (val is raw JSON)
//!   H  hang detected          {t,c,secs}
//!   Z  normal end of shard    {t,cases_run,cases_total,evals}
use rand::rngs::SmallRng;
use rand::Rng;
use rand::SeedableRng;
use std::fmt::Debug;
use std::fs::{File, OpenOptions};
use std::io::{BufWriter, Write};
use std::panic::{catch_unwind, AssertUnwindSafe};
use std::sync::atomic::{AtomicU64, Ordering};
use std::sync::Mutex;
use std::time::Instant;

pub fn esc(s: &str) -> String {
    let mut o = String::with_capacity(s.len() + 2);
    for ch in s.chars() {
        match ch {
            '"' => o.push_str("\\\""),
            '\\' => o.push_str("\\\\"),
            '\n' => o.push_str("\\n"),
            '\r' => o.push_str("\\r"),
            '\t' => o.push_str("\\t"),
            c if (c as u32) < 0x20 => o.push_str(&format!("\\u{:04x}", c as u32)),
            c => o.push(c),
        }
    }
    o
}

pub fn trunc(s: &str, n: usize) -> String {
    if s.len() <= n {
        s.to_string()
    } else {
        let mut k = n;
        while !s.is_char_boundary(k) {
            k -= 1;
        }
        format!("{}…(+{} bytes)", &s[..k], s.len() - k)
    }
}

/// Replaces every maximal run of ASCII digits by `#` and strips directories
/// from anything that looks like a path, so that messages are stable across
/// inputs and unrelated edits.
pub fn normalize(msg: &str) -> String {
    let mut o = String::new();
    let mut in_digits = false;
    for ch in msg.chars() {
        if ch.is_ascii_digit() {
            if !in_digits {
                o.push('#');
            }
            in_digits = true;
        } else {
            in_digits = false;
            o.push(ch);
        }
    }
    // drop directories of paths
    let mut out = String::new();
    for tok in o.split(' ') {
        if !out.is_empty() {
            out.push(' ');
        }
        if tok.contains('/') && tok.contains(".rs") {
            out.push_str(tok.rsplit('/').next().unwrap());
        } else {
            out.push_str(tok);
        }
    }
    trunc(&out, 160)
}

pub fn mix(a: u64, b: u64) -> u64 {
    let mut k = a ^ b.wrapping_mul(0x9E37_79B9_7F4A_7C15);
    k ^= k >> 33;
    k = k.wrapping_mul(0xff51_afd7_ed55_8ccd);
    k ^= k >> 33;
    k = k.wrapping_mul(0xc4ce_b9fe_1a85_ec53);
    k ^= k >> 33;
    k
}

pub fn hash_str(s: &str) -> u64 {
    let mut h = 0xcbf2_9ce4_8422_2325u64;
    for b in s.bytes() {
        h ^= b as u64;
        h = h.wrapping_mul(0x100_0000_01b3);
    }
    mix(h, s.len() as u64)
}

static LAST_PANIC: Mutex<Option<String>> = Mutex::new(None);
static CUR_CASE: AtomicU64 = AtomicU64::new(u64::MAX);
static CUR_START_MS: AtomicU64 = AtomicU64::new(0);
static HANG_LIMIT_S: AtomicU64 = AtomicU64::new(300);

fn install_panic_hook() {
    std::panic::set_hook(Box::new(|info| {
        let msg = if let Some(s) = info.payload().downcast_ref::<&str>() {
            s.to_string()
        } else if let Some(s) = info.payload().downcast_ref::<String>() {
            s.clone()
        } else {
            "<non-string panic payload>".to_string()
        };
        let loc = info
            .location()
            .map(|l| {
                let f = l.file().rsplit('/').next().unwrap_or("").to_string();
                format!(" @{}", f)
            })
            .unwrap_or_default();
        let full = format!("{}{}", msg, loc);
        if msg.starts_with("unsafe precondition") || msg.contains("cannot unwind") {
            // the process is about to abort: the driver reads this from stderr
            let l = info
                .location()
                .map(|l| format!("{}:{}", l.file(), l.line()))
                .unwrap_or_default();
            eprintln!("SUXMON-ABORT non-unwinding panic: {} at {}", msg, l);
        }
        if let Ok(mut g) = LAST_PANIC.lock() {
            // keep the first panic of a guarded call (worker threads may add more)
            if g.is_none() {
                *g = Some(full);
            }
        }
    }));
}

fn take_panic() -> String {
    LAST_PANIC
        .lock()
        .ok()
        .and_then(|mut g| g.take())
        .unwrap_or_else(|| "<unknown panic>".to_string())
}

fn clear_panic() {
    if let Ok(mut g) = LAST_PANIC.lock() {
        *g = None;
    }
}

/// Runs `f`, catching an unwinding panic; returns the panic message on panic.
pub fn catch<R>(f: impl FnOnce() -> R) -> Result<R, String> {
    clear_panic();
    match catch_unwind(AssertUnwindSafe(f)) {
        Ok(r) => Ok(r),
        Err(_) => Err(take_panic()),
    }
}

#[derive(Clone, Copy, PartialEq, Eq, Debug)]
pub enum Tier {
    Quick,
    Thorough,
}

pub struct Ctx {
    pub prop: String,
    pub build: String,
    pub seed: u64,
    pub tier: Tier,
    pub shard: (u64, u64),
    pub resume: u64,
    pub only: Option<u64>,
    pub describe: bool,
    /// reduced sizes (Miri / valgrind runs)
    pub small: bool,
    log: BufWriter<File>,
    log_path: String,
    case_no: u64,
    cases_run: u64,
    evals: u64,
    samples_left: u32,
    t0: Instant,
    time_budget_s: u64,
    pub extra_args: Vec<(String, String)>,
}

pub struct Violation {
    pub op: String,
    pub kind: String,
    pub msg: String,
    pub detail: String,
    pub count: u64,
}

pub struct Case {
    pub no: u64,
    pub seed: u64,
    pub variant: String,
    pub stratum: String,
    pub op: String,
    pub evals: u64,
    pub nontrivial: bool,
    pub cell: Option<String>,
    pub violations: Vec<Violation>,
    pub input: Option<String>,
    pub want_input: bool,
    rng: SmallRng,
}

impl Ctx {
    pub fn from_args(prop: &str) -> Ctx {
        let args: Vec<String> = std::env::args().collect();
        let mut seed = 1u64;
        let mut tier = Tier::Quick;
        let mut shard = (0u64, 1u64);
        let mut resume = 0u64;
        let mut only = None;
        let mut describe = false;
        let mut small = cfg!(miri);
        let mut build = String::from("?");
        let mut log_path = String::new();
        let mut budget = 0u64;
        let mut extra = Vec::new();
        let mut i = 1;
        while i < args.len() {
            let a = args[i].as_str();
            let val = |i: usize| -> String { args.get(i + 1).cloned().unwrap_or_default() };
            match a {
                "--seed" => {
                    seed = val(i).parse().expect("seed");
                    i += 1;
                }
                "--tier" => {
                    tier = if val(i) == "thorough" {
                        Tier::Thorough
                    } else {
                        Tier::Quick
                    };
                    i += 1;
                }
                "--shard" => {
                    let v = val(i);
                    let (a, b) = v.split_once('/').expect("shard i/N");
                    shard = (a.parse().unwrap(), b.parse().unwrap());
                    i += 1;
                }
                "--resume" => {
                    resume = val(i).parse().unwrap();
                    i += 1;
                }
                "--only" => {
                    only = Some(val(i).parse().unwrap());
                    i += 1;
                }
                "--describe" => describe = true,
                "--small" => small = true,
                "--build" => {
                    build = val(i);
                    i += 1;
                }
                "--log" => {
                    log_path = val(i);
                    i += 1;
                }
                "--budget" => {
                    budget = val(i).parse().unwrap();
                    i += 1;
                }
                "--hang" => {
                    HANG_LIMIT_S.store(val(i).parse().unwrap(), Ordering::Relaxed);
                    i += 1;
                }
                other if other.starts_with("--x-") => {
                    extra.push((other[4..].to_string(), val(i)));
                    i += 1;
                }
                other => panic!("unknown argument {other}"),
            }
            i += 1;
        }
        if log_path.is_empty() {
            log_path = format!("/tmp/suxmon-{}-{}.jsonl", prop, std::process::id());
        }
        let f = OpenOptions::new()
            .create(true)
            .append(true)
            .open(&log_path)
            .expect("open log");
        install_panic_hook();
        let ctx = Ctx {
            prop: prop.to_string(),
            build,
            seed,
            tier,
            shard,
            resume,
            only,
            describe,
            small,
            log: BufWriter::new(f),
            log_path: log_path.clone(),
            case_no: 0,
            cases_run: 0,
            evals: 0,
            samples_left: 2,
            t0: Instant::now(),
            time_budget_s: budget,
            extra_args: extra,
        };
        if !cfg!(miri) {
            start_watchdog(log_path, ctx.t0);
        }
        ctx
    }

    pub fn arg(&self, key: &str) -> Option<&str> {
        self.extra_args
            .iter()
            .find(|(k, _)| k == key)
            .map(|(_, v)| v.as_str())
    }

    pub fn thorough(&self) -> bool {
        self.tier == Tier::Thorough
    }

    /// Picks a size parameter by tier (and a much smaller one for Miri-class runs).
    pub fn scale(&self, small: usize, quick: usize, thorough: usize) -> usize {
        if self.small {
            small
        } else if self.thorough() {
            thorough
        } else {
            quick
        }
    }

    pub fn set_hang_limit(&self, secs: u64) {
        // an explicit --hang on the command line wins (it is parsed before)
        if HANG_LIMIT_S.load(Ordering::Relaxed) == 300 {
            HANG_LIMIT_S.store(secs, Ordering::Relaxed);
        }
    }

    /// True once the optional soft time budget (`--budget`) is used up: random
    /// (non-stratum) loops may stop early; the evidence counts what really ran.
    pub fn out_of_time(&self) -> bool {
        self.time_budget_s > 0 && self.t0.elapsed().as_secs() >= self.time_budget_s
    }

    /// Fraction of the soft time budget used so far (0.0 when there is no budget).
    pub fn time_frac_used(&self) -> f64 {
        if self.time_budget_s == 0 {
            0.0
        } else {
            self.t0.elapsed().as_secs_f64() / self.time_budget_s as f64
        }
    }

    /// Like `case`, but when `run` is false the case is only numbered, not
    /// executed: lets a workload drop optional cases (time budget) without
    /// disturbing the case numbering that all shards must share.
    pub fn case_if<F: FnOnce(&mut Case)>(&mut self, run: bool, variant: &str, stratum: &str, op: &str, f: F) {
        if run {
            self.case(variant, stratum, op, f)
        } else {
            self.case_no += 1;
        }
    }

    /// A generator for choices made *outside* cases (same in every shard).
    pub fn rng(&self, salt: u64) -> SmallRng {
        SmallRng::seed_from_u64(mix(self.seed, salt ^ 0xABCD_EF01))
    }

    fn w(&mut self, line: &str, flush: bool) {
        let _ = self.log.write_all(line.as_bytes());
        let _ = self.log.write_all(b"\n");
        if flush {
            let _ = self.log.flush();
        }
    }

    pub fn note(&mut self, key: &str, raw_json: &str) {
        let l = format!("{{\"t\":\"N\",\"key\":\"{}\",\"val\":{}}}", esc(key), raw_json);
        self.w(&l, false);
    }

    /// Would the next case run in this process? (lets callers skip expensive
    /// set-up shared by a group of cases — use sparingly)
    pub fn next_runs(&self) -> bool {
        self.runs(self.case_no)
    }

    fn runs(&self, no: u64) -> bool {
        if let Some(k) = self.only {
            return no == k;
        }
        no >= self.resume && no % self.shard.1 == self.shard.0
    }

    /// Skips `n` case numbers without running them (used to keep numbering
    /// stable when a whole group is not applicable).
    pub fn skip(&mut self, n: u64) {
        self.case_no += n;
    }

    pub fn case<F: FnOnce(&mut Case)>(&mut self, variant: &str, stratum: &str, op: &str, f: F) {
        let no = self.case_no;
        self.case_no += 1;
        if !self.runs(no) {
            return;
        }
        self.cases_run += 1;
        let cseed = mix(self.seed, no);
        let mut case = Case {
            no,
            seed: cseed,
            variant: variant.to_string(),
            stratum: stratum.to_string(),
            op: op.to_string(),
            evals: 0,
            nontrivial: false,
            cell: None,
            violations: Vec::new(),
            input: None,
            want_input: self.describe || self.samples_left > 0,
            rng: SmallRng::seed_from_u64(cseed),
        };
        let b = format!(
            "{{\"t\":\"B\",\"c\":{},\"variant\":\"{}\",\"stratum\":\"{}\",\"op\":\"{}\"}}",
            no,
            esc(variant),
            esc(stratum),
            esc(op)
        );
        self.w(&b, true);
        CUR_START_MS.store(self.t0.elapsed().as_millis() as u64, Ordering::SeqCst);
        CUR_CASE.store(no, Ordering::SeqCst);
        clear_panic();
        let r = catch_unwind(AssertUnwindSafe(|| f(&mut case)));
        CUR_CASE.store(u64::MAX, Ordering::SeqCst);
        if r.is_err() {
            let msg = take_panic();
            let op = case.op.clone();
            case.fail(&op, "panic", &msg, "uncaught panic inside the case");
        }
        if let Some(inp) = case.input.take() {
            if self.describe {
                let l = format!("{{\"t\":\"D\",\"c\":{},\"input\":\"{}\"}}", no, esc(&inp));
                self.w(&l, true);
            } else if case.nontrivial && self.samples_left > 0 {
                self.samples_left -= 1;
                let l = format!(
                    "{{\"t\":\"S\",\"c\":{},\"variant\":\"{}\",\"stratum\":\"{}\",\"op\":\"{}\",\"input\":\"{}\"}}",
                    no,
                    esc(variant),
                    esc(stratum),
                    esc(op),
                    esc(&trunc(&inp, 600))
                );
                self.w(&l, false);
            }
        }
        let nviol = case.violations.len();
        for v in case.violations.drain(..) {
            let sig = format!(
                "{}|{}|{}|{}|{}|{}",
                self.prop,
                variant,
                v.op,
                stratum,
                v.kind,
                normalize(&v.msg)
            );
            let l = format!(
                "{{\"t\":\"V\",\"c\":{},\"sig\":\"{}\",\"kind\":\"{}\",\"op\":\"{}\",\"variant\":\"{}\",\"stratum\":\"{}\",\"msg\":\"{}\",\"detail\":\"{}\",\"n\":{}}}",
                no,
                esc(&sig),
                esc(&v.kind),
                esc(&v.op),
                esc(variant),
                esc(stratum),
                esc(&trunc(&v.msg, 400)),
                esc(&trunc(&v.detail, 1500)),
                v.count
            );
            self.w(&l, true);
        }
        self.evals += case.evals;
        let cell = case
            .cell
            .take()
            .unwrap_or_else(|| format!("{}|{}", variant, stratum));
        let e = format!(
            "{{\"t\":\"E\",\"c\":{},\"ev\":{},\"nt\":{},\"cell\":\"{}\",\"out\":\"{}\"}}",
            no,
            case.evals,
            case.nontrivial,
            esc(&cell),
            if nviol == 0 { "held" } else { "violated" }
        );
        self.w(&e, false);
    }

    pub fn finish(mut self) -> ! {
        let z = format!(
            "{{\"t\":\"Z\",\"cases_run\":{},\"cases_total\":{},\"evals\":{},\"secs\":{:.2}}}",
            self.cases_run,
            self.case_no,
            self.evals,
            self.t0.elapsed().as_secs_f64()
        );
        self.w(&z, true);
        let _ = &self.log_path;
        std::process::exit(0);
    }
}

impl Case {
    pub fn rng(&mut self) -> &mut SmallRng {
        &mut self.rng
    }

    /// Records the (lazily formatted) input of this case; kept only when
    /// somebody will read it (describe mode or evidence samples).
    pub fn describe(&mut self, f: impl FnOnce() -> String) {
        if self.want_input {
            self.input = Some(f());
        }
    }

    pub fn nontrivial(&mut self) {
        self.nontrivial = true;
    }

    pub fn set_cell(&mut self, cell: String) {
        self.cell = Some(cell);
    }

    pub fn tick(&mut self, n: u64) {
        self.evals += n;
    }

    pub fn fail(&mut self, op: &str, kind: &str, msg: &str, detail: &str) {
        let nm = normalize(msg);
        for v in self.violations.iter_mut() {
            if v.op == op && v.kind == kind && normalize(&v.msg) == nm {
                v.count += 1;
                return;
            }
        }
        if self.violations.len() >= 40 {
            return;
        }
        self.violations.push(Violation {
            op: op.to_string(),
            kind: kind.to_string(),
            msg: msg.to_string(),
            detail: detail.to_string(),
            count: 1,
        });
    }

    /// One oracle comparison.
    pub fn eq<T: PartialEq + Debug>(&mut self, op: &str, at: impl Debug, got: T, want: T) -> bool {
        self.evals += 1;
        if got != want {
            let d = format!("{}({:?}): got {:?}, model {:?}", op, at, got, want);
            self.fail(op, "mismatch", "", &trunc(&d, 1200));
            false
        } else {
            true
        }
    }

    pub fn check(&mut self, op: &str, ok: bool, detail: impl FnOnce() -> String) -> bool {
        self.evals += 1;
        if !ok {
            let d = detail();
            self.fail(op, "mismatch", "", &d);
        }
        ok
    }

    /// A call that must not panic: a panic is recorded as a violation and
    /// `None` is returned so the case can continue with other variants.
    pub fn guard<R>(&mut self, op: &str, f: impl FnOnce() -> R) -> Option<R> {
        match catch(f) {
            Ok(r) => Some(r),
            Err(m) => {
                self.fail(op, "panic", &m, "panic where the property promises an answer");
                None
            }
        }
    }

    /// Iterator-protocol monitor: the iterator produced by `mk` must behave, through
    /// the skipping adaptors of `Iterator` (`nth`, `skip`, `step_by`, `count`, `last`,
    /// `size_hint`), like an iterator over `model`. Everything is cut by `take`
    /// so that an iterator that fails to end cannot hang the case. Only the results
    /// up to the first `None` are compared (non-fused iterators are allowed).
    pub fn iter_protocol<T: PartialEq + Debug + Clone, I: Iterator<Item = T>>(&mut self, op: &str, mk: impl Fn() -> I, model: &[T], trace: &dyn Fn() -> String) {
        let n = model.len();
        let cap = n + 3;
        let ks: Vec<usize> = {
            let r = self.rng();
            let mut v = vec![0, 1, n / 2, n.saturating_sub(1), n, n + 1, n + 2, n + 63, n + 64, n + 65, 2 * n + 7];
            v.push(r.random_range(0..=n));
            v.push(n + r.random_range(0..200));
            v.sort_unstable();
            v.dedup();
            v
        };
        let show = |v: &[T]| trunc(&format!("{:?}", v), 200);
        for &k in &ks {
            // nth(k), then the element after it
            let got = catch(|| {
                let mut it = mk();
                let a = it.nth(k);
                let b = if a.is_some() { it.next() } else { None };
                (a, b)
            });
            let want_a = model.get(k).cloned();
            let want_b = if want_a.is_some() { model.get(k + 1).cloned() } else { None };
            match got {
                Ok((a, b)) => {
                    self.check(op, a == want_a && b == want_b, || format!("nth({}) then next() on a {}-item iterator: got ({:?}, {:?}), model ({:?}, {:?}); {}", k, n, a, b, want_a, want_b, trace()));
                }
                Err(m) => self.fail(op, "panic", &m, &format!("nth({}) on a {}-item iterator panicked; {}", k, n, trace())),
            }
            // skip(k)
            match catch(|| mk().skip(k).take(cap).collect::<Vec<T>>()) {
                Ok(got) => {
                    let want: Vec<T> = model.iter().skip(k).cloned().collect();
                    self.check(op, got == want, || format!("skip({}) on a {}-item iterator: got {} items {}, model {} items {}; {}", k, n, got.len(), show(&got), want.len(), show(&want), trace()));
                }
                Err(m) => self.fail(op, "panic", &m, &format!("skip({}) on a {}-item iterator panicked; {}", k, n, trace())),
            }
        }
        let steps: Vec<usize> = {
            let r = self.rng();
            vec![1, 2, 3, 7, 8, 63, 64, 65, n.max(1), n + 1, 1 + r.random_range(0..n + 70)]
        };
        for &s in &steps {
            match catch(|| mk().step_by(s).take(cap).collect::<Vec<T>>()) {
                Ok(got) => {
                    let want: Vec<T> = model.iter().step_by(s).cloned().collect();
                    self.check(op, got == want, || format!("step_by({}) on a {}-item iterator: got {} items {}, model {} items {}; {}", s, n, got.len(), show(&got), want.len(), show(&want), trace()));
                }
                Err(m) => self.fail(op, "panic", &m, &format!("step_by({}) on a {}-item iterator panicked; {}", s, n, trace())),
            }
        }
        match catch(|| (mk().take(cap).count(), mk().take(cap).last(), mk().size_hint())) {
            Ok((cnt, last, (lo, hi))) => {
                self.check(op, cnt == n && last == model.last().cloned(), || format!("count()/last() got ({}, {:?}), model ({}, {:?}); {}", cnt, last, n, model.last(), trace()));
                self.check(op, lo <= n && hi.map_or(true, |h| h >= n), || format!("size_hint() = ({}, {:?}) excludes the {} items the iterator yields; {}", lo, hi, n, trace()));
            }
            Err(m) => self.fail(op, "panic", &m, &format!("count/last/size_hint panicked; {}", trace())),
        }
        // size_hint after a partial walk
        if n > 0 {
            let k = self.rng().random_range(0..=n);
            if let Ok((lo, hi)) = catch(|| {
                let mut it = mk();
                for _ in 0..k {
                    it.next();
                }
                it.size_hint()
            }) {
                self.check(op, lo <= n - k && hi.map_or(true, |h| h >= n - k), || format!("size_hint() after {} of {} items = ({}, {:?}); {}", k, n, lo, hi, trace()));
            }
        }
    }

    /// `ExactSizeIterator::len()` along a walk: exactly the number of items left
    /// (std's `len()` itself panics when the two ends of `size_hint` disagree).
    pub fn iter_exact_len<T, I: ExactSizeIterator<Item = T>>(&mut self, op: &str, mk: impl Fn() -> I, n: usize, trace: &dyn Fn() -> String) {
        let ks: Vec<usize> = {
            let r = self.rng();
            let mut v = vec![0, 1, n / 2, n.saturating_sub(1), n, n + 1];
            v.push(r.random_range(0..=n));
            v.sort_unstable();
            v.dedup();
            v
        };
        for &k in &ks {
            match catch(|| {
                let mut it = mk();
                for _ in 0..k {
                    if it.next().is_none() {
                        break;
                    }
                }
                (it.len(), it.size_hint())
            }) {
                Ok((l, h)) => {
                    let want = n.saturating_sub(k);
                    self.check(op, l == want && h == (want, Some(want)), || format!("after {} of {} items len() = {} and size_hint() = {:?}, {} items are left; {}", k.min(n), n, l, h, want, trace()));
                }
                Err(m) => self.fail(op, "panic", &m, &format!("len()/size_hint() after {} of {} items panicked; {}", k, n, trace())),
            }
        }
    }

    /// A call that must panic (rejected input). Returns true if it did.
    pub fn expect_panic<R>(&mut self, op: &str, f: impl FnOnce() -> R) -> bool {
        self.evals += 1;
        match catch(f) {
            Ok(_) => {
                self.fail(op, "nopanic", "", "call was accepted but the property requires a panic");
                false
            }
            Err(_) => true,
        }
    }
}

fn start_watchdog(log_path: String, t0: Instant) {
    std::thread::Builder::new()
        .name("suxmon-watchdog".into())
        .spawn(move || loop {
            std::thread::sleep(std::time::Duration::from_millis(500));
            let c = CUR_CASE.load(Ordering::SeqCst);
            if c == u64::MAX {
                continue;
            }
            let started = CUR_START_MS.load(Ordering::SeqCst);
            let now = t0.elapsed().as_millis() as u64;
            let lim = HANG_LIMIT_S.load(Ordering::Relaxed);
            if now.saturating_sub(started) > lim * 1000 && CUR_CASE.load(Ordering::SeqCst) == c {
                if let Ok(mut f) = OpenOptions::new().append(true).open(&log_path) {
                    let _ = writeln!(f, "{{\"t\":\"H\",\"c\":{},\"secs\":{}}}", c, lim);
                    let _ = f.flush();
                }
                // _exit: do not run destructors of a process that is stuck
                unsafe { libc_exit(86) };
            }
        })
        .expect("watchdog");
}

extern "C" {
    fn _exit(code: i32) -> !;
}
unsafe fn libc_exit(code: i32) -> ! {
    _exit(code)
}
