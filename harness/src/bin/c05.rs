//! C05 — BitFieldVec is observationally a Vec of w-bit values under any
//! operation sequence.
//!
//! Oracle: a `Vec<u128>` plus the width, subjected to the same operations.
//! Every observation (get, len, pop result, iteration in the three directions,
//! `==`, from_slice, conversions, atomic get) is compared with the model; a
//! value that does not fit or an index >= len must panic and leave the contents
//! unchanged.
//!
//! Known-defect isolation (DESIGN.md section 7, items 2, 17, 19):
//!   * width 0 + `with_capacity` + push/resize lives only in the cases with
//!     stratum `w0/with_capacity*` (they abort the process under UB checks);
//!   * iterators are never called at `bit_width == W::BITS` inside histories;
//!     the `iteration/wfull` cases do that;
//!   * `set_atomic` is only called in `AtomicBitFieldVec<..>` cases, whose
//!     stratum carries the width class (`atomic/wfull`).
#[path = "common/bfv.rs"]
mod bfv;
use bfv::*;
use common_traits::{AsBytes, AtomicUnsignedInt, IntoAtomic};
use rand::Rng;
use std::sync::atomic::Ordering;
use sux::bits::{AtomicBitFieldVec, BitFieldVec};
use sux::traits::{
    AtomicBitFieldSlice, BitFieldSlice, BitFieldSliceCore, BitFieldSliceMut, IntoReverseUncheckedIterator, IntoUncheckedIterator,
    UncheckedIterator,
};
use suxmon::obs::*;

fn vname<W: TW>() -> String {
    format!("BitFieldVec<{}>", W::NAME)
}
fn aname<W: TW>() -> String {
    format!("AtomicBitFieldVec<{}>", W::NAME)
}

fn tr(t: &[String]) -> String {
    let n = t.len();
    let from = n.saturating_sub(25);
    let head = if from > 0 { format!("{}; …; ", t[0]) } else { String::new() };
    format!("history(last {} of {}): {}{}", n - from, n, head, t[from..].join("; "))
}

/// Start positions for positioned iteration: all of them for short vectors.
fn starts(c: &mut Case, len: usize) -> Vec<usize> {
    if len <= 24 {
        (0..=len).collect()
    } else {
        let mut v = vec![0, 1, len - 1, len, len / 2];
        for _ in 0..5 {
            v.push(c.rng().random_range(0..=len));
        }
        v
    }
}

/// Iteration in the three directions against the model.
fn observe_iter<W: TW, B: AsRef<[W]>>(c: &mut Case, b: &BitFieldVec<W, B>, m: &[u128], trace: &dyn Fn() -> String) {
    let len = m.len();
    if let Some(got) = c.guard("iter", || b.iter().map(|x| x.to128()).collect::<Vec<u128>>()) {
        c.check("iter", got == m, || {
            format!("iter() differs from model at index {:?}: got {} model {}; {}", first_diff(&got, m), show_vals(&got), show_vals(m), trace())
        });
    }
    if let Some((got, hint)) = c.guard("into_iter", || {
        let it = b.into_iter();
        let hint = (it.len(), it.size_hint());
        (it.map(|x| x.to128()).collect::<Vec<u128>>(), hint)
    }) {
        c.check("into_iter", got == m && hint == (len, (len, Some(len))), || {
            format!("(&b).into_iter() differs from model at {:?} or len/size_hint {:?} != {}; {}", first_diff(&got, m), hint, len, trace())
        });
    }
    for k in starts(c, len) {
        if let Some(got) = c.guard("iter_from", || b.iter_from(k).map(|x| x.to128()).collect::<Vec<u128>>()) {
            c.check("iter_from", got == m[k..], || {
                format!("iter_from({}) differs from model[{}..] at offset {:?}: got {} model {}; {}", k, k, first_diff(&got, &m[k..]), show_vals(&got), show_vals(&m[k..]), trace())
            });
        }
        // forward unchecked iterator: exactly len-k items exist
        if let Some(got) = c.guard("unchecked_iter", || {
            let mut it = b.into_unchecked_iter_from(k);
            (k..len).map(|_| unsafe { it.next_unchecked() }.to128()).collect::<Vec<u128>>()
        }) {
            c.check("unchecked_iter", got == m[k..], || {
                format!("into_unchecked_iter_from({}) differs from model[{}..] at offset {:?}: got {} model {}; {}", k, k, first_diff(&got, &m[k..]), show_vals(&got), show_vals(&m[k..]), trace())
            });
        }
        // reverse unchecked iterator from k yields k-1, k-2, ..., 0
        let want: Vec<u128> = m[..k].iter().rev().copied().collect();
        if let Some(got) = c.guard("rev_unchecked_iter", || {
            let mut it = b.into_rev_unchecked_iter_from(k);
            (0..k).map(|_| unsafe { it.next_unchecked() }.to128()).collect::<Vec<u128>>()
        }) {
            c.check("rev_unchecked_iter", got == want, || {
                format!("into_rev_unchecked_iter_from({}) differs from reversed model[..{}] at offset {:?}: got {} model {}; {}", k, k, first_diff(&got, &want), show_vals(&got), show_vals(&want), trace())
            });
        }
    }
    // the checked iterators through the skipping adaptors and ExactSizeIterator::len
    if len <= 3000 && c.rng().random_range(0..4u32) == 0 {
        c.iter_protocol("iter_adaptors", || b.iter().map(|x| x.to128()), m, trace);
        c.iter_exact_len("iter_exact_len", || b.iter(), len, trace);
        let k = if len == 0 { 0 } else { c.rng().random_range(0..=len) };
        let tr = || format!("iter_from({}); {}", k, trace());
        c.iter_protocol("iter_from_adaptors", || b.iter_from(k).map(|x| x.to128()), &m[k..], &tr);
        c.iter_exact_len("iter_from_exact_len", || b.iter_from(k), len - k, &tr);
    }
    let want: Vec<u128> = m.iter().rev().copied().collect();
    if let Some(got) = c.guard("rev_unchecked_iter", || {
        let mut it = b.into_rev_unchecked_iter();
        (0..len).map(|_| unsafe { it.next_unchecked() }.to128()).collect::<Vec<u128>>()
    }) {
        c.check("rev_unchecked_iter", got == want, || {
            format!("into_rev_unchecked_iter() differs from reversed model at offset {:?}: got {} model {}; {}", first_diff(&got, &want), show_vals(&got), show_vals(&want), trace())
        });
    }
    if let Some(got) = c.guard("unchecked_iter", || {
        let mut it = b.into_unchecked_iter();
        (0..len).map(|_| unsafe { it.next_unchecked() }.to128()).collect::<Vec<u128>>()
    }) {
        c.check("unchecked_iter", got == m, || format!("into_unchecked_iter() differs from model at {:?}: got {} model {}; {}", first_diff(&got, m), show_vals(&got), show_vals(m), trace()));
    }
}

/// len / width / get over the whole vector (+ iteration when `iters`).
fn observe<W: TW, B: AsRef<[W]>>(c: &mut Case, b: &BitFieldVec<W, B>, width: usize, m: &[u128], iters: bool, trace: &dyn Fn() -> String) -> bool {
    let l = BitFieldSliceCore::<W>::len(b);
    let ok = c.check("len", l == m.len() && b.is_empty() == m.is_empty(), || format!("len() got {} (is_empty {}) model {}; {}", l, b.is_empty(), m.len(), trace()));
    if !ok {
        return false;
    }
    c.check("bit_width", BitFieldSliceCore::<W>::bit_width(b) == width, || format!("bit_width() got {} expected {}; {}", BitFieldSliceCore::<W>::bit_width(b), width, trace()));
    let got = read_all(b);
    c.tick(m.len() as u64);
    if let Some(i) = first_diff(&got, m) {
        c.fail("get", "mismatch", "", &format!("get({}) got {:#x} model {:#x} (width {}, len {}); {}", i, got[i], m[i], width, m.len(), trace()));
        return false;
    }
    if iters {
        observe_iter(c, b, m, trace);
    }
    true
}

fn eq_ops<W: TW>(c: &mut Case, b: &BitFieldVec<W>, width: usize, m: &[u128], trace: &dyn Fn() -> String) {
    let clean = clean_bfv::<W>(m, width);
    c.check("eq", *b == clean && clean == *b, || format!("b != fresh copy with the same {} values (width {}); {}", m.len(), width, trace()));
    let dirty = dirty_bfv::<W>(c.rng(), m, width, Garbage::Random, 2);
    c.check("eq", *b == dirty && dirty == *b, || format!("b != copy that differs only in storage beyond len (backend {}); {}", show_words(dirty.as_slice()), trace()));
    let boxed: BitFieldVec<W, Box<[W]>> = clean.clone().into();
    c.check("eq", *b == boxed && boxed == *b, || format!("b != boxed fresh copy; {}", trace()));
    let (words, w, l) = dirty.into_raw_parts();
    let view = unsafe { BitFieldVec::<W, &[W]>::from_raw_parts(&words[..], w, l) };
    c.check("eq", *b == view && view == *b, || format!("b != slice-backed copy; {}", trace()));
    if !m.is_empty() && width > 0 {
        let i = c.rng().random_range(0..m.len());
        let bit = c.rng().random_range(0..width);
        let mut m2 = m.to_vec();
        m2[i] ^= 1u128 << bit;
        let other = clean_bfv::<W>(&m2, width);
        c.check("eq", *b != other && other != *b, || format!("b == copy whose element {} differs in bit {}; {}", i, bit, trace()));
    }
    let mut m3 = m.to_vec();
    m3.push(0);
    let longer = clean_bfv::<W>(&m3, width);
    c.check("eq", *b != longer && longer != *b, || format!("b == vector with one more (zero) element; {}", trace()));
    if !m.is_empty() {
        let shorter = clean_bfv::<W>(&m[..m.len() - 1], width);
        c.check("eq", *b != shorter && shorter != *b, || format!("b == vector with its last element removed; {}", trace()));
    }
    let cl = b.clone();
    c.check("clone", cl == *b && read_all(&cl) == m, || format!("clone differs; {}", trace()));
}

/// Operations that must be rejected by a panic and leave the vector as it was.
fn rejected<W: TW>(c: &mut Case, b: &mut BitFieldVec<W>, width: usize, m: &[u128], trace: &dyn Fn() -> String) {
    let len = m.len();
    let bits = bits_of::<W>();
    let idxs = [len, len + 1, 2 * len + 2, len + bits, usize::MAX, usize::MAX / width.max(1), (usize::MAX / width.max(1)).wrapping_add(1)];
    let i = idxs[c.rng().random_range(0..idxs.len())];
    if i >= len {
        let r = catch(|| b.get(i));
        c.check("get_oob", r.is_err(), || format!("get({}) on len {} did not panic (returned {:?}); {}", i, len, r, trace()));
        let v = W::from128(gen_val(c.rng(), width));
        let r = catch(|| b.set(i, v));
        c.check("set_oob", r.is_err(), || format!("set({},{:#x}) on len {} did not panic; {}", i, v.to128(), len, trace()));
    }
    // positioned iteration: a start position in 0..=len is accepted, anything beyond is rejected
    {
        let froms = [len + 1, len + 2, len + bits, 2 * len + 2, usize::MAX];
        let f = froms[c.rng().random_range(0..froms.len())];
        let r = catch(|| b.iter_from(f).take(3).count());
        c.check("iter_from_oob", r.is_err(), || format!("iter_from({}) on len {} did not panic (the iterator yields {:?} items within 3 steps); {}", f, len, r, trace()));
        let r = catch(|| sux::traits::IntoIteratorFrom::into_iter_from(&*b, f).take(3).count());
        c.check("iter_from_oob", r.is_err(), || format!("into_iter_from({}) on len {} did not panic; {}", f, len, trace()));
    }
    if width < bits {
        // values that do not fit: smallest one, all ones, a fitting value plus the next bit
        let cands = [1u128 << width, mask128(bits), gen_val(c.rng(), width) | (1u128 << width), 1u128 << (bits - 1)];
        let v = W::from128(cands[c.rng().random_range(0..cands.len())]);
        if len > 0 {
            let i = c.rng().random_range(0..len);
            let r = catch(|| b.set(i, v));
            c.check("set_toolarge", r.is_err(), || format!("set({},{:#x}) with width {} did not panic; {}", i, v.to128(), width, trace()));
        }
        let r = catch(|| b.push(v));
        c.check("push_toolarge", r.is_err(), || format!("push({:#x}) with width {} did not panic; {}", v.to128(), width, trace()));
        let nl = len + 1 + c.rng().random_range(0..70);
        let r = catch(|| b.resize(nl, v));
        c.check("resize_toolarge", r.is_err(), || format!("resize({},{:#x}) (growing) with width {} did not panic; {}", nl, v.to128(), width, trace()));
    }
    let l = BitFieldSliceCore::<W>::len(b);
    let got = if l == len { read_all(b) } else { vec![] };
    c.check("rejected_unchanged", l == len && got == m, || format!("contents or len changed by rejected operations: len {} model {}, first difference at {:?}; {}", l, len, first_diff(&got, m), trace()));
}

fn bitlen(x: u128) -> usize {
    128 - x.leading_zeros() as usize
}

fn check_from_slice<W: TW, T: TW>(c: &mut Case, what: &str, r: anyhow::Result<BitFieldVec<T>>, m: &[u128], trace: &dyn Fn() -> String) {
    let need = m.iter().map(|&x| bitlen(x)).max().unwrap_or(0);
    let tb = bits_of::<T>();
    match r {
        Ok(r) => {
            let ok = need <= tb && BitFieldSliceCore::<T>::len(&r) == m.len() && BitFieldSliceCore::<T>::bit_width(&r) <= tb && read_all(&r) == m;
            c.check("from_slice", ok, || {
                format!("{}: result (width {}, len {}) differs from the source values {} (they need {} bits); {}", what, BitFieldSliceCore::<T>::bit_width(&r), BitFieldSliceCore::<T>::len(&r), show_vals(m), need, trace())
            });
        }
        Err(e) => {
            c.check("from_slice", need > tb, || format!("{}: returned Err({}) although all values fit {} bits (need {}); {}", what, e, tb, need, trace()));
        }
    }
}

/// Per-word-type parts: atomics do not exist for u128, and from_slice needs
/// concrete source/target types.
trait C05Word: TW {
    fn atomic_roundtrip(c: &mut Case, b: BitFieldVec<Self>, width: usize, m: &[u128], trace: &dyn Fn() -> String) -> BitFieldVec<Self>;
    fn atomic_history(c: &mut Case, width: usize, steps: usize, maxlen: usize);
    fn shared_slice_conv(c: &mut Case, width: usize, maxlen: usize);
    fn from_slice_ops(c: &mut Case, b: &BitFieldVec<Self>, m: &[u128], trace: &dyn Fn() -> String);
}

macro_rules! from_slice_impl {
    ($t:ty) => {
        fn from_slice_ops(c: &mut Case, b: &BitFieldVec<Self>, m: &[u128], trace: &dyn Fn() -> String) {
            if let Some(r) = c.guard("from_slice", || BitFieldVec::<$t>::from_slice(b)) {
                check_from_slice::<$t, $t>(c, concat!("BitFieldVec::<", stringify!($t), ">::from_slice(&b)"), r, m, trace);
            }
            match c.rng().random_range(0..4) {
                0 => {
                    if let Some(r) = c.guard("from_slice", || BitFieldVec::<u128>::from_slice(b)) {
                        check_from_slice::<$t, u128>(c, "BitFieldVec::<u128>::from_slice(&b)", r, m, trace);
                    }
                }
                1 => {
                    if let Some(r) = c.guard("from_slice", || BitFieldVec::<u8>::from_slice(b)) {
                        check_from_slice::<$t, u8>(c, "BitFieldVec::<u8>::from_slice(&b)", r, m, trace);
                    }
                }
                2 => {
                    if let Some(r) = c.guard("from_slice", || BitFieldVec::<u32>::from_slice(b)) {
                        check_from_slice::<$t, u32>(c, "BitFieldVec::<u32>::from_slice(&b)", r, m, trace);
                    }
                }
                _ => {
                    // a plain Vec<W> is a slice of full-width fields
                    let v: Vec<$t> = m.iter().map(|&x| x as $t).collect();
                    if let Some(r) = c.guard("from_slice", || BitFieldVec::<u64>::from_slice::<$t>(&v)) {
                        check_from_slice::<$t, u64>(c, concat!("BitFieldVec::<u64>::from_slice(&Vec<", stringify!($t), ">)"), r, m, trace);
                    }
                    if let Some(r) = c.guard("from_slice", || BitFieldVec::<$t>::from_slice::<$t>(&v)) {
                        check_from_slice::<$t, $t>(c, concat!("BitFieldVec::<", stringify!($t), ">::from_slice(&Vec<", stringify!($t), ">)"), r, m, trace);
                    }
                }
            }
        }
    };
}

macro_rules! impl_c05 {
    ($($t:ty),*) => {$(
        impl C05Word for $t {
            fn atomic_roundtrip(c: &mut Case, b: BitFieldVec<Self>, width: usize, m: &[u128], trace: &dyn Fn() -> String) -> BitFieldVec<Self> {
                atomic_roundtrip_g::<$t>(c, b, width, m, trace)
            }
            fn atomic_history(c: &mut Case, width: usize, steps: usize, maxlen: usize) {
                atomic_history_g::<$t>(c, width, steps, maxlen)
            }
            fn shared_slice_conv(c: &mut Case, width: usize, maxlen: usize) {
                shared_slice_conv_g::<$t>(c, width, maxlen)
            }
            from_slice_impl!($t);
        }
    )*};
}
impl_c05!(u8, u16, u32, u64, usize);

impl C05Word for u128 {
    fn atomic_roundtrip(_c: &mut Case, b: BitFieldVec<Self>, _width: usize, _m: &[u128], _trace: &dyn Fn() -> String) -> BitFieldVec<Self> {
        b
    }
    fn atomic_history(_c: &mut Case, _width: usize, _steps: usize, _maxlen: usize) {}
    fn shared_slice_conv(_c: &mut Case, _width: usize, _maxlen: usize) {}
    from_slice_impl!(u128);
}

fn alen<W, B>(a: &AtomicBitFieldVec<W, B>) -> usize
where
    W: TW + IntoAtomic,
{
    BitFieldSliceCore::<W::AtomicType>::len(a)
}

/// Vec -> Atomic -> Vec, Box -> Atomic -> Box, &mut [W] -> &mut [Atomic] -> &mut [W]
/// (the shared-slice form has cases of its own); every form is read completely (no atomic writes here).
fn atomic_roundtrip_g<W>(c: &mut Case, b: BitFieldVec<W>, width: usize, m: &[u128], trace: &dyn Fn() -> String) -> BitFieldVec<W>
where
    W: TW + IntoAtomic,
    W::AtomicType: AtomicUnsignedInt + AsBytes,
{
    let len = m.len();
    let a: AtomicBitFieldVec<W> = b.into();
    let got: Vec<u128> = (0..alen(&a).min(len)).map(|i| a.get_atomic(i, Ordering::Relaxed).to128()).collect();
    c.tick(len as u64);
    c.check("into_atomic", alen(&a) == len && BitFieldSliceCore::<W::AtomicType>::bit_width(&a) == width && got == m, || {
        format!("Vec->AtomicBitFieldVec changed len/width/contents: len {} model {}, width {} expected {}, first difference {:?}; {}", alen(&a), len, BitFieldSliceCore::<W::AtomicType>::bit_width(&a), width, first_diff(&got, m), trace())
    });
    let r = catch(|| a.get_atomic(len, Ordering::Relaxed));
    c.check("get_atomic_oob", r.is_err(), || format!("get_atomic({}) on len {} did not panic; {}", len, len, trace()));
    let v: BitFieldVec<W> = a.into();
    c.check("from_atomic", BitFieldSliceCore::<W>::len(&v) == len && read_all(&v) == m, || format!("Atomic->Vec conversion changed contents; {}", trace()));
    let bx: BitFieldVec<W, Box<[W]>> = v.into();
    let ab: AtomicBitFieldVec<W, Box<[W::AtomicType]>> = bx.into();
    let got: Vec<u128> = (0..alen(&ab).min(len)).map(|i| ab.get_atomic(i, Ordering::SeqCst).to128()).collect();
    c.check("into_atomic", alen(&ab) == len && got == m, || format!("Box->Atomic conversion changed contents (first difference {:?}); {}", first_diff(&got, m), trace()));
    let mut bx: BitFieldVec<W, Box<[W]>> = ab.into();
    c.check("from_atomic", BitFieldSliceCore::<W>::len(&bx) == len && read_all(&bx) == m, || format!("Atomic->Box conversion changed contents; {}", trace()));
    {
        let r = unsafe { BitFieldVec::<W, &mut [W]>::from_raw_parts(bx.as_mut_slice(), width, len) };
        let ar: AtomicBitFieldVec<W, &mut [W::AtomicType]> = r.into();
        let got: Vec<u128> = (0..alen(&ar).min(len)).map(|i| ar.get_atomic(i, Ordering::Relaxed).to128()).collect();
        c.check("into_atomic", alen(&ar) == len && got == m, || format!("&mut [W]->&mut [Atomic] conversion changed contents (first difference {:?}); {}", first_diff(&got, m), trace()));
        let r: BitFieldVec<W, &mut [W]> = ar.into();
        c.check("from_atomic", BitFieldSliceCore::<W>::len(&r) == len && read_all(&r) == m, || format!("&mut [Atomic]->&mut [W] conversion changed contents; {}", trace()));
    }
    bx.into()
}

/// `&[W]` -> `&[Atomic]` -> `&[W]`: kept in cases of its own because the
/// conversion turns a shared reference to plain words into a reference to
/// atomics (Miri reports it under Stacked Borrows).
fn shared_slice_conv_g<W>(c: &mut Case, width: usize, maxlen: usize)
where
    W: TW + IntoAtomic,
    W::AtomicType: AtomicUnsignedInt + AsBytes,
{
    let len = len_near_boundary(c.rng(), width, bits_of::<W>(), maxlen);
    let m = gen_vals(c.rng(), len, width);
    let words = make_words::<W>(c.rng(), &m, width, Garbage::Random, 1, 1);
    let desc = format!("BitFieldVec::<{},&[{}]>::from_raw_parts(&{}, {}, {})", W::NAME, W::NAME, show_words(&words), width, len);
    let r = unsafe { BitFieldVec::<W, &[W]>::from_raw_parts(&words[..], width, len) };
    let ar: AtomicBitFieldVec<W, &[W::AtomicType]> = r.into();
    let got: Vec<u128> = (0..alen(&ar).min(len)).map(|i| ar.get_atomic(i, Ordering::Relaxed).to128()).collect();
    c.tick(len as u64);
    c.check("into_atomic", alen(&ar) == len && got == m, || format!("&[W]->&[Atomic] conversion changed contents (first difference {:?}); {}", first_diff(&got, &m), desc));
    let r: BitFieldVec<W, &[W]> = ar.into();
    c.check("from_atomic", BitFieldSliceCore::<W>::len(&r) == len && read_all(&r) == m, || format!("&[Atomic]->&[W] conversion changed contents; {}", desc));
    if len > 1 {
        c.nontrivial();
    }
    c.describe(|| desc.clone());
}

/// Single-threaded history on an AtomicBitFieldVec: set_atomic / get_atomic,
/// rejected calls, conversions back and forth.
fn atomic_history_g<W>(c: &mut Case, width: usize, steps: usize, maxlen: usize)
where
    W: TW + IntoAtomic,
    W::AtomicType: AtomicUnsignedInt + AsBytes,
{
    let bits = bits_of::<W>();
    let len = len_near_boundary(c.rng(), width, bits, maxlen);
    let mut trace: Vec<String> = vec![];
    let mut m: Vec<u128>;
    let mut a: AtomicBitFieldVec<W>;
    if c.rng().random_bool(0.5) {
        a = AtomicBitFieldVec::<W>::new(width, len);
        m = vec![0; len];
        trace.push(format!("AtomicBitFieldVec::<{}>::new({},{})", W::NAME, width, len));
    } else {
        m = gen_vals(c.rng(), len, width);
        let g = Garbage::ALL[c.rng().random_range(0..3)];
        let spare = c.rng().random_range(0..3);
        let b = dirty_bfv::<W>(c.rng(), &m, width, g, spare);
        trace.push(format!("AtomicBitFieldVec::<{}>::from(BitFieldVec::from_raw_parts(garbage {} + {} spare words, width {}, values {}))", W::NAME, g.name(), spare, width, show_vals(&m)));
        a = b.into();
    }
    // (the orderings that are admissible both for the loads and for the compare-exchange loops
    // behind set_atomic; Release and AcqRel are rejected by std for loads)
    let ords = [Ordering::Relaxed, Ordering::Acquire, Ordering::SeqCst];
    let mut muts = 0usize;
    for _ in 0..steps {
        let o = ords[c.rng().random_range(0..3)];
        match c.rng().random_range(0..100) {
            0..=54 if len > 0 => {
                let i = if c.rng().random_bool(0.3) { len - 1 - c.rng().random_range(0..len.min(4)) } else { c.rng().random_range(0..len) };
                let v = gen_val(c.rng(), width);
                let helper = c.rng().random_bool(0.3);
                trace.push(format!("{}({},{:#x})", if helper { "AtomicHelper::set" } else { "set_atomic" }, i, v));
                if c.guard("set_atomic", || if helper { sux::traits::bit_field_slice::AtomicHelper::set(&a, i, W::from128(v), o) } else { a.set_atomic(i, W::from128(v), o) }).is_none() {
                    // contents must then be unchanged; stop after the first failure
                    let got: Vec<u128> = (0..len).map(|j| a.get_atomic(j, o).to128()).collect();
                    c.check("set_atomic", got == m, || format!("set_atomic panicked and changed the contents; {}", tr(&trace)));
                    c.describe(|| trace.join("; "));
                    return;
                }
                m[i] = v;
                muts += 1;
                // neighbours undisturbed
                for j in [i.wrapping_sub(1), i, i + 1] {
                    if j < len {
                        let g = a.get_atomic(j, o).to128();
                        if g != m[j] {
                            c.fail("get_atomic", "mismatch", "", &format!("after set_atomic({},{:#x}): get_atomic({}) got {:#x} model {:#x} (width {}); {}", i, v, j, g, m[j], width, tr(&trace)));
                            return;
                        }
                        c.tick(1);
                    }
                }
            }
            55..=69 => {
                let got: Vec<u128> = (0..len).map(|j| a.get_atomic(j, o).to128()).collect();
                c.tick(len as u64);
                c.check("get_atomic", alen(&a) == len && got == m, || format!("get_atomic differs from model at {:?}: got {} model {}; {}", first_diff(&got, &m), show_vals(&got), show_vals(&m), tr(&trace)));
            }
            70..=84 => {
                let idxs = [len, len + 1, 2 * len + 3, usize::MAX];
                let i = idxs[c.rng().random_range(0..4)];
                let v = W::from128(gen_val(c.rng(), width));
                // through the trait methods and through the short names of AtomicHelper
                let helper = c.rng().random_bool(0.5);
                let r1 = catch(|| if helper { sux::traits::bit_field_slice::AtomicHelper::get(&a, i, o) } else { a.get_atomic(i, o) });
                let r2 = catch(|| if helper { sux::traits::bit_field_slice::AtomicHelper::set(&a, i, v, o) } else { a.set_atomic(i, v, o) });
                c.check("atomic_oob", r1.is_err() && r2.is_err(), || format!("{}({}) on len {} did not both panic; {}", if helper { "AtomicHelper::get/set" } else { "get_atomic/set_atomic" }, i, len, tr(&trace)));
                if width < bits && len > 0 {
                    let j = c.rng().random_range(0..len);
                    let big = W::from128([1u128 << width, mask128(bits), m[j] | (1u128 << width)][c.rng().random_range(0..3)]);
                    let r = catch(|| if helper { sux::traits::bit_field_slice::AtomicHelper::set(&a, j, big, o) } else { a.set_atomic(j, big, o) });
                    c.check("set_atomic_toolarge", r.is_err(), || format!("{}({},{:#x}) with width {} did not panic; {}", if helper { "AtomicHelper::set" } else { "set_atomic" }, j, big.to128(), width, tr(&trace)));
                }
                let got: Vec<u128> = (0..len).map(|j| a.get_atomic(j, o).to128()).collect();
                c.check("rejected_unchanged", got == m, || format!("contents changed by rejected atomic operations (first difference {:?}); {}", first_diff(&got, &m), tr(&trace)));
                trace.push("rejected-ops".into());
            }
            _ => {
                let b: BitFieldVec<W> = a.into();
                c.check("from_atomic", BitFieldSliceCore::<W>::len(&b) == len && read_all(&b) == m, || format!("Atomic->BitFieldVec differs from model; {}", tr(&trace)));
                a = b.into();
                trace.push("roundtrip".into());
            }
        }
    }
    let got: Vec<u128> = (0..len).map(|j| a.get_atomic(j, Ordering::SeqCst).to128()).collect();
    c.check("get_atomic", got == m, || format!("final contents differ from model at {:?}; {}", first_diff(&got, &m), tr(&trace)));
    if muts > 0 && len > 1 {
        c.nontrivial();
    }
    c.describe(|| trace.join("; "));
}

const INITS: [&str; 6] = ["new", "with_capacity", "extend", "raw-clean", "new_unaligned", "raw-dirty"];

fn history<W: C05Word>(c: &mut Case, width: usize, init: usize, steps: usize, iters: bool, maxlen: usize) {
    let bits = bits_of::<W>();
    let mut trace: Vec<String> = Vec::new();
    let len0 = len_near_boundary(c.rng(), width, bits, maxlen);
    let mut m: Vec<u128>;
    let mut b: BitFieldVec<W>;
    match init {
        0 => {
            b = BitFieldVec::<W>::new(width, len0);
            m = vec![0; len0];
            trace.push(format!("BitFieldVec::<{}>::new({},{})", W::NAME, width, len0));
        }
        1 => {
            // never at width 0 (callers map that to the isolated cases)
            let cap = if c.rng().random_bool(0.3) { 0 } else { len0 };
            b = BitFieldVec::<W>::with_capacity(width, cap);
            m = vec![];
            trace.push(format!("BitFieldVec::<{}>::with_capacity({},{})", W::NAME, width, cap));
        }
        2 => {
            m = gen_vals(c.rng(), len0, width);
            b = BitFieldVec::<W>::new(width, 0);
            b.extend(suxmon::gen::HintIter::new(m.iter().map(|&x| W::from128(x)), m.len(), (len0 % 6) as u8));
            trace.push(format!("BitFieldVec::<{}>::new({},0).extend({})", W::NAME, width, show_vals(&m)));
        }
        3 => {
            m = gen_vals(c.rng(), len0, width);
            b = clean_bfv::<W>(&m, width);
            trace.push(format!("BitFieldVec::<{}>::from_raw_parts(clean words, {}, {}) values {}", W::NAME, width, len0, show_vals(&m)));
        }
        4 => {
            m = gen_vals(c.rng(), len0, width);
            b = BitFieldVec::<W>::new_unaligned(width, len0);
            for (i, &x) in m.iter().enumerate() {
                b.set(i, W::from128(x));
            }
            trace.push(format!("BitFieldVec::<{}>::new_unaligned({},{}) + set all: {}", W::NAME, width, len0, show_vals(&m)));
        }
        _ => {
            m = gen_vals(c.rng(), len0, width);
            let g = Garbage::ALL[c.rng().random_range(0..3)];
            let spare = c.rng().random_range(0..4);
            b = dirty_bfv::<W>(c.rng(), &m, width, g, spare);
            trace.push(format!("BitFieldVec::<{}>::from_raw_parts(words with {} garbage + {} spare words, {}, {}) values {}", W::NAME, g.name(), spare, width, len0, show_vals(&m)));
        }
    }
    let (mut grew, mut shrank, mut sets) = (0usize, 0usize, 0usize);
    let mut max_len = m.len();
    if !observe(c, &b, width, &m, iters, &|| tr(&trace)) {
        c.describe(|| trace.join("; "));
        return;
    }
    let per_word = (bits / width.max(1)).max(1);
    for _step in 0..steps {
        let op = c.rng().random_range(0..100);
        match op {
            0..=15 => {
                let n = if c.rng().random_bool(0.25) { c.rng().random_range(1..=2 * per_word + 2) } else { 1 };
                let vals = gen_vals(c.rng(), n, width);
                trace.push(format!("push{}", show_vals(&vals)));
                for &v in &vals {
                    b.push(W::from128(v));
                    m.push(v);
                }
                grew += 1;
            }
            16..=27 => {
                let n = if c.rng().random_bool(0.25) { c.rng().random_range(1..=2 * per_word + 2) } else { 1 };
                trace.push(format!("pop x{}", n));
                for _ in 0..n {
                    let got = b.pop().map(|x| x.to128());
                    let want = m.pop();
                    c.tick(1);
                    if got != want {
                        c.fail("pop", "mismatch", "", &format!("pop() got {:?} model {:?}; {}", got, want, tr(&trace)));
                        c.describe(|| trace.join("; "));
                        return;
                    }
                }
                shrank += 1;
            }
            28..=41 => {
                if !m.is_empty() {
                    let n = c.rng().random_range(1..6);
                    for _ in 0..n {
                        let i = if c.rng().random_bool(0.35) { m.len() - 1 - c.rng().random_range(0..m.len().min(per_word + 1)) } else { c.rng().random_range(0..m.len()) };
                        let v = gen_val(c.rng(), width);
                        trace.push(format!("set({},{:#x})", i, v));
                        b.set(i, W::from128(v));
                        m[i] = v;
                        // the written field and its neighbours
                        for j in [i.wrapping_sub(1), i, i + 1] {
                            if j < m.len() {
                                let g = b.get(j).to128();
                                c.tick(1);
                                if g != m[j] {
                                    c.fail("get", "mismatch", "", &format!("after set({},{:#x}): get({}) got {:#x} model {:#x} (width {}); {}", i, v, j, g, m[j], width, tr(&trace)));
                                    c.describe(|| trace.join("; "));
                                    return;
                                }
                            }
                        }
                    }
                    sets += 1;
                }
            }
            42..=51 => {
                let v = gen_val(c.rng(), width);
                let new_len = if c.rng().random_bool(0.5) {
                    shrank += 1;
                    m.len().saturating_sub(c.rng().random_range(0..=2 * per_word + 1))
                } else {
                    grew += 1;
                    m.len() + c.rng().random_range(0..=2 * per_word + 3)
                };
                trace.push(format!("resize({},{:#x})", new_len, v));
                b.resize(new_len, W::from128(v));
                m.resize(new_len, v);
            }
            52..=53 => {
                trace.push("clear".into());
                b.clear();
                m.clear();
                shrank += 1;
            }
            54..=58 => {
                let n = c.rng().random_range(0..=3 * per_word);
                let vals = gen_vals(c.rng(), n, width);
                trace.push(format!("extend{}", show_vals(&vals)));
                b.extend(suxmon::gen::HintIter::new(vals.iter().map(|&x| W::from128(x)), vals.len(), (vals.len() % 6) as u8));
                m.extend(vals.iter().copied());
                grew += 1;
            }
            59..=68 => {
                trace.push("observe".into());
                if !observe(c, &b, width, &m, iters, &|| tr(&trace)) {
                    c.describe(|| trace.join("; "));
                    return;
                }
            }
            69..=75 => {
                trace.push("eq-ops".into());
                eq_ops(c, &b, width, &m, &|| tr(&trace));
            }
            76..=80 => {
                trace.push("box-roundtrip".into());
                let mut bx: BitFieldVec<W, Box<[W]>> = b.into();
                if !m.is_empty() {
                    let i = c.rng().random_range(0..m.len());
                    let v = gen_val(c.rng(), width);
                    trace.push(format!("boxed.set({},{:#x})", i, v));
                    bx.set(i, W::from128(v));
                    m[i] = v;
                }
                observe(c, &bx, width, &m, iters, &|| tr(&trace));
                b = bx.into();
            }
            81..=85 => {
                trace.push("atomic-roundtrip".into());
                b = W::atomic_roundtrip(c, b, width, &m, &|| tr(&trace));
            }
            86..=92 => {
                trace.push("rejected-ops".into());
                rejected(c, &mut b, width, &m, &|| tr(&trace));
            }
            93..=96 => {
                trace.push("from_slice".into());
                W::from_slice_ops(c, &b, &m, &|| tr(&trace));
            }
            _ => {
                // mask() is the low-width-bits mask
                c.check("mask", BitFieldVec::<W>::mask(&b).to128() == mask128(width), || format!("mask() got {:#x} expected {:#x}", BitFieldVec::<W>::mask(&b).to128(), mask128(width)));
            }
        }
        max_len = max_len.max(m.len());
        // cheap per-step invariant: len, a random element and the last one
        let l = BitFieldSliceCore::<W>::len(&b);
        if l != m.len() {
            c.fail("len", "mismatch", "", &format!("len() got {} model {}; {}", l, m.len(), tr(&trace)));
            c.describe(|| trace.join("; "));
            return;
        }
        if !m.is_empty() {
            let i = c.rng().random_range(0..m.len());
            let last = m.len() - 1;
            for j in [i, last] {
                let g = b.get(j).to128();
                c.tick(1);
                if g != m[j] {
                    c.fail("get", "mismatch", "", &format!("get({}) got {:#x} model {:#x} (width {}, len {}); {}", j, g, m[j], width, m.len(), tr(&trace)));
                    c.describe(|| trace.join("; "));
                    return;
                }
            }
        }
    }
    observe(c, &b, width, &m, iters, &|| tr(&trace));
    eq_ops(c, &b, width, &m, &|| tr(&trace));
    if grew > 0 && shrank > 0 && sets > 0 && max_len > 1 {
        c.nontrivial();
    }
    c.describe(|| trace.join("; "));
}

/// Iteration in the three directions from every start, on vectors whose
/// storage went through growth and shrinkage.
fn iteration<W: C05Word>(c: &mut Case, width: usize, backing: Backing, maxlen: usize) {
    let bits = bits_of::<W>();
    let len = len_near_boundary(c.rng(), width, bits, maxlen);
    let m = gen_vals(c.rng(), len, width);
    let b = build_bfv::<W>(c.rng(), &m, width, backing);
    let desc = format!("BitFieldVec<{}> width {} len {} backing {} values {}", W::NAME, width, len, backing.name(), show_vals(&m));
    observe(c, &b, width, &m, true, &|| desc.clone());
    let bx: BitFieldVec<W, Box<[W]>> = b.into();
    observe_iter(c, &bx, &m, &|| format!("(boxed) {}", desc));
    if len > 1 {
        c.nontrivial();
    }
    c.describe(|| desc.clone());
}

/// width 0 through `with_capacity`: the backend is empty when the first
/// element is written.
fn w0_with_capacity<W: C05Word>(c: &mut Case, cap: usize, use_resize: bool) {
    let mut b = BitFieldVec::<W>::with_capacity(0, cap);
    let n = 10;
    let what;
    if use_resize {
        what = format!("BitFieldVec::<{}>::with_capacity(0,{}).resize({},0)", W::NAME, cap, n);
        b.resize(n, W::from128(0));
    } else {
        what = format!("BitFieldVec::<{}>::with_capacity(0,{}) + {} x push(0)", W::NAME, cap, n);
        for _ in 0..n {
            b.push(W::from128(0));
        }
    }
    let m = vec![0u128; n];
    observe(c, &b, 0, &m, true, &|| what.clone());
    let r = catch(|| b.push(W::from128(1)));
    c.check("push_toolarge", r.is_err(), || format!("{}: push(1) at width 0 did not panic", what));
    c.check("pop", b.pop().map(|x| x.to128()) == Some(0) && BitFieldSliceCore::<W>::len(&b) == n - 1, || format!("{}: pop() wrong", what));
    c.nontrivial();
    c.describe(|| what.clone());
}

fn run<W: C05Word>(ctx: &mut Ctx) {
    let bits = bits_of::<W>();
    let v = vname::<W>();
    let av = aname::<W>();
    let steps = ctx.scale(40, 120, 300);
    let maxlen_for = |width: usize| -> usize {
        // a few words' worth of elements, capped
        let per_word = (bits / width.max(1)).max(1);
        (per_word * 5 + 3).min(if width == 0 { 80 } else { 400 })
    };
    let widths: Vec<usize> = if ctx.small { vec![0, 1, 3, bits / 2 + 1, bits - 1, bits] } else { (0..=bits).collect() };
    let reps = ctx.scale(1, 4, 12);
    for (wi, &width) in widths.iter().enumerate() {
        let wc = width_class(width, bits);
        let iters = width != bits;
        let maxlen = if ctx.small { maxlen_for(width).min(24) } else { maxlen_for(width) };
        for init in (0..INITS.len() * reps).map(|x| x % INITS.len()) {
            if ctx.small && init != (wi % INITS.len()) && init != 5 {
                continue;
            }
            if init == 1 && width == 0 {
                continue; // isolated below
            }
            ctx.case(&v, &format!("history/{}", wc), "history", |c| {
                c.set_cell(format!("{}|history|w{}|{}", vname::<W>(), width, INITS[init]));
                history::<W>(c, width, init, steps, iters, maxlen);
            });
        }
        for (k, backing) in Backing::ALL.iter().enumerate() {
            if ctx.small && k % 4 != wi % 4 {
                continue;
            }
            ctx.case(&v, &format!("iteration/{}", wc), "iteration", |c| {
                c.set_cell(format!("{}|iteration|w{}|{}", vname::<W>(), width, backing.name()));
                iteration::<W>(c, width, *backing, maxlen);
            });
        }
        if W::ATOMIC {
            let n = ctx.scale(1, 2, 4);
            for k in 0..n {
                ctx.case(&av, &format!("atomic/{}", wc), "atomic_history", |c| {
                    c.set_cell(format!("{}|atomic|w{}|{}", aname::<W>(), width, k));
                    W::atomic_history(c, width, steps, maxlen);
                });
            }
        }
    }
    if W::ATOMIC {
        for &width in &[0usize, 1, 3, bits / 2 + 1, bits - 1, bits] {
            ctx.case(&v, "conversion/shared-slice", "shared_slice_to_atomic", |c| {
                c.set_cell(format!("{}|shared-slice|w{}", vname::<W>(), width));
                W::shared_slice_conv(c, width, 24);
            });
        }
    }
    // width 0 + with_capacity: each in a case of its own (UB-check abort on the pinned tree)
    for cap in [0usize, 10] {
        for use_resize in [false, true] {
            ctx.case(&v, &format!("w0/with_capacity({})", if cap == 0 { "0" } else { "n" }), if use_resize { "resize_on_empty_backend" } else { "push_on_empty_backend" }, |c| {
                w0_with_capacity::<W>(c, cap, use_resize);
            });
        }
    }
}

fn random_round<W: C05Word>(ctx: &mut Ctx, r: u64) {
    let bits = bits_of::<W>();
    let mut g = ctx.rng(r.wrapping_mul(7919) ^ bits as u64 ^ (W::NAME.len() as u64) << 32);
    let width = match g.random_range(0..10) {
        0 => bits,
        1 => bits - 1,
        2 => 0,
        3 => 1,
        _ => g.random_range(0..=bits),
    };
    let init = g.random_range(0..INITS.len());
    let init = if init == 1 && width == 0 { 0 } else { init };
    let big = g.random_bool(0.2);
    let wc = width_class(width, bits);
    let steps = ctx.scale(40, 200, 400);
    let per_word = (bits / width.max(1)).max(1);
    let maxlen = if big { (per_word * 40).min(3000) } else { (per_word * 5 + 3).min(400) };
    let maxlen = if ctx.small { maxlen.min(24) } else { maxlen };
    ctx.case(&vname::<W>(), &format!("history/{}{}", wc, if big { "/big" } else { "" }), "history", |c| {
        c.set_cell(format!("{}|history|w{}|{}{}", vname::<W>(), width, INITS[init], if big { "|big" } else { "" }));
        history::<W>(c, width, init, steps, width != bits, maxlen);
    });
    if W::ATOMIC {
        ctx.case(&aname::<W>(), &format!("atomic/{}", wc), "atomic_history", |c| {
            c.set_cell(format!("{}|atomic|w{}|r", aname::<W>(), width));
            W::atomic_history(c, width, steps, maxlen);
        });
    }
}

fn main() {
    let mut ctx = Ctx::from_args("C05");
    ctx.set_hang_limit(120);
    run::<u8>(&mut ctx);
    run::<u16>(&mut ctx);
    run::<u32>(&mut ctx);
    run::<u64>(&mut ctx);
    run::<usize>(&mut ctx);
    run::<u128>(&mut ctx);
    // the macro form of the width-0 defect (usize only)
    ctx.case("BitFieldVec<usize>", "w0/macro", "resize_on_empty_backend", |c| {
        let b = sux::bit_field_vec![0 => 0; 10];
        observe(c, &b, 0, &vec![0u128; 10], true, &|| "bit_field_vec![0 => 0; 10]".to_string());
        c.nontrivial();
        c.describe(|| "bit_field_vec![0 => 0; 10]".into());
    });
    ctx.case("BitFieldVec<usize>", "macro", "macro", |c| {
        let b = sux::bit_field_vec![10; 4, 500, 2, 0, 1];
        observe(c, &b, 10, &[4, 500, 2, 0, 1], true, &|| "bit_field_vec![10; 4, 500, 2, 0, 1]".to_string());
        let b = sux::bit_field_vec![6 => 3; 10];
        observe(c, &b, 6, &vec![3u128; 10], true, &|| "bit_field_vec![6 => 3; 10]".to_string());
        let b = sux::bit_field_vec![5];
        observe(c, &b, 5, &[], true, &|| "bit_field_vec![5]".to_string());
        let b = sux::bit_field_vec![64 => usize::MAX; 3];
        observe(c, &b, 64, &vec![u64::MAX as u128; 3], false, &|| "bit_field_vec![64 => usize::MAX; 3]".to_string());
        c.nontrivial();
        c.describe(|| "macro forms".into());
    });
    // random rounds on top
    let rounds = ctx.scale(0, 16000, 40000) as u64;
    // ASan runs about four times slower: a quarter of the random rounds
    let rounds = if ctx.build == "ASAN" { rounds / 4 } else { rounds };
    for r in 0..rounds {
        random_round::<u8>(&mut ctx, r);
        random_round::<u16>(&mut ctx, r);
        random_round::<u32>(&mut ctx, r);
        random_round::<u64>(&mut ctx, r);
        random_round::<usize>(&mut ctx, r);
        random_round::<u128>(&mut ctx, r);
        if ctx.out_of_time() {
            break;
        }
    }
    ctx.finish();
}
