//! C13 — concurrent writers to distinct elements never interfere.
//!
//! Three executions of the same scenario generator:
//!  1. hook-driven schedule enumeration (native builds): the `verif_hooks`
//!     scheduling points of sux serialise real OS threads; a controller
//!     explores interleavings depth-first (exhaustively for small scenarios)
//!     or with seeded random choices;
//!  2. plain threads under Miri (`--small`): Miri's scheduler, data-race
//!     detector and weak-memory emulation decide, one Miri seed per process;
//!  3. native stress with the hook used as a delay injector (also under TSan).
//!
//! Oracle: after join every written element holds its writer's value and
//! every other element its initial value (model = plain Vec); swap results
//! on shared bits must admit a sequential order; an Elias-Fano sequence built
//! concurrently must equal the sequentially built one.
use rand::rngs::SmallRng;
use rand::{Rng, SeedableRng};
use std::sync::atomic::{AtomicU64, AtomicUsize, Ordering};
use std::sync::{Arc, Condvar, Mutex};
use sux::bits::{AtomicBitFieldVec, AtomicBitVec, BitFieldVec, BitVec};
use sux::dict::{EliasFanoBuilder, EliasFanoConcurrentBuilder};
use sux::traits::{AtomicBitFieldSlice, BitFieldSlice, BitFieldSliceCore, BitFieldSliceMut, IndexedSeq};
use suxmon::obs::*;

// ---------------------------------------------------------------------------
// hook-driven scheduler

#[derive(Clone, Copy, PartialEq, Debug)]
enum TState {
    NotStarted,
    Running,
    Waiting(u32, usize),
    Finished,
}

struct Sched {
    states: Vec<TState>,
    granted: Option<usize>,
    points_seen: u64,
    active: bool,
}

static SCHED: Mutex<Sched> = Mutex::new(Sched { states: Vec::new(), granted: None, points_seen: 0, active: false });
static CV: Condvar = Condvar::new();
static SITE_COUNTS: [AtomicU64; 32] = [const { AtomicU64::new(0) }; 32];

thread_local! {
    static TID: std::cell::Cell<Option<usize>> = const { std::cell::Cell::new(None) };
}

fn sched_hook(site: u32, addr: usize) {
    let Some(tid) = TID.with(|t| t.get()) else { return };
    SITE_COUNTS[(site as usize).min(31)].fetch_add(1, Ordering::Relaxed);
    let mut g = SCHED.lock().unwrap();
    if !g.active {
        return;
    }
    g.points_seen += 1;
    g.states[tid] = TState::Waiting(site, addr);
    CV.notify_all();
    while g.granted != Some(tid) {
        g = CV.wait(g).unwrap();
    }
    g.granted = None;
    g.states[tid] = TState::Running;
}

fn worker_begin(tid: usize) {
    TID.with(|t| t.set(Some(tid)));
    // initial scheduling point so that even the first operation is ordered
    sched_hook(0, 0);
}

fn worker_end(tid: usize) {
    let mut g = SCHED.lock().unwrap();
    g.states[tid] = TState::Finished;
    CV.notify_all();
    TID.with(|t| t.set(None));
}

/// How the controller picks the next thread.
enum Strategy<'a> {
    /// follow `prefix` (indices into the sorted enabled list), then always the first
    Dfs { prefix: &'a [usize] },
    Random { rng: &'a mut SmallRng },
}

struct RunTrace {
    choices: Vec<usize>,
    branching: Vec<usize>,
    tids: Vec<u8>,
}

/// Runs `bodies` (one closure per thread) under the controlled scheduler.
fn run_controlled<'env>(bodies: Vec<Box<dyn FnOnce() + Send + 'env>>, mut strat: Strategy<'_>) -> RunTrace {
    let nt = bodies.len();
    {
        let mut g = SCHED.lock().unwrap();
        g.states = vec![TState::NotStarted; nt];
        g.granted = None;
        g.active = true;
    }
    let mut trace = RunTrace { choices: vec![], branching: vec![], tids: vec![] };
    std::thread::scope(|s| {
        for (tid, body) in bodies.into_iter().enumerate() {
            s.spawn(move || {
                worker_begin(tid);
                body();
                worker_end(tid);
            });
        }
        let mut step = 0usize;
        loop {
            let mut g = SCHED.lock().unwrap();
            // wait until nobody is running
            loop {
                let busy = g.granted.is_some() || g.states.iter().any(|s| matches!(s, TState::Running | TState::NotStarted));
                if !busy {
                    break;
                }
                g = CV.wait(g).unwrap();
            }
            let enabled: Vec<usize> = (0..nt).filter(|&t| matches!(g.states[t], TState::Waiting(..))).collect();
            if enabled.is_empty() {
                break;
            }
            let k = match &mut strat {
                Strategy::Dfs { prefix } => {
                    if step < prefix.len() {
                        prefix[step].min(enabled.len() - 1)
                    } else {
                        0
                    }
                }
                Strategy::Random { rng } => rng.random_range(0..enabled.len()),
            };
            trace.choices.push(k);
            trace.branching.push(enabled.len());
            trace.tids.push(enabled[k] as u8);
            g.granted = Some(enabled[k]);
            CV.notify_all();
            drop(g);
            step += 1;
        }
    });
    SCHED.lock().unwrap().active = false;
    trace
}

/// Enumerates interleavings depth-first with prefix replay. `make` builds a
/// fresh instance and the thread bodies, `check` judges the final state.
/// Returns (#executions, exhaustive?).
fn explore<F>(max_execs: usize, mut run_one: F) -> (usize, bool)
where
    F: FnMut(Strategy<'_>) -> RunTrace,
{
    let mut prefix: Vec<usize> = Vec::new();
    let mut execs = 0;
    loop {
        let tr = run_one(Strategy::Dfs { prefix: &prefix });
        execs += 1;
        // next prefix: deepest position that still has an unexplored sibling
        let mut i = tr.choices.len();
        let mut next = None;
        while i > 0 {
            i -= 1;
            if tr.choices[i] + 1 < tr.branching[i] {
                let mut p = tr.choices[..i].to_vec();
                p.push(tr.choices[i] + 1);
                next = Some(p);
                break;
            }
        }
        match next {
            None => return (execs, true),
            Some(p) => prefix = p,
        }
        if execs >= max_execs {
            return (execs, false);
        }
    }
}

// ---------------------------------------------------------------------------
// scenarios

#[derive(Clone, Debug)]
struct FieldScenario {
    width: usize,
    len: usize,
    init: Vec<usize>,
    /// per thread: (index, value) writes, all indices distinct across threads
    writes: Vec<Vec<(usize, usize)>>,
    placement: &'static str,
}

fn mask(w: usize) -> usize {
    if w == 0 {
        0
    } else if w >= 64 {
        !0
    } else {
        (1usize << w) - 1
    }
}

fn gen_field_scenario(rng: &mut SmallRng, threads: usize, per_thread: usize, placement: usize) -> FieldScenario {
    // widths: powers of two and not, fields straddling words for non-divisors of 64
    let widths = [1usize, 2, 3, 5, 7, 8, 9, 13, 16, 17, 21, 31, 32, 33, 47, 59, 61, 63, 64];
    let mut width = widths[rng.random_range(0..widths.len())];
    let total = threads * per_thread;
    let (len, idxs, name): (usize, Vec<usize>, &'static str) = match placement {
        0 => {
            // all written fields inside one word (if they fit) — neighbours share a word
            width = [1usize, 2, 3, 5, 7, 8, 9][rng.random_range(0..7)];
            let per_word = 64 / width;
            let len = per_word + total + 3;
            let mut v: Vec<usize> = (0..per_word.min(len)).collect();
            shuffle(rng, &mut v);
            v.truncate(total);
            while v.len() < total {
                v.push(per_word + v.len());
            }
            (len, v, "same-word")
        }
        1 => {
            // fields that straddle a word boundary and their neighbours
            width = [3usize, 5, 7, 9, 13, 17, 21, 31, 33, 47, 59, 61, 63][rng.random_range(0..13)];
            let len = ((64 * 4) / width + 4).max(total + 4);
            let mut strad: Vec<usize> = (0..len).filter(|i| (i * width) / 64 != (i * width + width - 1) / 64).collect();
            let mut v = vec![];
            shuffle(rng, &mut strad);
            for &s in strad.iter() {
                for c in [s, s + 1, s.wrapping_sub(1)] {
                    if c < len && !v.contains(&c) && v.len() < total {
                        v.push(c);
                    }
                }
            }
            let mut i = 0;
            while v.len() < total {
                if !v.contains(&i) {
                    v.push(i);
                }
                i += 1;
            }
            shuffle(rng, &mut v);
            (len, v, "straddle")
        }
        2 => {
            // adjacent indices: consecutive fields, spanning adjacent words
            let len = total + 130 / width.max(1) + 2;
            let start = rng.random_range(0..=(len - total));
            let mut v: Vec<usize> = (start..start + total).collect();
            shuffle(rng, &mut v);
            (len, v, "adjacent")
        }
        _ => {
            let len = total * 3 + 5;
            let mut v: Vec<usize> = (0..len).collect();
            shuffle(rng, &mut v);
            v.truncate(total);
            (len, v, "random")
        }
    };
    let m = mask(width);
    let init: Vec<usize> = (0..len).map(|_| rng.random::<u64>() as usize & m).collect();
    let mut writes = vec![vec![]; threads];
    for (k, &i) in idxs.iter().enumerate() {
        // value different from the initial one where possible, biased to extremes
        let mut val = match rng.random_range(0..4) {
            0 => m,
            1 => 0,
            2 => !init[i] & m,
            _ => rng.random::<u64>() as usize & m,
        };
        if val == init[i] && width > 0 {
            val = (val ^ 1) & m;
        }
        writes[k % threads].push((i, val));
    }
    FieldScenario { width, len, init, writes, placement: name }
}

fn shuffle<T>(rng: &mut SmallRng, v: &mut [T]) {
    for i in (1..v.len()).rev() {
        let j = rng.random_range(0..=i);
        v.swap(i, j);
    }
}

fn build_field_vec(sc: &FieldScenario) -> AtomicBitFieldVec<usize> {
    let mut b = BitFieldVec::<usize>::new(sc.width, sc.len);
    for (i, &v) in sc.init.iter().enumerate() {
        b.set(i, v);
    }
    b.into()
}

fn field_expected(sc: &FieldScenario) -> Vec<usize> {
    let mut m = sc.init.clone();
    for t in &sc.writes {
        for &(i, v) in t {
            m[i] = v;
        }
    }
    m
}

/// Judges the final state; returns an error description on mismatch.
fn judge_fields(sc: &FieldScenario, a: AtomicBitFieldVec<usize>) -> Result<(), String> {
    let exp = field_expected(sc);
    for (i, &e) in exp.iter().enumerate() {
        let got = a.get_atomic(i, Ordering::SeqCst);
        if got != e {
            let who = sc.writes.iter().position(|t| t.iter().any(|w| w.0 == i));
            return Err(format!("element {} holds {:#x}, expected {:#x} ({}; initial {:#x})", i, got, e,
                match who { Some(t) => format!("written by thread {}", t), None => "never written".into() }, sc.init[i]));
        }
    }
    let b: BitFieldVec<usize> = a.into();
    for (i, &e) in exp.iter().enumerate() {
        if b.get(i) != e {
            return Err(format!("after conversion element {} holds {:#x}, expected {:#x}", i, b.get(i), e));
        }
    }
    Ok(())
}

fn field_bodies<'a>(sc: &'a FieldScenario, a: &'a AtomicBitFieldVec<usize>, unchecked: bool) -> Vec<Box<dyn FnOnce() + Send + 'a>> {
    sc.writes
        .iter()
        .map(|ws| {
            let b: Box<dyn FnOnce() + Send + 'a> = Box::new(move || {
                for &(i, v) in ws {
                    if unchecked {
                        unsafe { a.set_atomic_unchecked(i, v, Ordering::Relaxed) };
                    } else {
                        a.set_atomic(i, v, Ordering::Relaxed);
                    }
                }
            });
            b
        })
        .collect()
}

#[derive(Clone, Debug)]
struct BitScenario {
    len: usize,
    init: Vec<bool>,
    /// per thread: ops; Set(i,v) on private bits, Swap(i,v) on shared bits
    ops: Vec<Vec<BitOp>>,
}

#[derive(Clone, Copy, Debug, PartialEq)]
enum BitOp {
    Set(usize, bool),
    Swap(usize, bool),
}

fn gen_bit_scenario(rng: &mut SmallRng, threads: usize, per_thread: usize, shared_bits: usize) -> BitScenario {
    let len = 64 + rng.random_range(1..70);
    let init: Vec<bool> = (0..len).map(|_| rng.random_bool(0.5)).collect();
    // private bits: distinct across threads, mostly in the same word
    let mut all: Vec<usize> = if rng.random_bool(0.7) { (0..64.min(len)).collect() } else { (0..len).collect() };
    shuffle(rng, &mut all);
    let shared: Vec<usize> = all.drain(..shared_bits.min(all.len())).collect();
    let mut ops = vec![vec![]; threads];
    for t in 0..threads {
        for _ in 0..per_thread {
            if !shared.is_empty() && rng.random_bool(0.5) {
                let i = shared[rng.random_range(0..shared.len())];
                ops[t].push(BitOp::Swap(i, rng.random_bool(0.5)));
            } else if let Some(i) = all.pop() {
                ops[t].push(BitOp::Set(i, !init[i] || rng.random_bool(0.3)));
            }
        }
    }
    BitScenario { len, init, ops }
}

fn build_bit_vec(sc: &BitScenario) -> AtomicBitVec {
    let b: BitVec = sc.init.iter().copied().collect();
    b.into()
}

type SwapLog = Vec<Mutex<Vec<(usize, bool, bool)>>>;

fn bit_bodies<'a>(sc: &'a BitScenario, a: &'a AtomicBitVec, log: &'a SwapLog) -> Vec<Box<dyn FnOnce() + Send + 'a>> {
    sc.ops
        .iter()
        .enumerate()
        .map(|(t, ops)| {
            let b: Box<dyn FnOnce() + Send + 'a> = Box::new(move || {
                for &op in ops {
                    match op {
                        BitOp::Set(i, v) => a.set(i, v, Ordering::Relaxed),
                        BitOp::Swap(i, v) => {
                            let old = a.swap(i, v, Ordering::Relaxed);
                            log[t].lock().unwrap().push((i, v, old));
                        }
                    }
                }
            });
            b
        })
        .collect()
}

/// Is there a sequential order of the swaps on one bit (respecting each
/// thread's program order) in which every swap returns the previous value,
/// starting at `init` and ending at `fin`?
fn swaps_linearizable(per_thread: &[Vec<(bool, bool)>], init: bool, fin: bool) -> bool {
    fn rec(per_thread: &[Vec<(bool, bool)>], pos: &mut Vec<usize>, cur: bool, fin: bool) -> bool {
        let mut any = false;
        for t in 0..per_thread.len() {
            if pos[t] < per_thread[t].len() {
                any = true;
                let (v, old) = per_thread[t][pos[t]];
                if old == cur {
                    pos[t] += 1;
                    if rec(per_thread, pos, v, fin) {
                        return true;
                    }
                    pos[t] -= 1;
                }
            }
        }
        !any && cur == fin
    }
    let mut pos = vec![0; per_thread.len()];
    rec(per_thread, &mut pos, init, fin)
}

fn judge_bits(sc: &BitScenario, a: AtomicBitVec, log: &SwapLog) -> Result<(), String> {
    let mut exp: Vec<Option<bool>> = sc.init.iter().map(|&b| Some(b)).collect();
    let mut swapped = vec![false; sc.len];
    for ops in &sc.ops {
        for &op in ops {
            match op {
                BitOp::Set(i, v) => exp[i] = Some(v),
                BitOp::Swap(i, _) => {
                    swapped[i] = true;
                    exp[i] = None;
                }
            }
        }
    }
    for i in 0..sc.len {
        let got = a.get(i, Ordering::SeqCst);
        if let Some(e) = exp[i] {
            if got != e {
                return Err(format!("bit {} is {}, expected {} (initial {})", i, got, e, sc.init[i]));
            }
        }
    }
    for i in 0..sc.len {
        if !swapped[i] {
            continue;
        }
        let per_thread: Vec<Vec<(bool, bool)>> = log
            .iter()
            .map(|l| l.lock().unwrap().iter().filter(|e| e.0 == i).map(|e| (e.1, e.2)).collect())
            .collect();
        let fin = a.get(i, Ordering::SeqCst);
        if !swaps_linearizable(&per_thread, sc.init[i], fin) {
            return Err(format!("swaps on shared bit {} admit no sequential order: initial {}, final {}, per-thread (written, returned) = {:?}", i, sc.init[i], fin, per_thread));
        }
    }
    let b: BitVec = a.into();
    for i in 0..sc.len {
        if let Some(e) = exp[i] {
            if b.get(i) != e {
                return Err(format!("after conversion bit {} is {}, expected {}", i, b.get(i), e));
            }
        }
    }
    Ok(())
}

#[derive(Clone, Debug)]
struct EfScenario {
    values: Vec<usize>,
    u: usize,
    /// per thread: indices it sets
    parts: Vec<Vec<usize>>,
    partition: &'static str,
}

fn gen_ef_scenario(rng: &mut SmallRng, n: usize, threads: usize, kind: usize) -> EfScenario {
    let u = match rng.random_range(0..4) {
        0 => n.max(1) * 2,
        1 => n.max(1) * 37 + 5,
        2 => (n.max(1) * 1000) | 1,
        _ => n.max(1),
    };
    let mut values: Vec<usize> = (0..n).map(|_| rng.random_range(0..=u)).collect();
    values.sort_unstable();
    if n > 2 && rng.random_bool(0.5) {
        // duplicate run
        let k = rng.random_range(0..n - 1);
        values[k + 1] = values[k];
        values.sort_unstable();
    }
    let mut parts = vec![vec![]; threads];
    let name = match kind {
        0 => {
            for i in 0..n {
                parts[i * threads / n.max(1)].push(i);
            }
            "blocks"
        }
        1 => {
            for i in 0..n {
                parts[i % threads].push(i);
            }
            "strided"
        }
        _ => {
            for i in 0..n {
                parts[rng.random_range(0..threads)].push(i);
            }
            for p in parts.iter_mut() {
                shuffle(rng, p);
            }
            "random"
        }
    };
    EfScenario { values, u, parts, partition: name }
}

fn ef_bodies<'a>(sc: &'a EfScenario, b: &'a EliasFanoConcurrentBuilder) -> Vec<Box<dyn FnOnce() + Send + 'a>> {
    sc.parts
        .iter()
        .map(|idxs| {
            let bx: Box<dyn FnOnce() + Send + 'a> = Box::new(move || {
                for &i in idxs {
                    unsafe { b.set(i, sc.values[i]) };
                }
            });
            bx
        })
        .collect()
}

fn judge_ef(sc: &EfScenario, b: EliasFanoConcurrentBuilder) -> Result<(), String> {
    let n = sc.values.len();
    let mut seq = EliasFanoBuilder::new(n, sc.u);
    for &v in &sc.values {
        seq.push(v);
    }
    let seq = seq.build_with_seq();
    let conc = b.build_with_seq();
    if conc.len() != n {
        return Err(format!("concurrently built sequence has len {} instead of {}", conc.len(), n));
    }
    for i in 0..n {
        let g = conc.get(i);
        if g != sc.values[i] || g != seq.get(i) {
            return Err(format!("get({}) = {} in the concurrently built sequence, {} in the sequential one, model {}", i, g, seq.get(i), sc.values[i]));
        }
    }
    let it: Vec<usize> = conc.iter().collect();
    if it != sc.values {
        return Err(format!("iter() of the concurrently built sequence differs from the values: {:?} vs {:?}", it, sc.values));
    }
    Ok(())
}

fn describe_trace(tr: &RunTrace) -> String {
    tr.tids.iter().map(|t| char::from(b'0' + *t)).collect()
}

// ---------------------------------------------------------------------------

fn main() {
    let mut ctx = Ctx::from_args("C13");
    ctx.set_hang_limit(600);
    let small = ctx.small; // Miri: no hook, plain threads
    if !small {
        sux::verif::set_sched_hook(Some(sched_hook));
    }
    let mut distinct_interleavings: u64 = 0;
    let mut exhaustive_scenarios: u64 = 0;

    // ---------------- 1. exhaustive DFS on small scenarios -----------------
    // (threads, writes per thread)
    let dfs_shapes: &[(usize, usize)] = if ctx.thorough() { &[(2, 1), (2, 2), (3, 1), (2, 3), (3, 2)] } else { &[(2, 1), (2, 2), (3, 1), (2, 3)] };
    // ThreadSanitizer makes every condvar hand-off of the controlled scheduler
    // 20-50 times slower: under TSan the value is in the real-parallel modes
    // (stress, storms), so the enumeration is kept to a token size there
    let tsan = ctx.build == "TSAN";
    let dfs_rounds = if tsan { 1 } else { ctx.scale(1, 3, 8) };
    let dfs_cap = if tsan { 300 } else { ctx.scale(50, 6000, 40_000) };
    if !small {
        for round in 0..dfs_rounds {
            for &(t, w) in dfs_shapes {
                for placement in 0..4 {
                    let strat_name = ["same-word", "straddle", "adjacent", "random"][placement];
                    let mut got = (0usize, false);
                    ctx.case("AtomicBitFieldVec", &format!("dfs/{}t{}w/{}", t, w, strat_name), "set_atomic", |c| {
                        let sc = gen_field_scenario(c.rng(), t, w, placement);
                        let unchecked = round % 2 == 1;
                        let mut first_err: Option<(String, String)> = None;
                        let (execs, exhaustive) = explore(dfs_cap, |strat| {
                            let a = build_field_vec(&sc);
                            let tr = run_controlled(field_bodies(&sc, &a, unchecked), strat);
                            if let Err(e) = judge_fields(&sc, a) {
                                if first_err.is_none() {
                                    first_err = Some((e, describe_trace(&tr)));
                                }
                            }
                            tr
                        });
                        c.tick(execs as u64);
                        if let Some((e, tr)) = first_err {
                            c.fail("set_atomic", "interleaving", "", &format!("{}; schedule (thread ids in grant order) {}; scenario {:?}", e, tr, sc));
                        }
                        c.nontrivial();
                        c.set_cell(format!("field-dfs|{}t{}w|{}|w{}|{}", t, w, sc.placement, sc.width, if exhaustive { "exh" } else { "cap" }));
                        c.describe(|| format!("{:?} execs={} exhaustive={}", sc, execs, exhaustive));
                        got = (execs, exhaustive);
                    });
                    distinct_interleavings += got.0 as u64;
                    exhaustive_scenarios += got.1 as u64;
                }
                // bit vector: sets on private bits + swaps on one or two shared bits
                let mut got = (0usize, false);
                ctx.case("AtomicBitVec", &format!("dfs/{}t{}w", t, w), "set_swap", |c| {
                    let sc = gen_bit_scenario(c.rng(), t, w, 1 + (round % 2));
                    let mut first_err: Option<(String, String)> = None;
                    let (execs, exhaustive) = explore(dfs_cap, |strat| {
                        let a = build_bit_vec(&sc);
                        let log: SwapLog = (0..t).map(|_| Mutex::new(vec![])).collect();
                        let tr = run_controlled(bit_bodies(&sc, &a, &log), strat);
                        if let Err(e) = judge_bits(&sc, a, &log) {
                            if first_err.is_none() {
                                first_err = Some((e, describe_trace(&tr)));
                            }
                        }
                        tr
                    });
                    c.tick(execs as u64);
                    if let Some((e, tr)) = first_err {
                        c.fail("set_swap", "interleaving", "", &format!("{}; schedule {}; scenario {:?}", e, tr, sc));
                    }
                    c.nontrivial();
                    c.set_cell(format!("bit-dfs|{}t{}w|r{}|{}", t, w, round % 2, if exhaustive { "exh" } else { "cap" }));
                    c.describe(|| format!("{:?} execs={} exhaustive={}", sc, execs, exhaustive));
                    got = (execs, exhaustive);
                });
                distinct_interleavings += got.0 as u64;
                exhaustive_scenarios += got.1 as u64;
            }
            // Elias-Fano concurrent builder, tiny instances, exhaustive where possible
            for (n, t) in [(2usize, 2usize), (3, 2), (3, 3), (4, 2)] {
                let mut got = (0usize, false);
                ctx.case("EliasFanoConcurrentBuilder", &format!("dfs/n{}t{}", n, t), "set", |c| {
                    let sc = gen_ef_scenario(c.rng(), n, t, round % 3);
                    let mut first_err: Option<(String, String)> = None;
                    let (execs, exhaustive) = explore(dfs_cap, |strat| {
                        let b = EliasFanoConcurrentBuilder::new(sc.values.len(), sc.u);
                        let tr = run_controlled(ef_bodies(&sc, &b), strat);
                        if let Err(e) = judge_ef(&sc, b) {
                            if first_err.is_none() {
                                first_err = Some((e, describe_trace(&tr)));
                            }
                        }
                        tr
                    });
                    c.tick(execs as u64);
                    if let Some((e, tr)) = first_err {
                        c.fail("set", "interleaving", "", &format!("{}; schedule {}; scenario {:?}", e, tr, sc));
                    }
                    c.nontrivial();
                    c.set_cell(format!("ef-dfs|n{}t{}|{}|{}", n, t, sc.partition, if exhaustive { "exh" } else { "cap" }));
                    c.describe(|| format!("{:?} execs={} exhaustive={}", sc, execs, exhaustive));
                    got = (execs, exhaustive);
                });
                distinct_interleavings += got.0 as u64;
                exhaustive_scenarios += got.1 as u64;
            }
        }
    }

    // ---------------- 2. random schedules on larger scenarios (hook) / plain threads (Miri) ----
    let rand_rounds = ctx.scale(if ctx.thorough() { 8 } else { 3 }, 12, 80);
    let rand_execs = if tsan { 20 } else { ctx.scale(3, 150, 400) };
    for round in 0..rand_rounds {
        let go2 = ctx.time_frac_used() < 0.45;
        for &(t, w) in &[(2usize, 4usize), (3, 4), (4, 3), (3, 8)] {
            let (t, w) = if small { (t.min(3), w.min(3)) } else { (t, w) };
            let placement = round % 4;
            ctx.case_if(go2, "AtomicBitFieldVec", &format!("random-sched/{}t{}w", t, w), "set_atomic", |c| {
                let sc = gen_field_scenario(c.rng(), t, w, placement);
                let mut srng = SmallRng::seed_from_u64(c.seed ^ 0x5eed);
                for _ in 0..rand_execs {
                    let a = build_field_vec(&sc);
                    let tr = if small {
                        std::thread::scope(|s| {
                            for b in field_bodies(&sc, &a, false) {
                                s.spawn(b);
                            }
                        });
                        None
                    } else {
                        Some(run_controlled(field_bodies(&sc, &a, round % 2 == 1), Strategy::Random { rng: &mut srng }))
                    };
                    c.tick(1);
                    if let Err(e) = judge_fields(&sc, a) {
                        c.fail("set_atomic", "interleaving", "", &format!("{}; schedule {}; scenario {:?}", e, tr.as_ref().map(describe_trace).unwrap_or("miri".into()), sc));
                        break;
                    }
                }
                c.nontrivial();
                c.set_cell(format!("field-rand|{}t{}w|{}|w{}", t, w, sc.placement, sc.width));
                c.describe(|| format!("{:?}", sc));
            });
            ctx.case_if(go2, "AtomicBitVec", &format!("random-sched/{}t{}w", t, w), "set_swap", |c| {
                let sc = gen_bit_scenario(c.rng(), t, w.min(6), 1 + round % 3);
                let mut srng = SmallRng::seed_from_u64(c.seed ^ 0x5eed);
                for _ in 0..rand_execs {
                    let a = build_bit_vec(&sc);
                    let log: SwapLog = (0..t).map(|_| Mutex::new(vec![])).collect();
                    let tr = if small {
                        std::thread::scope(|s| {
                            for b in bit_bodies(&sc, &a, &log) {
                                s.spawn(b);
                            }
                        });
                        None
                    } else {
                        Some(run_controlled(bit_bodies(&sc, &a, &log), Strategy::Random { rng: &mut srng }))
                    };
                    c.tick(1);
                    if let Err(e) = judge_bits(&sc, a, &log) {
                        c.fail("set_swap", "interleaving", "", &format!("{}; schedule {}; scenario {:?}", e, tr.as_ref().map(describe_trace).unwrap_or("miri".into()), sc));
                        break;
                    }
                }
                c.nontrivial();
                c.set_cell(format!("bit-rand|{}t{}w|s{}", t, w, 1 + round % 3));
                c.describe(|| format!("{:?}", sc));
            });
        }
        for (n, t) in [(7usize, 2usize), (12, 3), (20, 4)] {
            let (n, t) = if small { (n.min(8), t.min(3)) } else { (n, t) };
            ctx.case_if(go2, "EliasFanoConcurrentBuilder", &format!("random-sched/n{}t{}", n, t), "set", |c| {
                let sc = gen_ef_scenario(c.rng(), n, t, round % 3);
                let mut srng = SmallRng::seed_from_u64(c.seed ^ 0x5eed);
                for _ in 0..rand_execs.min(60) {
                    let b = EliasFanoConcurrentBuilder::new(sc.values.len(), sc.u);
                    let tr = if small {
                        std::thread::scope(|s| {
                            for body in ef_bodies(&sc, &b) {
                                s.spawn(body);
                            }
                        });
                        None
                    } else {
                        Some(run_controlled(ef_bodies(&sc, &b), Strategy::Random { rng: &mut srng }))
                    };
                    c.tick(1);
                    if let Err(e) = judge_ef(&sc, b) {
                        c.fail("set", "interleaving", "", &format!("{}; schedule {}; scenario {:?}", e, tr.as_ref().map(describe_trace).unwrap_or("miri".into()), sc));
                        break;
                    }
                }
                c.nontrivial();
                c.set_cell(format!("ef-rand|n{}t{}|{}", n, t, sc.partition));
                c.describe(|| format!("{:?}", sc));
            });
        }
    }

    // ---------------- 3. native stress: real parallelism, hook as delay injector ----------
    if !small {
        // switch the hook to delay injection
        static DELAY_SEED: AtomicUsize = AtomicUsize::new(12345);
        fn delay_hook(_site: u32, addr: usize) {
            let x = DELAY_SEED.fetch_add(0x9E37_79B9, Ordering::Relaxed) ^ addr;
            match (x >> 7) & 15 {
                0 => std::thread::yield_now(),
                1..=3 => {
                    for _ in 0..((x >> 11) & 63) {
                        std::hint::spin_loop();
                    }
                }
                _ => {}
            }
        }
        sux::verif::set_sched_hook(Some(delay_hook));
        let stress_rounds = ctx.scale(0, 6, 40);
        let reps = ctx.scale(0, 300, 1500);
        for round in 0..stress_rounds {
            let go3 = ctx.time_frac_used() < 0.7;
            for t in [2usize, 4, 8, 16] {
                ctx.case_if(go3, "AtomicBitFieldVec", &format!("stress/{}t", t), "set_atomic", |c| {
                    let sc = gen_field_scenario(c.rng(), t, 6, round % 4);
                    for _ in 0..reps {
                        let a = build_field_vec(&sc);
                        std::thread::scope(|s| {
                            for b in field_bodies(&sc, &a, round % 2 == 0) {
                                s.spawn(b);
                            }
                        });
                        c.tick(1);
                        if let Err(e) = judge_fields(&sc, a) {
                            c.fail("set_atomic", "stress", "", &format!("{}; scenario {:?}", e, sc));
                            break;
                        }
                    }
                    c.nontrivial();
                    c.set_cell(format!("field-stress|{}t|{}|w{}", t, sc.placement, sc.width));
                    c.describe(|| format!("{:?}", sc));
                });
                ctx.case_if(go3, "AtomicBitVec", &format!("stress/{}t", t), "set_swap", |c| {
                    let sc = gen_bit_scenario(c.rng(), t, 3, 2);
                    for _ in 0..reps {
                        let a = build_bit_vec(&sc);
                        let log: SwapLog = (0..t).map(|_| Mutex::new(vec![])).collect();
                        std::thread::scope(|s| {
                            for b in bit_bodies(&sc, &a, &log) {
                                s.spawn(b);
                            }
                        });
                        c.tick(1);
                        if let Err(e) = judge_bits(&sc, a, &log) {
                            c.fail("set_swap", "stress", "", &format!("{}; scenario {:?}", e, sc));
                            break;
                        }
                    }
                    c.nontrivial();
                    c.set_cell(format!("bit-stress|{}t", t));
                    c.describe(|| format!("{:?}", sc));
                });
                ctx.case_if(go3, "EliasFanoConcurrentBuilder", &format!("stress/{}t", t), "set", |c| {
                    let n = 200 + c.rng().random_range(0..300);
                    let sc = gen_ef_scenario(c.rng(), n, t, round % 3);
                    for _ in 0..(reps / 10).max(1) {
                        let b = EliasFanoConcurrentBuilder::new(sc.values.len(), sc.u);
                        std::thread::scope(|s| {
                            for body in ef_bodies(&sc, &b) {
                                s.spawn(body);
                            }
                        });
                        c.tick(1);
                        if let Err(e) = judge_ef(&sc, b) {
                            c.fail("set", "stress", "", &format!("{}; scenario n={} u={} partition={}", e, n, sc.u, sc.partition));
                            break;
                        }
                    }
                    // rayon par_iter partition
                    {
                        use rayon::prelude::*;
                        let b = EliasFanoConcurrentBuilder::new(sc.values.len(), sc.u);
                        sc.values.par_iter().enumerate().for_each(|(i, &v)| unsafe { b.set(i, v) });
                        c.tick(1);
                        if let Err(e) = judge_ef(&sc, b) {
                            c.fail("set", "stress", "", &format!("rayon par_iter: {}; n={} u={}", e, n, sc.u));
                        }
                    }
                    c.nontrivial();
                    c.set_cell(format!("ef-stress|{}t|{}", t, sc.partition));
                    c.describe(|| format!("n={} u={} partition={}", n, sc.u, sc.partition));
                });
            }
        }
        sux::verif::set_sched_hook(None);

        // ---------------- 4. storms: tight contention without any hook ----------
        // A change may add memory accesses that have no scheduling point (e.g. a
        // preliminary load before a read-modify-write): only real parallelism (or
        // Miri) can interleave those. Invariants checked here hold for every
        // sequential order, so they can never raise a false alarm.
        let storm_rounds = ctx.scale(0, 4, 20);
        let storm_ops = if tsan { 20_000 } else { ctx.scale(0, 30_000, 200_000) };
        for round in 0..storm_rounds {
            for t in [2usize, 3, 4, 8] {
                ctx.case("AtomicBitVec", &format!("storm/swap/{}t", t), "swap", |c| {
                    let nbits = 1 + (round % 3) * 3; // 1, 4 or 7 shared bits of one word
                    let len = 70;
                    let init: Vec<bool> = (0..len).map(|_| c.rng().random_bool(0.5)).collect();
                    let b: BitVec = init.iter().copied().collect();
                    let a: AtomicBitVec = b.into();
                    let seeds: Vec<u64> = (0..t).map(|_| c.rng().random()).collect();
                    let start = std::sync::Barrier::new(t);
                    let res: Vec<(Vec<i64>, Vec<i64>)> = std::thread::scope(|s| {
                        let hs: Vec<_> = (0..t)
                            .map(|k| {
                                let (a, start, seed) = (&a, &start, seeds[k]);
                                s.spawn(move || {
                                    let mut rng = SmallRng::seed_from_u64(seed);
                                    let mut up = vec![0i64; nbits];
                                    let mut down = vec![0i64; nbits];
                                    start.wait();
                                    for _ in 0..storm_ops {
                                        let r: u32 = rng.random();
                                        let i = (r as usize >> 1) % nbits;
                                        let v = r & 1 == 1;
                                        let old = a.swap(i, v, Ordering::Relaxed);
                                        if v && !old {
                                            up[i] += 1;
                                        }
                                        if !v && old {
                                            down[i] += 1;
                                        }
                                    }
                                    (up, down)
                                })
                            })
                            .collect();
                        hs.into_iter().map(|h| h.join().unwrap()).collect()
                    });
                    for i in 0..nbits {
                        let ups: i64 = res.iter().map(|r| r.0[i]).sum();
                        let downs: i64 = res.iter().map(|r| r.1[i]).sum();
                        let fin = a.get(i, Ordering::SeqCst) as i64;
                        c.check("swap", init[i] as i64 + ups - downs == fin, || {
                            format!("shared bit {}: initial {}, {} swaps reported false->true, {} reported true->false, final {}: no sequential order of the calls explains the returned values ({} threads x {} swaps on {} bits)", i, init[i], ups, downs, fin != 0, t, storm_ops, nbits)
                        });
                    }
                    for i in nbits..len {
                        c.check("swap", a.get(i, Ordering::SeqCst) == init[i], || format!("bystander bit {} changed", i));
                    }
                    c.tick((t * storm_ops) as u64);
                    c.nontrivial();
                    c.set_cell(format!("bit-storm-swap|{}t|{}bits", t, nbits));
                    c.describe(|| format!("{} threads x {} pseudo-random swaps on bits 0..{} of a {}-bit vector", t, storm_ops, nbits, len));
                });
                ctx.case("AtomicBitVec", &format!("storm/set/{}t", t), "set", |c| {
                    // every thread owns one bit of the same word and toggles it
                    let len = 64 + 9;
                    let init: Vec<bool> = (0..len).map(|_| c.rng().random_bool(0.5)).collect();
                    let b: BitVec = init.iter().copied().collect();
                    let a: AtomicBitVec = b.into();
                    let mut owned: Vec<usize> = (0..64).collect();
                    shuffle(c.rng(), &mut owned);
                    owned.truncate(t);
                    let start = std::sync::Barrier::new(t);
                    let bad: Vec<Option<String>> = std::thread::scope(|s| {
                        let hs: Vec<_> = (0..t)
                            .map(|k| {
                                let (a, start, i, init) = (&a, &start, owned[k], init[owned[k]]);
                                s.spawn(move || {
                                    let mut cur = init;
                                    start.wait();
                                    for n in 0..storm_ops {
                                        if a.get(i, Ordering::Relaxed) != cur {
                                            return Some(format!("thread {} wrote {} to its own bit {} but read back {} (op {})", k, cur, i, !cur, n));
                                        }
                                        cur = !cur;
                                        a.set(i, cur, Ordering::Relaxed);
                                    }
                                    if a.get(i, Ordering::Relaxed) != cur {
                                        return Some(format!("thread {} lost its last write to bit {}", k, i));
                                    }
                                    None
                                })
                            })
                            .collect();
                        hs.into_iter().map(|h| h.join().unwrap()).collect()
                    });
                    for e in bad.into_iter().flatten() {
                        c.fail("set", "stress", "", &format!("{}; owned bits {:?}", e, owned));
                    }
                    for i in 0..len {
                        if !owned.contains(&i) {
                            c.check("set", a.get(i, Ordering::SeqCst) == init[i], || format!("bystander bit {} changed; owned bits {:?}", i, owned));
                        }
                    }
                    c.tick((t * storm_ops) as u64);
                    c.nontrivial();
                    c.set_cell(format!("bit-storm-set|{}t", t));
                    c.describe(|| format!("{} threads each toggling its own bit {:?} {} times", t, owned, storm_ops));
                });
                ctx.case("AtomicBitFieldVec", &format!("storm/set_atomic/{}t", t), "set_atomic", |c| {
                    // every thread owns one field; fields share words (and straddle for odd widths)
                    let width = [3usize, 7, 8, 13, 21][round % 5];
                    let len = t + 200 / width;
                    let m = mask(width);
                    let init: Vec<usize> = (0..len).map(|_| c.rng().random::<u64>() as usize & m).collect();
                    let mut bfv = BitFieldVec::<usize>::new(width, len);
                    for (i, &v) in init.iter().enumerate() {
                        bfv.set(i, v);
                    }
                    let a: AtomicBitFieldVec<usize> = bfv.into();
                    let first = c.rng().random_range(0..=(len - t));
                    let owned: Vec<usize> = (first..first + t).collect();
                    let start = std::sync::Barrier::new(t);
                    let ops = storm_ops / 2;
                    let bad: Vec<Option<String>> = std::thread::scope(|s| {
                        let hs: Vec<_> = (0..t)
                            .map(|k| {
                                let (a, start, i, init) = (&a, &start, owned[k], init[owned[k]]);
                                s.spawn(move || {
                                    let mut cur = init;
                                    start.wait();
                                    for n in 0..ops {
                                        let got = a.get_atomic(i, Ordering::Relaxed);
                                        if got != cur {
                                            return Some(format!("thread {} wrote {:#x} to its own element {} but read back {:#x} (op {})", k, cur, i, got, n));
                                        }
                                        cur = cur.wrapping_mul(31).wrapping_add(n + 7) & m;
                                        a.set_atomic(i, cur, Ordering::Relaxed);
                                    }
                                    let got = a.get_atomic(i, Ordering::Relaxed);
                                    if got != cur {
                                        return Some(format!("thread {} lost its last write to element {}: {:#x} instead of {:#x}", k, i, got, cur));
                                    }
                                    None
                                })
                            })
                            .collect();
                        hs.into_iter().map(|h| h.join().unwrap()).collect()
                    });
                    for e in bad.into_iter().flatten() {
                        c.fail("set_atomic", "stress", "", &format!("{}; width {} owned elements {:?}", e, width, owned));
                    }
                    for i in 0..len {
                        if !owned.contains(&i) {
                            let got = a.get_atomic(i, Ordering::SeqCst);
                            c.check("set_atomic", got == init[i], || format!("bystander element {} changed from {:#x} to {:#x}; width {} owned {:?}", i, init[i], got, width, owned));
                        }
                    }
                    c.tick((t * ops) as u64);
                    c.nontrivial();
                    c.set_cell(format!("field-storm|{}t|w{}", t, width));
                    c.describe(|| format!("{} threads each rewriting its own element {:?} (width {}) {} times", t, owned, width, ops));
                });
            }
        }
    }

    // evidence extras
    let mut sites = String::from("{");
    let names = [(0usize, "worker_start"), (1, "bitvec_get_load"), (2, "bitvec_set_rmw"), (3, "bitvec_swap_rmw"), (10, "bitfield_get_load"), (12, "bitfield_set_load"), (13, "bitfield_set_cas"), (14, "bitfield_set_load_lo"), (15, "bitfield_set_cas_lo"), (16, "bitfield_set_load_hi"), (17, "bitfield_set_cas_hi")];
    let mut total_points = 0;
    for (k, (i, n)) in names.iter().enumerate() {
        let v = SITE_COUNTS[*i].load(Ordering::Relaxed);
        if *i != 0 {
            total_points += v;
        }
        sites.push_str(&format!("{}\"{}\":{}", if k > 0 { "," } else { "" }, n, v));
    }
    sites.push('}');
    ctx.note("scheduling_points_per_site", &sites);
    ctx.note("interleavings_executed_dfs", &distinct_interleavings.to_string());
    ctx.note("exhaustive_scenarios", &exhaustive_scenarios.to_string());
    if !small && total_points == 0 && distinct_interleavings > 0 {
        // a run that never reached a scheduling point proves nothing
        eprintln!("SUXMON-HARNESS-ERROR: no scheduling point was ever reached");
        std::process::exit(4);
    }
    let _ = Arc::new(0);
    ctx.finish();
}
