//! C03 — an Elias–Fano structure returns exactly the monotone sequence it was
//! built from.
//!
//! Oracle: the generated sorted `Vec<usize>` (never read back from sux).
//! Observed: `len()`, `get(i)` for every `i < n`, `iter()` / `(&ef).into_iter()`
//! / `iter_from(k)` / `into_iter_from(k)` for the start positions `0..=n` with
//! the exact remaining-length hint before and after every step, over every
//! builder (push, extend, From<&[usize]>, From<Vec>, concurrent `set`) and
//! every selection back-end; and that a builder rejects (panics on) a push
//! that is out of order, above `u` or beyond the `n` declared values and still
//! produces the sequence of the accepted values afterwards.
//!
//! Cases that abort the process on the pinned tree (UB checks) are isolated
//! under their own op / stratum: `iter_from_len` (start position k = n) and
//! the strata `defect:n0,u>0` / `defect:n1,u>=2^64-1024`.
#[path = "common/ef.rs"]
mod ef;
use ef::*;
use rand::Rng;
use sux::bits::BitVec;
use sux::dict::{EliasFano, EliasFanoBuilder};
use sux::rank_sel::{Rank9, RankSmall, Select9, SelectAdapt, SelectAdaptConst, SelectSmall};
use sux::traits::{IndexedSeq, IntoIteratorFrom, SelectUnchecked};
use suxmon::obs::*;

type HB = BitVec<Box<[usize]>>;

/// Back-ends: name, has a select structure for ones (get / iter_from available).
const BACKENDS: &[(&str, bool)] = &[
    ("EliasFano(no-select)", false),              // 0
    ("EfSeq", true),                              // 1
    ("EfSeqDict", true),                          // 2
    ("EfDict", false),                            // 3
    ("SelectAdapt(3)", true),                     // 4
    ("SelectAdapt(0)", true),                     // 5
    ("SelectAdapt::with_inv(2,1)", true),         // 6
    ("SelectAdapt::with_span(256,2)", true),      // 7
    ("SelectAdaptConst<5,1>", true),              // 8
    ("SelectAdaptConst<6,0>", true),              // 9
    ("SelectAdaptConst<8,2>", true),              // 10
    ("SelectAdaptConst<10,3>", true),             // 11
    ("SelectAdaptConst<13,0>", true),             // 12
    ("Select9(Rank9)", true),                     // 13
    ("SelectSmall<2,9>(RankSmall)", true),        // 14
    ("SelectSmall<1,9>(RankSmall)", true),        // 15
    ("SelectSmall<1,10>(RankSmall)", true),       // 16
    ("SelectSmall<1,11>(RankSmall)", true),       // 17
    ("SelectSmall<3,13>(RankSmall)", true),       // 18
    ("SelectAdaptConst<12,3>(SelectAdapt(3))", true), // 19 nested selectors
];
const SEL_BACKENDS: &[usize] = &[1, 2, 4, 5, 6, 7, 8, 9, 10, 11, 12, 13, 14, 15, 16, 17, 18, 19];

#[derive(Clone, Copy)]
struct Lim {
    /// all indices / start positions when n is at most this
    full_get: usize,
    full_from: usize,
    /// sampled start positions and steps per start otherwise
    from_samples: usize,
    from_steps: usize,
    /// which part to run
    part: Part,
}

#[derive(Clone, Copy, PartialEq, Eq)]
enum Part {
    /// everything except the start position k = n
    Main,
    /// only iter_from(n) / into_iter_from(n)
    FromLen,
}

fn positions(c: &mut Case, n: usize, full_upto: usize, samples: usize) -> Vec<usize> {
    if n <= full_upto {
        return (0..n).collect();
    }
    let mut v: Vec<usize> = vec![0, 1, 2, 62, 63, 64, 65, 127, 128, 129, n - 1, n.saturating_sub(2), n.saturating_sub(3), n.saturating_sub(64), n.saturating_sub(65), n / 2];
    let mut m = 4096;
    while m < n + 2 && v.len() < 200 {
        v.extend_from_slice(&[m - 2, m - 1, m, m + 1]);
        m += 4096 * (1 + n / (4096 * 12));
    }
    for _ in 0..samples {
        v.push(c.rng().random_range(0..n));
    }
    v.retain(|&i| i < n);
    v.sort_unstable();
    v.dedup();
    v
}

/// iter() and (&ef).into_iter(): exact contents, exact hints at every step,
/// None (and hint 0) when polled after the end.
macro_rules! check_full_iter {
    ($c:expr, $mk:expr, $op:expr, $xs:expr, $d:expr) => {{
        let xs: &[usize] = $xs;
        let n = xs.len();
        let mut step = 0usize;
        let mut bad: Option<String> = None;
        let r = catch(|| {
            let mut it = $mk;
            loop {
                let rem = n - step.min(n);
                let (lo, hi) = it.size_hint();
                if it.len() != rem || lo != rem || hi != Some(rem) {
                    bad = Some(format!("after {} items: len()={} size_hint=({},{:?}), model remaining {}", step, it.len(), lo, hi, rem));
                    return;
                }
                match it.next() {
                    Some(v) => {
                        if step >= n {
                            bad = Some(format!("yielded {} after the {} values of the sequence", v, n));
                            return;
                        }
                        if v != xs[step] {
                            bad = Some(format!("item #{}: got {}, model {}", step, v, xs[step]));
                            return;
                        }
                        step += 1;
                    }
                    None => {
                        if step != n {
                            bad = Some(format!("ended after {} of {} items", step, n));
                            return;
                        }
                        let again = (it.next(), it.next());
                        if again != (None, None) || it.len() != 0 {
                            bad = Some(format!("polled after the end: {:?}, len()={}", again, it.len()));
                        }
                        return;
                    }
                }
            }
        });
        $c.tick(2 * step as u64 + 2);
        match r {
            Err(m) => $c.fail($op, "panic", &m, &format!("{} panicked after {} items; {}", $op, step, $d())),
            Ok(()) => {
                if let Some(b) = bad {
                    $c.fail($op, "mismatch", "", &format!("{}: {}; {}; {}", $op, b, around(xs, step), $d()));
                }
            }
        }
    }};
}

fn check_iter_only<H: AsRef<[usize]>>(c: &mut Case, ef: &EliasFano<H>, xs: &[usize], d: &dyn Fn() -> String) {
    c.check("len", ef.len() == xs.len(), || format!("len() = {}, model {}; {}", ef.len(), xs.len(), d()));
    check_full_iter!(c, ef.iter(), "iter", xs, d);
    check_full_iter!(c, ef.into_iter(), "into_iter", xs, d);
    // the iterator through the skipping adaptors and ExactSizeIterator::len
    if xs.len() <= 2000 && c.rng().random_range(0..4u32) == 0 {
        c.iter_protocol("iter_adaptors", || ef.iter(), xs, d);
        c.iter_exact_len("iter_exact_len", || ef.iter(), xs.len(), d);
    }
}

fn check_seq<H: AsRef<[usize]> + SelectUnchecked>(c: &mut Case, ef: &EliasFano<H>, xs: &[usize], lim: Lim, d: &dyn Fn() -> String) {
    let n = xs.len();
    if lim.part == Part::FromLen {
        // start position k = n: must be an empty iterator
        for which in 0..2 {
            let op = "iter_from_len";
            let r = catch(|| {
                let mut it = if which == 0 { ef.iter_from(n) } else { ef.into_iter_from(n) };
                (it.len(), it.size_hint(), it.next(), it.next(), it.len())
            });
            c.tick(1);
            match r {
                Err(m) => c.fail(op, "panic", &m, &format!("{}({}) with len() = {} panicked; {}", if which == 0 { "iter_from" } else { "into_iter_from" }, n, n, d())),
                Ok(t) => {
                    if t != (0, (0, Some(0)), None, None, 0) {
                        c.fail(op, "mismatch", "", &format!("iter_from({}) with len() = {}: (len, size_hint, next, next, len) = {:?}, model (0, (0, Some(0)), None, None, 0); {}", n, n, t, d()));
                    }
                }
            }
        }
        return;
    }
    let l1 = ef.len();
    let l2 = IndexedSeq::len(ef);
    c.check("len", l1 == n && l2 == n && ef.is_empty() == (n == 0), || {
        format!("len() = {} / IndexedSeq::len = {} / is_empty = {}, model n = {}; {}", l1, l2, ef.is_empty(), n, d())
    });
    if l1 != n || l2 != n {
        return;
    }
    // get
    let idx = positions(c, n, lim.full_get, 1500);
    let mut at = 0usize;
    let mut bad: Option<(usize, usize)> = None;
    let r = catch(|| {
        for &i in &idx {
            at = i;
            let g = ef.get(i);
            // in range, so within the documented precondition
            let gu = unsafe { ef.get_unchecked(i) };
            if g != xs[i] || gu != xs[i] {
                bad = Some((i, if g != xs[i] { g } else { gu }));
                return;
            }
        }
    });
    c.tick(idx.len() as u64);
    match r {
        Err(m) => c.fail("get", "panic", &m, &format!("get({}) panicked; {}; {}", at, around(xs, at), d())),
        Ok(()) => {
            if let Some((i, g)) = bad {
                c.fail("get", "mismatch", "", &format!("get({}) = {}, model {}; {}; {}", i, g, xs[i], around(xs, i), d()));
            }
        }
    }
    // whole-sequence iteration
    check_full_iter!(c, ef.iter(), "iter", xs, d);
    check_full_iter!(c, ef.into_iter(), "into_iter", xs, d);
    // the iterators through the skipping adaptors (nth, skip, step_by, ...)
    if n <= 2000 && c.rng().random_range(0..6u32) == 0 {
        c.iter_protocol("iter_adaptors", || ef.iter(), xs, d);
        if n > 0 {
            let k = c.rng().random_range(0..n);
            let tr = || format!("iter_from({}); {}", k, d());
            c.iter_protocol("iter_from_adaptors", || ef.iter_from(k), &xs[k..], &tr);
            c.iter_protocol("iter_from_adaptors", || ef.into_iter_from(k), &xs[k..], &tr);
        }
    }
    // iteration from every start position < n
    let starts = positions(c, n, lim.full_from, lim.from_samples);
    let full = n <= lim.full_from;
    let mut cur = (0usize, 0usize);
    let mut bad: Option<String> = None;
    let mut ticks = 0u64;
    let r = catch(|| {
        for (j, &k) in starts.iter().enumerate() {
            let use_trait = j % 2 == 1;
            let mut it = if use_trait { ef.into_iter_from(k) } else { ef.iter_from(k) };
            let steps = if full || j % 16 == 0 { n - k } else { (n - k).min(lim.from_steps) };
            for s in 0..steps {
                cur = (k, s);
                let rem = n - k - s;
                if it.len() != rem || it.size_hint() != (rem, Some(rem)) {
                    bad = Some(format!("iter_from({}) after {} items: len()={} size_hint={:?}, model remaining {}", k, s, it.len(), it.size_hint(), rem));
                    return;
                }
                let g = it.next();
                if g != Some(xs[k + s]) {
                    bad = Some(format!("{}({}) item #{}: got {:?}, model Some({})", if use_trait { "into_iter_from" } else { "iter_from" }, k, s, g, xs[k + s]));
                    return;
                }
                ticks += 2;
            }
            if steps == n - k {
                let tail = (it.len(), it.next(), it.next());
                if tail != (0, None, None) {
                    bad = Some(format!("iter_from({}) after all {} remaining items: (len, next, next) = {:?}", k, n - k, tail));
                    return;
                }
                ticks += 1;
            }
        }
    });
    c.tick(ticks);
    match r {
        Err(m) => c.fail("iter_from", "panic", &m, &format!("iter_from({}) panicked at its item #{}; {}; {}", cur.0, cur.1, around(xs, cur.0 + cur.1), d())),
        Ok(()) => {
            if let Some(b) = bad {
                c.fail("iter_from", "mismatch", "", &format!("{}; {}; {}", b, around(xs, cur.0 + cur.1), d()));
            }
        }
    }
}

/// Finishes `built` with back-end `be` and runs the checks.
fn with_backend(c: &mut Case, be: usize, built: Built, xs: &[usize], lim: Lim, d: &dyn Fn() -> String) {
    macro_rules! mapped {
        ($mk:expr) => {{
            let Some(base) = guarded(c, "build", "build()", d, || built.base()) else { return };
            let Some(e) = guarded(c, "map_high_bits", &format!("map_high_bits({})", BACKENDS[be].0), d, || unsafe { base.map_high_bits($mk) }) else { return };
            check_seq(c, &e, xs, lim, d)
        }};
    }
    match be {
        0 => {
            let Some(e) = guarded(c, "build", "build()", d, || built.base()) else { return };
            if lim.part == Part::Main {
                check_iter_only(c, &e, xs, d);
            }
        }
        1 => {
            let Some(e) = guarded(c, "build", "build_with_seq()", d, || built.seq()) else { return };
            check_seq(c, &e, xs, lim, d)
        }
        2 => {
            let Some(e) = guarded(c, "build", "build_with_seq_and_dict()", d, || built.seq_dict()) else { return };
            check_seq(c, &e, xs, lim, d);
            // also through a reference and a box (the traits are implemented for both)
            if lim.part == Part::Main && !xs.is_empty() {
                let i = c.rng().random_range(0..xs.len());
                let r = &e;
                let g1 = guarded(c, "get", "(&ef).get", d, || IndexedSeq::get(&r, i));
                let b = Box::new(e);
                let g2 = guarded(c, "get", "Box<ef>.get", d, || (IndexedSeq::get(&b, i), IndexedSeq::len(&b)));
                c.check("get", g1 == Some(xs[i]) && g2 == Some((xs[i], xs.len())), || {
                    format!("get({}) through &/Box: {:?} / {:?}, model {}; {}", i, g1, g2, xs[i], d())
                });
            }
        }
        3 => {
            let Some(e) = guarded(c, "build", "build_with_dict()", d, || built.dict()) else { return };
            if lim.part == Part::Main {
                check_iter_only(c, &e, xs, d);
            }
        }
        4 => mapped!(|b: HB| SelectAdapt::new(b, 3)),
        5 => mapped!(|b: HB| SelectAdapt::new(b, 0)),
        6 => mapped!(|b: HB| SelectAdapt::with_inv(b, 2, 1)),
        7 => mapped!(|b: HB| SelectAdapt::with_span(b, 256, 2)),
        8 => mapped!(SelectAdaptConst::<HB, Box<[usize]>, 5, 1>::new),
        9 => mapped!(SelectAdaptConst::<HB, Box<[usize]>, 6, 0>::new),
        10 => mapped!(SelectAdaptConst::<HB, Box<[usize]>, 8, 2>::new),
        11 => mapped!(SelectAdaptConst::<HB, Box<[usize]>, 10, 3>::new),
        12 => mapped!(SelectAdaptConst::<HB, Box<[usize]>, 13, 0>::new),
        13 => mapped!(|b: HB| Select9::new(Rank9::new(b))),
        14 => mapped!(|b: HB| SelectSmall::<2, 9, _>::new(RankSmall::<2, 9, _>::new(b))),
        15 => mapped!(|b: HB| SelectSmall::<1, 9, _>::new(RankSmall::<1, 9, _>::new(b))),
        16 => mapped!(|b: HB| SelectSmall::<1, 10, _>::new(RankSmall::<1, 10, _>::new(b))),
        17 => mapped!(|b: HB| SelectSmall::<1, 11, _>::new(RankSmall::<1, 11, _>::new(b))),
        18 => mapped!(|b: HB| SelectSmall::<3, 13, _>::new(RankSmall::<3, 13, _>::new(b))),
        19 => mapped!(|b: HB| SelectAdaptConst::<_, Box<[usize]>, 12, 3>::new(SelectAdapt::new(b, 3))),
        _ => unreachable!(),
    }
}

struct Spec<'a> {
    n: usize,
    ucls: &'a str,
    uk: &'a UKind,
    scls: SCls,
    bld: Bld,
    be: usize,
}

/// Coarse stratum for the signature; the exact (n, u, sequence) classes are in the cell.
fn stratum_of(n: usize, ucls: &str, uk: &UKind, _scls: SCls) -> String {
    let base = format!("{}/{}", n_coarse(n), u_coarse(ucls));
    if let UKind::Fixed(u) = uk {
        if let Some(dn) = defective_nu(n, *u) {
            return format!("defect:{}/{}", dn, base);
        }
    }
    base
}

fn run_seq_case(ctx: &mut Ctx, sp: &Spec, lim: Lim) {
    let stratum = stratum_of(sp.n, sp.ucls, sp.uk, sp.scls);
    let op = if lim.part == Part::FromLen { "iter_from_len" } else { "sequence" };
    let (n, uk, scls, bld, be, ucls) = (sp.n, sp.uk.clone(), sp.scls, sp.bld, sp.be, sp.ucls);
    ctx.case(BACKENDS[be].0, &stratum, op, |c| {
        let (xs, u) = gen_seq_u(c.rng(), n, &uk, scls);
        let d = || format!("builder={} backend={} n={} u={}", bld.name(), BACKENDS[be].0, n, u);
        c.set_cell(format!("{}|{}|{}/{}/{}|{}", BACKENDS[be].0, bld.name(), n_class(n), ucls, scls.name(), op));
        c.describe(|| format!("builder={} backend={} n={} u={} xs={}", bld.name(), BACKENDS[be].0, n, u, show_seq(&xs)));
        let Some(built) = feed(c, bld, &xs, u, &d) else { return };
        with_backend(c, be, built, &xs, lim, &d);
        if n >= 2 {
            c.nontrivial();
        }
    });
}

// ---------------------------------------------------------------------------
// builder rejection

#[derive(Clone, Copy, Debug)]
enum Rej {
    OutOfOrder,
    TooLarge,
    TooMany,
    Extend,
    From,
    Mixed,
}

fn reject_case(c: &mut Case, kind: Rej, n: usize, uk: &UKind, scls: SCls) {
    let (xs, u) = gen_seq_u(c.rng(), n, uk, scls);
    let d = || format!("n={} u={} {}", n, u, if xs.len() <= 40 { format!("xs={:?}", xs) } else { format!("x_0={} x_last={}", xs[0], xs[n - 1]) });
    c.describe(|| format!("reject {:?}: n={} u={} xs={}", kind, n, u, show_seq(&xs)));
    if let Rej::From = kind {
        // From<&[usize]> / From<Vec>: a non-monotone input must be rejected
        if n < 2 || xs[0] == xs[n - 1] {
            return;
        }
        let mut bad = xs.clone();
        // swap two elements with different values: i < j and xs[i] < xs[j]
        let mut i = c.rng().random_range(0..n);
        let j;
        if xs[i] < xs[n - 1] {
            let first_larger = xs.partition_point(|&x| x <= xs[i]);
            j = c.rng().random_range(first_larger..n);
        } else {
            j = i;
            let below = xs.partition_point(|&x| x < xs[j]);
            i = c.rng().random_range(0..below);
        }
        bad.swap(i, j);
        if bad.windows(2).all(|w| w[0] <= w[1]) {
            return;
        }
        let r1 = catch(|| EliasFano::from(&bad[..]));
        c.check("from_reject", r1.is_err(), || format!("EliasFano::from(&[..]) accepted a non-monotone slice {}; {}", show_seq(&bad), d()));
        let b2 = bad.clone();
        let r2 = catch(|| -> EliasFano { b2.into() });
        c.check("from_reject", r2.is_err(), || format!("Vec::into::<EliasFano>() accepted a non-monotone vector {}; {}", show_seq(&bad), d()));
        c.nontrivial();
        return;
    }
    let Some(mut efb) = guarded(c, "new", &format!("EliasFanoBuilder::new({}, {})", n, u), &d, || EliasFanoBuilder::new(n, u)) else { return };
    let mut accepted: Vec<usize> = Vec::with_capacity(n);
    let mut rejected = 0usize;
    // offers a bad value at the current position; it must panic
    let offer_bad = |c: &mut Case, efb: &mut EliasFanoBuilder, accepted: &Vec<usize>, v: usize, why: &str| {
        let r = catch(|| efb.push(v));
        c.tick(1);
        if r.is_ok() {
            c.fail(
                "push_reject",
                "nopanic",
                why,
                &format!("push({}) was accepted although it is {} (after {} accepted values, last accepted {:?}); {}", v, why, accepted.len(), accepted.last(), d()),
            );
            false
        } else {
            true
        }
    };
    if let Rej::Extend = kind {
        // extend with one bad element in the middle: the good prefix is
        // accepted, the bad element rejected, the rest is pushed afterwards
        if n == 0 {
            let r = catch(|| efb.extend([0usize]));
            c.check("extend_reject", r.is_err(), || format!("extend([0]) accepted by a builder for 0 values; {}", d()));
        } else {
            let p = c.rng().random_range(0..n);
            let bad_v = if p > 0 && xs[p - 1] > 0 && c.rng().random_bool(0.5) {
                Some(xs[p - 1] - 1 - c.rng().random_range(0..xs[p - 1]))
            } else if u < MAXU {
                Some(u + 1 + c.rng().random_range(0..(MAXU - u).min(1000)))
            } else if p > 0 && xs[p - 1] > 0 {
                Some(xs[p - 1] - 1)
            } else {
                None
            };
            if let Some(bv) = bad_v {
                // the accepted prefix reaches the builder through an earlier history
                // (nothing, pushes, or a previous extend call) of q <= p values: the
                // bound and order checks of extend must continue from that state
                let q = match c.rng().random_range(0..5u32) {
                    0 | 1 => 0,
                    2 | 3 => p,
                    _ => c.rng().random_range(0..=p),
                };
                let via_push = c.rng().random_bool(0.5);
                if q > 0 {
                    let ok = if via_push {
                        guarded(c, "push", &format!("{} admissible pushes before the extend", q), &d, || xs[..q].iter().for_each(|&x| efb.push(x))).is_some()
                    } else {
                        guarded(c, "extend", &format!("extend of the {} first (admissible) values", q), &d, || efb.extend(xs[..q].iter().copied())).is_some()
                    };
                    if !ok {
                        return;
                    }
                }
                let mut feedv: Vec<usize> = xs[q..p].to_vec();
                feedv.push(bv);
                feedv.extend_from_slice(&xs[p..]);
                let r = catch(|| efb.extend(feedv.iter().copied()));
                c.check("extend_reject", r.is_err(), || {
                    format!("extend(..) accepted the bad value {} at position {} (the builder held {} values from earlier {}, the call offered {} admissible values before the bad one); {}", bv, p, q, if via_push { "pushes" } else { "extend calls" }, p - q, d())
                });
                if r.is_ok() {
                    return;
                }
                rejected += 1;
                accepted.extend_from_slice(&xs[..p]);
                // the builder must go on exactly after the accepted prefix
                for &x in &xs[p..] {
                    if guarded(c, "push", &format!("push({}) after a rejected extend", x), &d, || efb.push(x)).is_none() {
                        return;
                    }
                    accepted.push(x);
                }
            } else {
                for &x in &xs {
                    efb.push(x);
                    accepted.push(x);
                }
            }
            let r = catch(|| efb.extend([u]));
            c.check("extend_reject", r.is_err(), || format!("extend([{}]) accepted as value #{} of {}; {}", u, n, n, d()));
        }
    } else {
        for i in 0..=n {
            // bad offers before accepting xs[i]
            let mut offers: Vec<(usize, &str)> = vec![];
            let here = match kind {
                Rej::OutOfOrder | Rej::TooLarge => i == 0 || i == n || i == n - 1 || i == n / 2 || c.rng().random_bool(0.08),
                Rej::Mixed => c.rng().random_bool(0.3) || i == n,
                _ => i == n,
            };
            if here {
                if matches!(kind, Rej::OutOfOrder | Rej::Mixed) && i > 0 && i < n && xs[i - 1] > 0 {
                    let last = xs[i - 1];
                    offers.push((last - 1, "smaller than the last accepted value"));
                    offers.push((0, "smaller than the last accepted value"));
                    offers.push((c.rng().random_range(0..last), "smaller than the last accepted value"));
                }
                if matches!(kind, Rej::TooLarge | Rej::Mixed) && i < n && u < MAXU {
                    offers.push((u + 1, "larger than u"));
                    offers.push((MAXU, "larger than u"));
                    offers.push((u + 1 + c.rng().random_range(0..(MAXU - u)), "larger than u"));
                }
                if i == n {
                    // the declared number of values has been reached: everything is one too many
                    offers.push((u, "beyond the n declared values"));
                    offers.push((xs.last().copied().unwrap_or(0), "beyond the n declared values"));
                    offers.push((0, "beyond the n declared values"));
                    if u < MAXU {
                        offers.push((u + 1, "beyond the n declared values"));
                    }
                }
            }
            for (v, why) in offers {
                if offer_bad(c, &mut efb, &accepted, v, why) {
                    rejected += 1;
                }
            }
            if i < n {
                let x = xs[i];
                // admissible values also go in through push_unchecked (within its
                // documented precondition: monotone, <= u, fewer than n values so
                // far): the checked push must keep rejecting bad values afterwards
                let unchecked = matches!(kind, Rej::Mixed | Rej::OutOfOrder | Rej::TooMany) && c.rng().random_bool(0.4);
                if unchecked {
                    if guarded(c, "push_unchecked", &format!("push_unchecked({}) as value #{} (admissible) after {} rejections", x, i, rejected), &d, || unsafe { efb.push_unchecked(x) }).is_none() {
                        return;
                    }
                } else if guarded(c, "push", &format!("push({}) as value #{} (admissible) after {} rejections", x, i, rejected), &d, || efb.push(x)).is_none() {
                    return;
                }
                accepted.push(x);
            }
        }
    }
    // whatever was accepted must come out, in order
    let Some(e) = guarded(c, "build", "build_with_seq() after rejected pushes", &d, || efb.build_with_seq()) else { return };
    let lim = Lim { full_get: 5000, full_from: 40, from_samples: 10, from_steps: 50, part: Part::Main };
    let dd = || format!("after {} rejected pushes; {}", rejected, d());
    check_seq(c, &e, &accepted, lim, &dd);
    c.check("push_reject", accepted == xs, || format!("harness: accepted {} of {} values", accepted.len(), n));
    if rejected > 0 && !accepted.is_empty() {
        c.nontrivial();
    }
}

// ---------------------------------------------------------------------------

fn main() {
    let mut ctx = Ctx::from_args("C03");
    ctx.set_hang_limit(120);
    let small = ctx.small;
    let lim_main = if small {
        Lim { full_get: 300, full_from: 12, from_samples: 6, from_steps: 20, part: Part::Main }
    } else {
        Lim { full_get: 6000, full_from: 300, from_samples: 40, from_steps: 150, part: Part::Main }
    };
    let lim_len = Lim { part: Part::FromLen, ..lim_main };
    let n_list: &[usize] = if small { N_SMALL } else { N_EDGES };
    let mut k = 0usize; // rotation counter (same in every shard)

    // A1. the (n, u) grid: u on both sides of every power of two of u/n, the
    //     absolute edges, u below n; sequence class, builder and back-end rotate.
    for &n in n_list {
        let sweep = !small && n <= 66;
        let ucl = if small { u_core(n) } else { u_classes(n, sweep) };
        for (ucls, uk) in &ucl {
            let reps = if small { 1 } else { 2 };
            for _ in 0..reps {
                k += 1;
                let scls = SCLS_ALL[k % SCLS_ALL.len()];
                let bld = if matches!(uk, UKind::XMax(0)) { BLD_ALL[k % BLD_ALL.len()] } else { BLD_NU[k % BLD_NU.len()] };
                let be = (k * 7) % BACKENDS.len();
                run_seq_case(&mut ctx, &Spec { n, ucls, uk, scls, bld, be }, lim_main);
            }
        }
    }

    // A2. every back-end on every n edge, over a reduced universe list
    if !small {
        for &n in n_list {
            for be in 0..BACKENDS.len() {
                for (ucls, uk) in &u_core(n) {
                    if let UKind::Fixed(u) = uk {
                        if defective_nu(n, *u).is_some() {
                            continue;
                        }
                    }
                    for _ in 0..2 {
                        k += 1;
                        let scls = SCLS_ALL[k % SCLS_ALL.len()];
                        let bld = if matches!(uk, UKind::XMax(0)) { BLD_ALL[(k / 3) % BLD_ALL.len()] } else { BLD_NU[(k / 3) % BLD_NU.len()] };
                        run_seq_case(&mut ctx, &Spec { n, ucls, uk, scls, bld, be }, lim_main);
                    }
                }
            }
        }
    } else {
        for be in 0..BACKENDS.len() {
            for &n in &[3usize, 70] {
                k += 1;
                let uc = u_core(n);
                let (ucls, uk) = &uc[k % uc.len()];
                if let UKind::Fixed(u) = uk {
                    if defective_nu(n, *u).is_some() {
                        continue;
                    }
                }
                run_seq_case(&mut ctx, &Spec { n, ucls, uk, scls: SCLS_ALL[k % SCLS_ALL.len()], bld: BLD_NU[k % BLD_NU.len()], be }, lim_main);
            }
        }
    }

    // A3. every sequence class x every builder (l = 0 with long duplicate runs, huge gaps, ...)
    {
        let ns: &[usize] = if small { &[70] } else { &[2, 3, 64, 200, 1000, 5000] };
        for &n in ns {
            for &scls in SCLS_ALL {
                for &bld in BLD_ALL {
                    let ucl: Vec<(String, UKind)> = if bld.takes_u() {
                        vec![
                            ("u=n-1".into(), UKind::Fixed(n - 1)),
                            ("u=n/8".into(), UKind::Fixed(n / 8)),
                            ("u=n*2^1+1".into(), UKind::Fixed(2 * n + 1)),
                            ("u=n*2^13".into(), UKind::Fixed(n << 13)),
                            ("u=MAX".into(), UKind::Fixed(MAXU)),
                        ]
                    } else {
                        vec![("u=xmax".into(), UKind::XMax(0))]
                    };
                    for (ucls, uk) in &ucl {
                        k += 1;
                        let be = SEL_BACKENDS[k % SEL_BACKENDS.len()];
                        run_seq_case(&mut ctx, &Spec { n, ucls, uk, scls, bld, be }, lim_main);
                        if small {
                            break;
                        }
                    }
                }
            }
        }
    }

    // B. builder rejection
    {
        let ns: &[usize] = if small { &[0, 1, 3, 40] } else { &[0, 1, 2, 3, 5, 64, 65, 300] };
        let kinds = [Rej::OutOfOrder, Rej::TooLarge, Rej::TooMany, Rej::Extend, Rej::From, Rej::Mixed];
        let reps = ctx.scale(1, 4, 12);
        for &n in ns {
            for kind in kinds {
                for rep in 0..reps {
                    let ucl: Vec<(String, UKind)> = vec![
                        ("u=xmax".into(), UKind::XMax(0)),
                        ("u=xmax+1".into(), UKind::XMax(1)),
                        ("u=n*2^9".into(), UKind::Fixed(n << 9)),
                        ("u=2^63".into(), UKind::Fixed(1 << 63)),
                        ("u=n".into(), UKind::Fixed(n)),
                        ("u=MAX-1".into(), UKind::Fixed(MAXU - 1)),
                        ("u=MAX".into(), UKind::Fixed(MAXU)),
                    ];
                    k += 1;
                    let (ucls, uk) = &ucl[(k + rep) % ucl.len()];
                    if let UKind::Fixed(u) = uk {
                        if defective_nu(n, *u).is_some() {
                            continue;
                        }
                    }
                    let scls = [SCls::Random, SCls::DupRuns, SCls::EndU, SCls::FirstLast, SCls::Clusters][k % 5];
                    let stratum = format!("reject:{:?}/{}/{}", kind, n_coarse(n), u_coarse(ucls));
                    let cell = format!("EliasFanoBuilder|reject:{:?}|{}/{}/{}", kind, n_class(n), ucls, scls.name());
                    ctx.case("EliasFanoBuilder", &stratum, "reject", |c| {
                        c.set_cell(cell);
                        reject_case(c, kind, n, uk, scls)
                    });
                }
            }
        }
    }

    // C. start position k = n (aborts under UB checks on the pinned tree: own op)
    {
        let ns: &[usize] = if small { &[0, 1, 3, 64, 65] } else { &[0, 1, 2, 3, 63, 64, 65, 127, 128, 129, 1000, 4095, 4096, 4097, 8192, 8193] };
        for &n in ns {
            for &be in SEL_BACKENDS {
                if small && (be + n) % 4 != 0 {
                    continue;
                }
                let uc = u_core(n);
                for r in 0..(if small { 1 } else { 2 }) {
                    k += 1;
                    let (ucls, uk) = &uc[(k + r) % uc.len()];
                    if let UKind::Fixed(u) = uk {
                        if defective_nu(n, *u).is_some() {
                            continue;
                        }
                    }
                    let scls = [SCls::Random, SCls::DupRuns, SCls::EndU, SCls::HugeGap, SCls::AllU][k % 5];
                    run_seq_case(&mut ctx, &Spec { n, ucls, uk, scls, bld: BLD_ALL[k % BLD_ALL.len()], be }, lim_len);
                }
            }
        }
    }

    // D. (n, u) pairs that the pinned tree cannot construct (own strata)
    {
        let pairs: Vec<(usize, String, usize)> = vec![
            (0, "u=1".into(), 1),
            (0, "u=2".into(), 2),
            (0, "u=64".into(), 64),
            (0, "u=2^32".into(), 1 << 32),
            (0, "u=2^53".into(), 1 << 53),
            (0, "u=2^63".into(), 1 << 63),
            (0, "u=MAX".into(), MAXU),
            (1, "u=2^64-1024".into(), MAXU - 1023),
            (1, "u=2^64-512".into(), MAXU - 511),
            (1, "u=MAX-1".into(), MAXU - 1),
            (1, "u=MAX".into(), MAXU),
        ];
        for (n, ucls, u) in &pairs {
            for &bld in BLD_NU {
                for &be in &[0usize, 1, 2, 3, 4, 13, 14] {
                    if small && be > 2 {
                        continue;
                    }
                    let sc: &[SCls] = if *n == 0 { &[SCls::Random] } else { &[SCls::All0, SCls::AllU, SCls::Random] };
                    for &scls in sc {
                        let uk = UKind::Fixed(*u);
                        run_seq_case(&mut ctx, &Spec { n: *n, ucls, uk: &uk, scls, bld, be }, lim_main);
                    }
                }
            }
            // From<[usize::MAX]> lands on (1, usize::MAX) by itself
            if *n == 1 && *u == MAXU {
                for &bld in &[Bld::FromSlice, Bld::FromVec] {
                    let uk = UKind::Fixed(*u);
                    run_seq_case(&mut ctx, &Spec { n: 1, ucls, uk: &uk, scls: SCls::AllU, bld, be: 1 }, lim_main);
                }
            }
        }
    }

    // E. large n: several inventories, 32-bit spans (a gap of > 2^16 upper bits needs n > 2^15)
    if !small {
        let ns: Vec<usize> = if ctx.thorough() { vec![32768 + 5, 65536, 200_000, 1 << 20] } else { vec![32768 + 5, 70_000] };
        let lim_big = Lim { full_get: 0, full_from: 0, from_samples: 30, from_steps: 100, part: Part::Main };
        for &n in &ns {
            for be in 0..BACKENDS.len() {
                for (j, &scls) in [SCls::HugeGap, SCls::Random, SCls::DupRuns, SCls::Clusters].iter().enumerate() {
                    k += 1;
                    let ucl: Vec<(String, UKind)> = vec![
                        ("u=n*2^1".into(), UKind::Fixed(2 * n)),
                        ("u=n-1".into(), UKind::Fixed(n - 1)),
                        ("u=n*2^30+1".into(), UKind::Fixed((n << 30) + 1)),
                        ("u=MAX".into(), UKind::Fixed(MAXU)),
                    ];
                    let (ucls, uk) = &ucl[(k + j) % ucl.len()];
                    run_seq_case(&mut ctx, &Spec { n, ucls, uk, scls, bld: BLD_NU[k % BLD_NU.len()], be }, lim_big);
                }
            }
        }
    }

    // F. random rounds on top
    let rounds = ctx.scale(40, 150000, 600000);
    let nmax = ctx.scale(130, 6000, 60000);
    for r in 0..rounds {
        let mut g = ctx.rng(r as u64);
        let n = match g.random_range(0..10) {
            0..=2 => N_EDGES[g.random_range(0..N_EDGES.len())].min(nmax),
            3..=6 => g.random_range(0..200usize).min(nmax),
            _ => {
                let e = g.random_range(0.0..(nmax as f64).log2());
                (2f64.powf(e)) as usize
            }
        };
        let ucl = u_classes(n, false);
        let (ucls, uk) = &ucl[g.random_range(0..ucl.len())];
        if let UKind::Fixed(u) = uk {
            if defective_nu(n, *u).is_some() {
                continue;
            }
        }
        let scls = SCLS_ALL[g.random_range(0..SCLS_ALL.len())];
        let bld = if matches!(uk, UKind::XMax(0)) { BLD_ALL[g.random_range(0..BLD_ALL.len())] } else { BLD_NU[g.random_range(0..BLD_NU.len())] };
        let be = g.random_range(0..BACKENDS.len());
        run_seq_case(&mut ctx, &Spec { n, ucls, uk, scls, bld, be }, lim_main);
        if r % 3 == 0 && BACKENDS[be].1 {
            run_seq_case(&mut ctx, &Spec { n, ucls, uk, scls, bld, be }, lim_len);
        }
        if r % 8 == 0 {
            let kind = [Rej::OutOfOrder, Rej::TooLarge, Rej::TooMany, Rej::Extend, Rej::From, Rej::Mixed][g.random_range(0..6)];
            let nn = n.min(400);
            let stratum = format!("reject:{:?}/{}/{}", kind, n_coarse(nn), u_coarse(ucls));
            let cell = format!("EliasFanoBuilder|reject:{:?}|{}/{}/{}", kind, n_class(nn), ucls, scls.name());
            ctx.case("EliasFanoBuilder", &stratum, "reject", |c| {
                c.set_cell(cell);
                reject_case(c, kind, nn, uk, scls)
            });
        }
        if ctx.out_of_time() {
            break;
        }
    }
    ctx.finish();
}
