//! C14 — storage outside the logical contents is neither trusted nor modified.
//!
//! Reads: a vector placed with `from_raw_parts` over storage whose bits beyond
//! `len*width` (rest of the last word + 0..3 spare words) are zeros, ones or
//! random must answer every read exactly as the model / a clean twin.
//! Writes: the harness computes, from the arguments only, the bit ranges a
//! mutation is documented to write and compares **all** storage words (plus
//! canary words around a `&mut [W]` backend) before and after outside those
//! ranges; inside them the new contents are decoded with the harness's own
//! unpacker and compared with the model.
//!
//! Known-defect isolation (DESIGN.md section 7, item 9): `apply_in_place`
//! has its own op and strata (`write/apply_in_place/<width class>/<spare|nospare>`),
//! its closure panics after 10*len+100 calls.
#[path = "common/bfv.rs"]
mod bfv;
use bfv::*;
use common_traits::{AsBytes, AtomicUnsignedInt, IntoAtomic};
use rand::Rng;
use rand::RngCore;
use std::sync::atomic::Ordering;
use sux::bits::{AtomicBitFieldVec, AtomicBitVec, BitFieldVec, BitVec};
use sux::rank_sel::{Rank9, Select9, SelectAdapt, SelectAdaptConst, SelectZeroAdapt};
use sux::traits::{
    AddNumBits, AtomicBitFieldSlice, BitCount, BitFieldSlice, BitFieldSliceCore, BitFieldSliceMut, IntoReverseUncheckedIterator, IntoUncheckedIterator, NumBits, Rank,
    RankZero, Select, SelectZero, UncheckedIterator,
};
use suxmon::gen::{bits_to_words, gen_bits, show_bits, Pattern, LEN_EDGES};
use suxmon::obs::*;

fn vname<W: TW>() -> String {
    format!("BitFieldVec<{}>", W::NAME)
}
fn blen<W: TW, B>(b: &BitFieldVec<W, B>) -> usize {
    BitFieldSliceCore::<W>::len(b)
}

const CANARY: usize = 2;

fn canary_word<W: TW>(k: usize) -> W {
    W::from128(0xC0DE_CAFE_F00D_BEEF_1234_5678_9ABC_DEF0u128.rotate_left(7 * k as u32) | 1)
}

/// Reports every changed storage bit that is not inside one of the `allowed`
/// half-open bit ranges. `offset_words` = number of canary words in front of
/// the backend inside the compared buffers.
fn check_outside<W: TW>(c: &mut Case, op: &str, before: &[W], after: &[W], offset_words: usize, backend_words: usize, content_bits: usize, allowed: &[(usize, usize)], what: &str) {
    let bits = bits_of::<W>();
    c.tick(before.len() as u64);
    if before.len() != after.len() {
        c.fail(op, "mismatch", "", &format!("{}: the backend has {} words afterwards, {} before; {}", op, after.len(), before.len(), what));
        return;
    }
    let off = offset_words * bits;
    let bad: Vec<usize> = differing_bits(before, after).into_iter().filter(|&p| p < off || !allowed.iter().any(|&(lo, hi)| p - off >= lo && p - off < hi)).collect();
    if !bad.is_empty() {
        let region = |p: usize| -> String {
            if p < off {
                format!("canary word {} before the backend", p / bits)
            } else {
                let q = p - off;
                if q >= backend_words * bits {
                    format!("canary word after the backend (buffer bit {})", p)
                } else if q >= content_bits.div_ceil(bits) * bits {
                    format!("spare word {} (bit {})", q / bits, q)
                } else if q >= content_bits {
                    format!("bit {} = bit {} of the last word, beyond len*width = {}", q, q % bits, content_bits)
                } else {
                    format!("bit {} inside the contents, which the operation does not address", q)
                }
            }
        };
        let kinds: Vec<String> = bad.iter().take(4).map(|&p| region(p)).collect();
        c.fail(op, "outside-write", "storage bits outside the documented target changed", &format!("{}: {} storage bit(s) outside the allowed ranges {:?} changed: {}; backend before {} after {}; {}", op, bad.len(), allowed, kinds.join("; "), show_words(before), show_words(after), what));
    }
}

// ---------------------------------------------------------------------------
// BitFieldVec: reads over dirty storage

fn starts(c: &mut Case, len: usize) -> Vec<usize> {
    if len <= 20 {
        (0..=len).collect()
    } else {
        let mut v = vec![0, 1, len - 1, len, len / 2];
        for _ in 0..4 {
            v.push(c.rng().random_range(0..=len));
        }
        v
    }
}

fn read_ops<W: TW, B: AsRef<[W]>>(c: &mut Case, b: &BitFieldVec<W, B>, width: usize, m: &[u128], unaligned: bool, what: &str) {
    let len = m.len();
    c.check("len", blen(b) == len, || format!("len() got {} model {}; {}", blen(b), len, what));
    if blen(b) != len {
        return;
    }
    let got = read_all(b);
    c.tick(len as u64);
    c.check("get", got == m, || format!("get({:?}) over dirty storage differs from the model: got {:#x?} model {:#x?}; {}", first_diff(&got, m), at(&got, first_diff(&got, m)), at(m, first_diff(&got, m)), what));
    if let Some(got) = c.guard("iter", || b.iter().map(|x| x.to128()).collect::<Vec<u128>>()) {
        c.check("iter", got == m, || format!("iter() over dirty storage differs at {:?}; {}", first_diff(&got, m), what));
    }
    for k in starts(c, len) {
        if let Some(got) = c.guard("iter_from", || b.iter_from(k).map(|x| x.to128()).collect::<Vec<u128>>()) {
            c.check("iter_from", got == m[k..], || format!("iter_from({}) over dirty storage differs at offset {:?}; {}", k, first_diff(&got, &m[k..]), what));
        }
        if let Some(got) = c.guard("unchecked_iter", || {
            let mut it = b.into_unchecked_iter_from(k);
            (k..len).map(|_| unsafe { it.next_unchecked() }.to128()).collect::<Vec<u128>>()
        }) {
            c.check("unchecked_iter", got == m[k..], || format!("into_unchecked_iter_from({}) over dirty storage differs at offset {:?}; {}", k, first_diff(&got, &m[k..]), what));
        }
        let want: Vec<u128> = m[..k].iter().rev().copied().collect();
        if let Some(got) = c.guard("rev_unchecked_iter", || {
            let mut it = b.into_rev_unchecked_iter_from(k);
            (0..k).map(|_| unsafe { it.next_unchecked() }.to128()).collect::<Vec<u128>>()
        }) {
            c.check("rev_unchecked_iter", got == want, || format!("into_rev_unchecked_iter_from({}) over dirty storage differs at offset {:?}; {}", k, first_diff(&got, &want), what));
        }
    }
    let want: Vec<u128> = m.iter().rev().copied().collect();
    if let Some(got) = c.guard("rev_unchecked_iter", || {
        let mut it = b.into_rev_unchecked_iter();
        (0..len).map(|_| unsafe { it.next_unchecked() }.to128()).collect::<Vec<u128>>()
    }) {
        c.check("rev_unchecked_iter", got == want, || format!("into_rev_unchecked_iter() over dirty storage differs at offset {:?}; {}", first_diff(&got, &want), what));
    }
    if unaligned {
        let mut bad = None;
        for i in 0..len {
            let r = catch(|| b.get_unaligned(i)).map(|x| x.to128());
            c.tick(1);
            if r != Ok(m[i]) {
                bad = Some((i, r));
                break;
            }
        }
        if let Some((i, r)) = bad {
            c.fail("get_unaligned", if r.is_ok() { "mismatch" } else { "panic" }, &r.clone().err().unwrap_or_default(), &format!("get_unaligned({}) over dirty storage gave {:x?}, model {:#x}; {}", i, r, m[i], what));
        }
    }
}

fn eq_ops<W: TW, B: AsRef<[W]>>(c: &mut Case, dirty: &BitFieldVec<W, B>, width: usize, m: &[u128], what: &str) {
    let clean = clean_bfv::<W>(m, width);
    c.check("eq", *dirty == clean && clean == *dirty, || format!("dirty != clean twin (or clean != dirty); {}", what));
    for g in Garbage::ALL {
        let spare = c.rng().random_range(0..4);
        let other = dirty_bfv::<W>(c.rng(), m, width, g, spare);
        c.check("eq", *dirty == other && other == *dirty, || format!("dirty != twin over storage with {} garbage + {} spare words: {}; {}", g.name(), spare, show_words(other.as_slice()), what));
    }
    if !m.is_empty() && width > 0 {
        // differs only in the top bit of the last element / a random bit: must be unequal
        for (i, bit) in [(m.len() - 1, width - 1), (c.rng().random_range(0..m.len()), c.rng().random_range(0..width))] {
            let mut m2 = m.to_vec();
            m2[i] ^= 1u128 << bit;
            let g = Garbage::ALL[c.rng().random_range(0..3)];
            let other = dirty_bfv::<W>(c.rng(), &m2, width, g, 1);
            c.check("eq", *dirty != other && other != *dirty, || format!("dirty == vector whose element {} differs in bit {}; {}", i, bit, what));
        }
    }
}

fn read_case<W: C14Word>(c: &mut Case, width: usize, g: Garbage, spare: usize, maxlen: usize) {
    let bits = bits_of::<W>();
    let len = len_near_boundary(c.rng(), width, bits, maxlen);
    let m = if c.rng().random_bool(0.5) { gen_vals(c.rng(), len, width) } else { rand_vals(c.rng(), len, width) };
    let words = make_words::<W>(c.rng(), &m, width, g, spare, 1);
    let what = format!("BitFieldVec::<{}>::from_raw_parts({}, {}, {}) (garbage {}, {} spare words) values {}", W::NAME, show_words(&words), width, len, g.name(), spare, show_vals(&m));
    let unaligned = spare >= 1 && (width + 6 <= bits || width + 4 == bits || width == bits);
    {
        let view = unsafe { BitFieldVec::<W, &[W]>::from_raw_parts(&words[..], width, len) };
        read_ops(c, &view, width, &m, unaligned, &what);
        eq_ops(c, &view, width, &m, &what);
    }
    let v = unsafe { BitFieldVec::<W, Vec<W>>::from_raw_parts(words.clone(), width, len) };
    read_ops(c, &v, width, &m, unaligned, &what);
    eq_ops(c, &v, width, &m, &what);
    let cl = v.clone();
    c.check("clone", cl == v && read_all(&cl) == m, || format!("clone of a dirty vector differs; {}", what));
    match BitFieldVec::<W>::from_slice(&v) {
        Ok(r) => c.check("from_slice", read_all(&r) == m, || format!("from_slice(&dirty) differs from the model; {}", what)),
        Err(e) => c.check("from_slice", false, || format!("from_slice(&dirty) failed: {}; {}", e, what)),
    };
    // reading must not have written anything
    c.check("read_only", v.as_slice() == &words[..], || format!("read operations changed the storage: {} -> {}; {}", show_words(&words), show_words(v.as_slice()), what));
    let bx: BitFieldVec<W, Box<[W]>> = v.into();
    read_ops(c, &bx, width, &m, unaligned, &what);
    W::atomic_reads(c, bx.into(), width, &m, &what);
    if len > 1 && (len * width) % bits != 0 || spare > 0 && len > 1 {
        c.nontrivial();
    }
    c.describe(|| what.clone());
}

// ---------------------------------------------------------------------------
// BitFieldVec: writes over dirty storage

#[derive(Clone, Debug)]
enum WOp {
    Set(Vec<(usize, u128)>),
    Reset(bool),
    CopyInto { src: Vec<u128>, from: usize, to: usize, len: usize },
    Apply(usize, bool),
    ChunkSet(usize, Vec<(usize, u128)>),
    ChunkReset(usize, usize),
    ChunkApply(usize, usize),
}

const WOPS: [&str; 7] = ["set", "reset", "copy_into", "apply_in_place", "chunk_set", "chunk_reset", "chunk_apply_in_place"];

fn gcd(a: usize, b: usize) -> usize {
    if b == 0 {
        a
    } else {
        gcd(b, a % b)
    }
}

fn gen_wop(c: &mut Case, kind: usize, width: usize, bits: usize, m: &[u128]) -> WOp {
    let len = m.len();
    let period = bits / gcd(bits, width);
    let pick_cs = |c: &mut Case| -> usize {
        if c.rng().random_bool(0.4) || len <= period {
            (len + c.rng().random_range(0..3)).max(1) // a single chunk
        } else {
            period * c.rng().random_range(1..=(len / period).clamp(1, 3))
        }
    };
    match kind {
        0 => {
            let n = c.rng().random_range(1..4);
            WOp::Set(
                (0..n)
                    .map(|_| {
                        // the last elements are the ones next to the garbage
                        let i = if c.rng().random_bool(0.5) { len - 1 - c.rng().random_range(0..len.min(3)) } else { c.rng().random_range(0..len) };
                        (i, gen_val(c.rng(), width))
                    })
                    .collect(),
            )
        }
        1 => WOp::Reset(c.rng().random_bool(0.5)),
        2 => {
            let slen = c.rng().random_range(1..=len + 8);
            let src = rand_vals(c.rng(), slen, width);
            let from = c.rng().random_range(0..slen);
            // often up to the very end of the destination
            let to = c.rng().random_range(0..len);
            let n = match c.rng().random_range(0..3) {
                0 => usize::MAX,
                1 => len - to,
                _ => c.rng().random_range(1..=len - to + 2),
            };
            WOp::CopyInto { src, from, to, len: n }
        }
        3 => WOp::Apply(c.rng().random_range(0..3), c.rng().random_bool(0.25)),
        4 => {
            let cs = pick_cs(c);
            let n = c.rng().random_range(1..4);
            WOp::ChunkSet(cs, (0..n).map(|_| (if c.rng().random_bool(0.5) { len - 1 } else { c.rng().random_range(0..len) }, gen_val(c.rng(), width))).collect())
        }
        5 => {
            let cs = pick_cs(c);
            let nch = len.div_ceil(cs);
            WOp::ChunkReset(cs, if c.rng().random_bool(0.6) { nch - 1 } else { c.rng().random_range(0..nch) })
        }
        _ => {
            let cs = pick_cs(c);
            let nch = len.div_ceil(cs);
            WOp::ChunkApply(cs, if c.rng().random_bool(0.6) { nch - 1 } else { c.rng().random_range(0..nch) })
        }
    }
}

fn apply_f(kind: usize, x: u128, mask: u128) -> u128 {
    match kind {
        0 => x,
        1 => x.wrapping_add(1) & mask,
        _ => !x & mask,
    }
}

/// Model effect and allowed bit ranges of an operation, from its arguments.
fn expect_wop(op: &WOp, m: &[u128], width: usize, bits: usize) -> (Vec<u128>, Vec<(usize, usize)>) {
    let len = m.len();
    let mask = mask128(width);
    let mut m2 = m.to_vec();
    let mut allowed = vec![];
    match op {
        WOp::Set(ws) | WOp::ChunkSet(_, ws) => {
            for &(i, v) in ws {
                m2[i] = v;
                allowed.push((i * width, (i + 1) * width));
            }
        }
        WOp::Reset(_) => {
            m2.iter_mut().for_each(|x| *x = 0);
            allowed.push((0, len * width));
        }
        WOp::CopyInto { src, from, to, len: n } => {
            let n = (*n).min(src.len() - from).min(len - to);
            for i in 0..n {
                m2[to + i] = src[from + i];
            }
            allowed.push((to * width, (to + n) * width));
        }
        WOp::Apply(kind, _) => {
            m2.iter_mut().for_each(|x| *x = apply_f(*kind, *x, mask));
            allowed.push((0, len * width));
        }
        WOp::ChunkReset(cs, k) => {
            let (lo, hi) = (k * cs, ((k + 1) * cs).min(len));
            m2[lo..hi].iter_mut().for_each(|x| *x = 0);
            allowed.push((lo * width, hi * width));
        }
        WOp::ChunkApply(cs, k) => {
            let (lo, hi) = (k * cs, ((k + 1) * cs).min(len));
            m2[lo..hi].iter_mut().for_each(|x| *x = x.wrapping_add(1) & mask);
            allowed.push((lo * width, hi * width));
        }
    }
    let _ = bits;
    (m2, allowed)
}

/// Executes `op` on `b`. `src` is the source vector of CopyInto (same backend type).
fn do_wop<W: TW, B: AsRef<[W]> + AsMut<[W]>>(c: &mut Case, opname: &str, b: &mut BitFieldVec<W, B>, src: Option<&BitFieldVec<W, B>>, op: &WOp, what: &str) -> bool {
    let width = BitFieldSliceCore::<W>::bit_width(b);
    let mask = mask128(width);
    let len = blen(b);
    // the sequence of chunks handed out must be the one a vector with the same
    // logical contents over exact-size fresh storage hands out
    if let WOp::ChunkSet(cs, _) | WOp::ChunkReset(cs, _) | WOp::ChunkApply(cs, _) = op {
        let lens = catch(|| {
            let mut clean = BitFieldVec::<W>::new(width, len);
            for i in 0..len {
                clean.set(i, b.get(i));
            }
            let dirty_lens: Vec<usize> = b.try_chunks_mut(*cs).map(|it| it.take(len + 70).map(|ch| BitFieldSliceCore::<W>::len(&ch)).collect()).unwrap_or_default();
            let clean_lens: Vec<usize> = clean.try_chunks_mut(*cs).map(|it| it.take(len + 70).map(|ch| BitFieldSliceCore::<W>::len(&ch)).collect()).unwrap_or_default();
            (dirty_lens, clean_lens)
        });
        if let Ok((dl, cl)) = lens {
            c.check(opname, dl == cl, || format!("try_chunks_mut({}) hands out chunks of lengths {:?} but over exact-size clean storage {:?}; {}", cs, dl, cl, what));
        }
    }
    let r = catch(|| match op {
        WOp::Set(ws) => {
            for &(i, v) in ws {
                b.set(i, W::from128(v));
            }
        }
        WOp::Reset(par) => {
            if *par {
                b.par_reset()
            } else {
                b.reset()
            }
        }
        WOp::CopyInto { from, to, len, .. } => src.unwrap().copy(*from, b, *to, *len),
        WOp::Apply(kind, unchecked) => {
            let mut calls = 0usize;
            let lim = 10 * len + 100;
            let f = |x: W| -> W {
                calls += 1;
                if calls > lim {
                    panic!("HANG-GUARD: f was called more than 10*len+100 = {} times for a vector of {} elements", lim, len);
                }
                W::from128(apply_f(*kind, x.to128(), mask))
            };
            if *unchecked {
                unsafe { b.apply_in_place_unchecked(f) }
            } else {
                b.apply_in_place(f)
            }
        }
        WOp::ChunkSet(cs, ws) => {
            let chunks = b.try_chunks_mut(*cs).expect("try_chunks_mut refused an aligned or single-chunk size");
            for (k, mut ch) in chunks.enumerate() {
                for &(i, v) in ws {
                    if i / cs == k {
                        ch.set(i % cs, W::from128(v));
                    }
                }
            }
        }
        WOp::ChunkReset(cs, k0) => {
            let chunks = b.try_chunks_mut(*cs).expect("try_chunks_mut refused an aligned or single-chunk size");
            for (k, mut ch) in chunks.enumerate() {
                if k == *k0 {
                    ch.reset();
                }
            }
        }
        WOp::ChunkApply(cs, k0) => {
            let chunks = b.try_chunks_mut(*cs).expect("try_chunks_mut refused an aligned or single-chunk size");
            for (k, mut ch) in chunks.enumerate() {
                if k == *k0 {
                    let cl = BitFieldSliceCore::<W>::len(&ch);
                    let mut calls = 0usize;
                    ch.apply_in_place(|x| {
                        calls += 1;
                        if calls > 10 * cl + 100 {
                            panic!("HANG-GUARD: f was called more than 10*len+100 = {} times for a chunk of {} elements", 10 * cl + 100, cl);
                        }
                        W::from128(x.to128().wrapping_add(1) & mask)
                    });
                }
            }
        }
    });
    if let Err(msg) = r {
        c.fail(opname, "panic", &msg, &format!("{:?} panicked; {}", op, what));
        return false;
    }
    true
}

fn show_op(op: &WOp) -> String {
    let s = format!("{:x?}", op);
    trunc(&s, 500)
}

const GOPS: [&str; 4] = ["grow_resize_zero", "grow_resize_value", "grow_push", "grow_extend"];

/// Growth of a Vec-backed vector over dirty storage with spare words: the new
/// elements hold what was asked for, and no storage bit at or beyond the new end
/// (inside the words that existed before) changes.
fn grow_case<W: TW>(c: &mut Case, width: usize, kind: usize, g: Garbage, spare: usize, maxlen: usize) {
    let bits = bits_of::<W>();
    let opname = GOPS[kind];
    let len = len_near_boundary(c.rng(), width, bits, maxlen);
    let m = gen_vals(c.rng(), len, width);
    let words = make_words::<W>(c.rng(), &m, width, g, spare, 1);
    let nwords = words.len();
    // elements that fit in the existing storage, and sometimes a few more
    let room = (nwords * bits).saturating_sub(len * width) / width.max(1);
    let add = match c.rng().random_range(0..4u32) {
        0 => 1,
        1 => room.max(1),
        2 => c.rng().random_range(1..=room.max(1)),
        _ => room + c.rng().random_range(1..6),
    };
    let new_vals: Vec<u128> = match kind {
        0 => vec![0; add],
        1 => vec![gen_val(c.rng(), width); add],
        _ => gen_vals(c.rng(), add, width),
    };
    let what = format!("BitFieldVec<{}> width {} len {} over Vec storage {} (garbage {}, {} spare words); {} of {} elements {}", W::NAME, width, len, show_words(&words), g.name(), spare, opname, add, show_vals(&new_vals));
    let mut b = unsafe { BitFieldVec::<W, Vec<W>>::from_raw_parts(words.clone(), width, len) };
    let r = catch(|| match kind {
        0 | 1 => b.resize(len + add, W::from128(new_vals[0])),
        2 => new_vals.iter().for_each(|&x| b.push(W::from128(x))),
        _ => b.extend(new_vals.iter().map(|&x| W::from128(x))),
    });
    if let Err(msg) = r {
        c.fail(opname, "panic", &msg, &format!("{} panicked; {}", opname, what));
        return;
    }
    let mut m2 = m.clone();
    m2.extend_from_slice(&new_vals);
    let got = read_all(&b);
    c.check(opname, blen(&b) == m2.len() && got == m2, || format!("contents after growing differ from the model at {:?} (got {:#x?} want {:#x?}); {}", first_diff(&got, &m2), at(&got, first_diff(&got, &m2)), at(&m2, first_diff(&got, &m2)), what));
    let (after, _, _) = b.into_raw_parts();
    // only the words that existed before are compared; the bits of the new elements may change
    let keep = nwords.min(after.len());
    c.check(opname, after.len() >= nwords.min((m2.len() * width).div_ceil(bits)), || format!("the backend shrank to {} words; {}", after.len(), what));
    check_outside(c, opname, &words[..keep], &after[..keep], 0, keep, m2.len() * width, &[(len * width, m2.len() * width)], &what);
    if spare > 0 || (len * width) % bits != 0 {
        c.nontrivial();
    }
    c.describe(|| what.clone());
}

fn write_case<W: TW>(c: &mut Case, width: usize, kind: usize, g: Garbage, spare: usize, canary: bool, maxlen: usize) {
    let bits = bits_of::<W>();
    let opname = WOPS[kind];
    let len = len_near_boundary(c.rng(), width, bits, maxlen).max(1);
    let m = gen_vals(c.rng(), len, width);
    let words = make_words::<W>(c.rng(), &m, width, g, spare, 1);
    let nwords = words.len();
    let op = gen_wop(c, kind, width, bits, &m);
    let (m2, allowed) = expect_wop(&op, &m, width, bits);
    let what = format!("BitFieldVec<{}> width {} len {} over {} storage {} (garbage {}, {} spare words{}); values {}; op {}", W::NAME, width, len, if canary { "&mut [W]" } else { "Vec" }, show_words(&words), g.name(), spare, if canary { ", canary words around" } else { "" }, show_vals(&m), show_op(&op));
    let src_vals: Option<&Vec<u128>> = if let WOp::CopyInto { src, .. } = &op { Some(src) } else { None };
    let (before, after, off): (Vec<W>, Vec<W>, usize);
    let ok;
    if canary {
        let mut buf: Vec<W> = (0..CANARY).map(canary_word::<W>).collect();
        buf.extend_from_slice(&words);
        buf.extend((0..CANARY).map(|k| canary_word::<W>(k + 5)));
        before = buf.clone();
        off = CANARY;
        let mut sbuf: Vec<W> = src_vals.map(|s| make_words::<W>(c.rng(), s, width, Garbage::Random, 1, 1)).unwrap_or_default();
        {
            let srcv = src_vals.map(|s| unsafe { BitFieldVec::<W, &mut [W]>::from_raw_parts(&mut sbuf[..], width, s.len()) });
            let mut b = unsafe { BitFieldVec::<W, &mut [W]>::from_raw_parts(&mut buf[CANARY..CANARY + nwords], width, len) };
            ok = do_wop(c, opname, &mut b, srcv.as_ref(), &op, &what);
            if ok {
                let got = read_all(&b);
                c.check(opname, blen(&b) == len && got == m2, || format!("contents after the operation differ from the model at {:?} (got {:#x?} want {:#x?}); {}", first_diff(&got, &m2), at(&got, first_diff(&got, &m2)), at(&m2, first_diff(&got, &m2)), what));
            }
        }
        after = buf;
    } else {
        before = words.clone();
        off = 0;
        let srcv = src_vals.map(|s| dirty_bfv::<W>(c.rng(), s, width, Garbage::Random, 1));
        let mut b = unsafe { BitFieldVec::<W, Vec<W>>::from_raw_parts(words.clone(), width, len) };
        ok = do_wop(c, opname, &mut b, srcv.as_ref(), &op, &what);
        if ok {
            let got = read_all(&b);
            c.check(opname, blen(&b) == len && got == m2, || format!("contents after the operation differ from the model at {:?} (got {:#x?} want {:#x?}); {}", first_diff(&got, &m2), at(&got, first_diff(&got, &m2)), at(&m2, first_diff(&got, &m2)), what));
        }
        let (w, bw, l) = b.into_raw_parts();
        c.check(opname, bw == width && l == len, || format!("into_raw_parts returned width {} len {}; {}", bw, l, what));
        after = w;
    }
    if ok {
        check_outside(c, opname, &before, &after, off, nwords, len * width, &allowed, &what);
        // the stored fields, decoded by the harness
        let dec = unpack(&after[off..off + nwords.min(after.len() - off)], width, len);
        c.check(opname, dec == m2, || format!("storage decoded by the harness differs from the model at {:?}; after = {}; {}", first_diff(&dec, &m2), show_words(&after), what));
    }
    if (len * width) % bits != 0 || spare > 0 {
        c.nontrivial();
    }
    c.describe(|| what.clone());
}

// ---------------------------------------------------------------------------
// atomic bit-field vectors

trait C14Word: TW {
    fn atomic_reads(c: &mut Case, b: BitFieldVec<Self, Vec<Self>>, width: usize, m: &[u128], what: &str);
    fn atomic_write_case(c: &mut Case, width: usize, kind: usize, g: Garbage, spare: usize, maxlen: usize);
}

const AOPS: [&str; 3] = ["set_atomic", "reset_atomic", "par_reset_atomic"];

fn atomic_reads_g<W>(c: &mut Case, b: BitFieldVec<W, Vec<W>>, _width: usize, m: &[u128], what: &str)
where
    W: TW + IntoAtomic,
    W::AtomicType: AtomicUnsignedInt + AsBytes,
{
    let a: AtomicBitFieldVec<W> = b.into();
    let got: Vec<u128> = (0..m.len()).map(|i| a.get_atomic(i, Ordering::Relaxed).to128()).collect();
    c.tick(m.len() as u64);
    c.check("get_atomic", BitFieldSliceCore::<W::AtomicType>::len(&a) == m.len() && got == m, || format!("get_atomic over dirty storage differs from the model at {:?}; {}", first_diff(&got, m), what));
}

fn atomic_write_g<W>(c: &mut Case, width: usize, kind: usize, g: Garbage, spare: usize, maxlen: usize)
where
    W: TW + IntoAtomic,
    W::AtomicType: AtomicUnsignedInt + AsBytes,
{
    let bits = bits_of::<W>();
    let opname = AOPS[kind];
    let len = len_near_boundary(c.rng(), width, bits, maxlen).max(1);
    let m = gen_vals(c.rng(), len, width);
    let words = make_words::<W>(c.rng(), &m, width, g, spare, 1);
    let mut m2 = m.clone();
    let mut allowed = vec![];
    let mut sets = vec![];
    if kind == 0 {
        for _ in 0..c.rng().random_range(1..4) {
            let i = if c.rng().random_bool(0.5) { len - 1 - c.rng().random_range(0..len.min(3)) } else { c.rng().random_range(0..len) };
            let v = gen_val(c.rng(), width);
            sets.push((i, v));
            m2[i] = v;
            allowed.push((i * width, (i + 1) * width));
        }
    } else {
        m2.iter_mut().for_each(|x| *x = 0);
        allowed.push((0, len * width));
    }
    let what = format!("AtomicBitFieldVec<{}> width {} len {} over storage {} (garbage {}, {} spare words); values {}; op {} {:x?}", W::NAME, width, len, show_words(&words), g.name(), spare, show_vals(&m), opname, sets);
    let b = unsafe { BitFieldVec::<W, Vec<W>>::from_raw_parts(words.clone(), width, len) };
    let mut a: AtomicBitFieldVec<W> = b.into();
    let o = if c.rng().random_bool(0.5) { Ordering::Relaxed } else { Ordering::SeqCst };
    let r = catch(|| match kind {
        0 => {
            for &(i, v) in &sets {
                a.set_atomic(i, W::from128(v), o);
            }
        }
        1 => a.reset_atomic(o),
        _ => a.par_reset_atomic(o),
    });
    if let Err(msg) = r {
        c.fail(opname, "panic", &msg, &format!("{} panicked; {}", opname, what));
    } else {
        let got: Vec<u128> = (0..len).map(|i| a.get_atomic(i, Ordering::SeqCst).to128()).collect();
        c.check(opname, got == m2, || format!("contents after {} differ from the model at {:?}; {}", opname, first_diff(&got, &m2), what));
        let back: BitFieldVec<W> = a.into();
        let after = back.as_slice().to_vec();
        check_outside(c, opname, &words, &after, 0, words.len(), len * width, &allowed, &what);
        let dec = unpack(&after, width, len);
        c.check(opname, dec == m2, || format!("storage decoded by the harness differs from the model at {:?}; {}", first_diff(&dec, &m2), what));
    }
    if (len * width) % bits != 0 || spare > 0 {
        c.nontrivial();
    }
    c.describe(|| what.clone());
}

macro_rules! impl_c14 {
    ($($t:ty),*) => {$(
        impl C14Word for $t {
            fn atomic_reads(c: &mut Case, b: BitFieldVec<Self, Vec<Self>>, width: usize, m: &[u128], what: &str) {
                atomic_reads_g::<$t>(c, b, width, m, what)
            }
            fn atomic_write_case(c: &mut Case, width: usize, kind: usize, g: Garbage, spare: usize, maxlen: usize) {
                atomic_write_g::<$t>(c, width, kind, g, spare, maxlen)
            }
        }
    )*};
}
impl_c14!(u8, u16, u32, u64, usize);
impl C14Word for u128 {
    fn atomic_reads(_c: &mut Case, _b: BitFieldVec<Self, Vec<Self>>, _width: usize, _m: &[u128], _what: &str) {}
    fn atomic_write_case(_c: &mut Case, _width: usize, _kind: usize, _g: Garbage, _spare: usize, _maxlen: usize) {}
}

// ---------------------------------------------------------------------------
// BitVec / AtomicBitVec

/// Storage words for `bits` followed by garbage (rest of the last word and
/// `spare` further words).
fn dirty_bit_words(c: &mut Case, bits: &[bool], g: Garbage, spare: usize) -> Vec<usize> {
    let len = bits.len();
    let mut w = bits_to_words(bits);
    let word = |c: &mut Case| -> usize {
        match g {
            Garbage::Zeros => 0,
            Garbage::Ones => !0,
            Garbage::Random => c.rng().next_u64() as usize,
        }
    };
    if len % 64 != 0 {
        let last = w.len() - 1;
        let mut gw = word(c);
        if g == Garbage::Random {
            gw |= 1; // the first bit beyond the contents is set
        }
        w[last] |= gw << (len % 64);
    }
    for k in 0..spare {
        let mut x = word(c);
        if g == Garbage::Random && k == 0 {
            x |= 1;
        }
        w.push(x);
    }
    w
}

fn bitvec_reads(c: &mut Case, len: usize, pat: Pattern, g: Garbage, spare: usize) {
    let m = gen_bits(c.rng(), len, pat);
    let words = dirty_bit_words(c, &m, g, spare);
    let what = format!("BitVec::from_raw_parts({}, {}) (garbage {}, {} spare words) bits {}", show_words(&words), len, g.name(), spare, show_bits(&m));
    let ones: Vec<usize> = (0..len).filter(|&i| m[i]).collect();
    let zeros: Vec<usize> = (0..len).filter(|&i| !m[i]).collect();
    let b = unsafe { BitVec::from_raw_parts(words.clone(), len) };
    let got: Vec<bool> = (0..len).map(|i| b.get(i)).collect();
    c.tick(len as u64);
    c.check("get", got == m && (0..len).all(|i| b[i] == m[i]), || format!("get/index over dirty storage differs at {:?}; {}", got.iter().zip(m.iter()).position(|(a, b)| a != b), what));
    c.check("count_ones", b.count_ones() == ones.len(), || format!("count_ones got {} model {}; {}", b.count_ones(), ones.len(), what));
    c.check("count_zeros", b.count_zeros() == zeros.len(), || format!("count_zeros got {} model {}; {}", b.count_zeros(), zeros.len(), what));
    c.check("par_count_ones", b.par_count_ones() == ones.len(), || format!("par_count_ones got {} model {}; {}", b.par_count_ones(), ones.len(), what));
    let got: Vec<bool> = b.iter().collect();
    c.check("iter", got == m, || format!("iter() over dirty storage differs; {}", what));
    // (polling after None is C06's subject and is not repeated here)
    if let Some(got) = c.guard("iter_ones", || b.iter_ones().collect::<Vec<usize>>()) {
        c.check("iter_ones", got == ones, || format!("iter_ones got {} model {}; {}", trunc(&format!("{:?}", got), 300), trunc(&format!("{:?}", ones), 300), what));
    }
    if let Some(got) = c.guard("iter_zeros", || b.iter_zeros().collect::<Vec<usize>>()) {
        c.check("iter_zeros", got == zeros, || format!("iter_zeros got {} model {}; {}", trunc(&format!("{:?}", got), 300), trunc(&format!("{:?}", zeros), 300), what));
    }
    // equality: dirty vs clean, both orders; dirty vs differently dirty; one flipped bit
    let clean = unsafe { BitVec::from_raw_parts(bits_to_words(&m), len) };
    c.check("eq", b == clean && clean == b, || format!("dirty != clean twin; {}", what));
    for g2 in Garbage::ALL {
        let sp = c.rng().random_range(0..3);
        let w2 = dirty_bit_words(c, &m, g2, sp);
        let o = unsafe { BitVec::from_raw_parts(w2, len) };
        c.check("eq", b == o && o == b, || format!("dirty != twin over {} garbage; {}", g2.name(), what));
    }
    if len > 0 {
        let mut m2 = m.clone();
        m2[len - 1] = !m2[len - 1];
        let o = unsafe { BitVec::from_raw_parts(dirty_bit_words(c, &m2, g, 1), len) };
        c.check("eq", b != o && o != b, || format!("dirty == vector whose last bit differs; {}", what));
    }
    let own = b.to_owned();
    c.check("to_owned", own == b && own.count_ones() == ones.len(), || format!("to_owned of a dirty vector differs; {}", what));
    {
        let view = unsafe { BitVec::<&[usize]>::from_raw_parts(&words[..], len) };
        c.check("count_ones", view.count_ones() == ones.len() && view.iter_ones().collect::<Vec<_>>() == ones, || format!("slice-backed dirty vector: count_ones/iter_ones differ; {}", what));
        c.check("eq", view == clean && clean == view, || format!("slice-backed dirty != clean; {}", what));
    }
    c.check("read_only", AsRef::<[usize]>::as_ref(&b) == &words[..], || format!("read operations changed the storage; {}", what));
    // growth over dirty storage: elements added by resize / push / extend hold the
    // requested values, whatever the spare bits and words of the backend held
    for kind in 0..4usize {
        let grow = [1usize, 63, 64, 130][c.rng().random_range(0..4)] + c.rng().random_range(0..3);
        let mut d = unsafe { BitVec::from_raw_parts(words.clone(), len) };
        let mut exp = m.clone();
        let opname = ["grow_resize_false", "grow_resize_true", "grow_push", "grow_extend"][kind];
        let r = catch(|| match kind {
            0 => d.resize(len + grow, false),
            1 => d.resize(len + grow, true),
            2 => {
                for i in 0..grow {
                    d.push(i % 3 == 0)
                }
            }
            _ => d.extend((0..grow).map(|i| i % 5 == 1)),
        });
        match kind {
            0 => exp.resize(len + grow, false),
            1 => exp.resize(len + grow, true),
            2 => exp.extend((0..grow).map(|i| i % 3 == 0)),
            _ => exp.extend((0..grow).map(|i| i % 5 == 1)),
        }
        if let Err(p) = r {
            c.fail(opname, "panic", &p, &format!("{} by {} panicked; {}", opname, grow, what));
            continue;
        }
        let got: Vec<bool> = d.iter().collect();
        c.check(opname, got == exp && d.count_ones() == exp.iter().filter(|x| **x).count(), || {
            format!("{} by {} elements over dirty storage: contents differ from the model at {:?} (count_ones {}); {}", opname, grow, got.iter().zip(exp.iter()).position(|(a, b)| a != b), d.count_ones(), what)
        });
    }
    // atomic form
    let mut a: AtomicBitVec = b.into();
    let got: Vec<bool> = (0..len).map(|i| a.get(i, Ordering::Relaxed)).collect();
    c.check("atomic_get", got == m, || format!("atomic get over dirty storage differs; {}", what));
    c.check("atomic_count_ones", a.count_ones() == ones.len() && a.par_count_ones() == ones.len() && a.count_zeros() == zeros.len(), || format!("atomic count_ones {} par {} model {}; {}", a.count_ones(), a.par_count_ones(), ones.len(), what));
    let got: Vec<bool> = a.iter().collect();
    c.check("atomic_iter", got == m, || format!("atomic iter over dirty storage differs; {}", what));
    if len > 1 && (len % 64 != 0 || spare > 0) {
        c.nontrivial();
    }
    c.describe(|| what.clone());
}

/// Rank/select structures built on a dirty vector: one structure per case.
fn ranksel_case(c: &mut Case, which: usize, len: usize, pat: Pattern, g: Garbage, spare: usize) {
    let m = gen_bits(c.rng(), len, pat);
    let words = dirty_bit_words(c, &m, g, spare);
    let what = format!("BitVec::from_raw_parts({}, {}) (garbage {}, {} spare words) bits {}", trunc(&show_words(&words), 400), len, g.name(), spare, trunc(&show_bits(&m), 400));
    let ones: Vec<usize> = (0..len).filter(|&i| m[i]).collect();
    let zeros: Vec<usize> = (0..len).filter(|&i| !m[i]).collect();
    let mut prefix = vec![0usize; len + 1];
    for i in 0..len {
        prefix[i + 1] = prefix[i] + m[i] as usize;
    }
    let b = unsafe { BitVec::from_raw_parts(words, len) };
    let positions: Vec<usize> = if len <= 300 { (0..=len).collect() } else { (0..200).map(|_| c.rng().random_range(0..=len)).chain([0, len, len - 1]).collect() };
    match which {
        0 => {
            if let Some(r) = c.guard("Rank9::new", || Rank9::new(b)) {
                c.check("num_ones", r.num_ones() == ones.len() && r.num_zeros() == zeros.len(), || format!("Rank9 num_ones {} model {}; {}", r.num_ones(), ones.len(), what));
                for &p in &positions {
                    let (g1, g0) = (r.rank(p), r.rank_zero(p));
                    c.tick(1);
                    if g1 != prefix[p] || g0 != p - prefix[p] {
                        c.fail("rank", "mismatch", "", &format!("Rank9 over dirty storage: rank({}) = {} rank_zero = {}, model {} / {}; {}", p, g1, g0, prefix[p], p - prefix[p], what));
                        break;
                    }
                }
            }
        }
        1 => {
            if let Some(r) = c.guard("RankSmall::new", || sux::rank_small![2; b]) {
                c.check("num_ones", r.num_ones() == ones.len(), || format!("RankSmall num_ones {} model {}; {}", r.num_ones(), ones.len(), what));
                for &p in &positions {
                    let g1 = r.rank(p);
                    c.tick(1);
                    if g1 != prefix[p] {
                        c.fail("rank", "mismatch", "", &format!("RankSmall over dirty storage: rank({}) = {}, model {}; {}", p, g1, prefix[p], what));
                        break;
                    }
                }
            }
        }
        2 | 3 | 4 => {
            let nb: AddNumBits<_> = b.into();
            c.check("num_ones", nb.num_ones() == ones.len(), || format!("AddNumBits::from(dirty).num_ones() = {} model {}; {}", nb.num_ones(), ones.len(), what));
            let ranks: Vec<usize> = if ones.len() <= 300 { (0..ones.len()).collect() } else { (0..200).map(|_| c.rng().random_range(0..ones.len())).chain([0, ones.len() - 1]).collect() };
            let mut judge = |c: &mut Case, name: &str, sel: &dyn Fn(usize) -> Option<usize>| {
                for &r in &ranks {
                    let got = sel(r);
                    c.tick(1);
                    if got != Some(ones[r]) {
                        c.fail("select", "mismatch", "", &format!("{} over dirty storage: select({}) = {:?}, model {}; {}", name, r, got, ones[r], what));
                        return;
                    }
                }
                let got = sel(ones.len());
                c.check("select", got.is_none(), || format!("{} over dirty storage: select(num_ones = {}) = {:?}, expected None; {}", name, ones.len(), got, what));
            };
            match which {
                2 => {
                    if let Some(s) = c.guard("SelectAdapt::new", || SelectAdapt::new(nb, 3)) {
                        judge(c, "SelectAdapt", &|r| s.select(r));
                    }
                }
                3 => {
                    if let Some(s) = c.guard("SelectAdaptConst::new", || SelectAdaptConst::<_, _>::new(nb)) {
                        judge(c, "SelectAdaptConst", &|r| s.select(r));
                    }
                }
                _ => {
                    if let Some(s) = c.guard("SelectZeroAdapt::new", || SelectZeroAdapt::new(nb, 3)) {
                        let zr: Vec<usize> = if zeros.len() <= 300 { (0..zeros.len()).collect() } else { (0..200).map(|_| c.rng().random_range(0..zeros.len())).chain([0, zeros.len() - 1]).collect() };
                        for &r in &zr {
                            let got = s.select_zero(r);
                            c.tick(1);
                            if got != Some(zeros[r]) {
                                c.fail("select_zero", "mismatch", "", &format!("SelectZeroAdapt over dirty storage: select_zero({}) = {:?}, model {}; {}", r, got, zeros[r], what));
                                break;
                            }
                        }
                        let got = s.select_zero(zeros.len());
                        c.check("select_zero", got.is_none(), || format!("SelectZeroAdapt over dirty storage: select_zero(num_zeros = {}) = {:?}, expected None; {}", zeros.len(), got, what));
                    }
                }
            }
        }
        _ => {
            if let Some(s) = c.guard("Select9::new", || Select9::new(Rank9::new(b))) {
                c.check("num_ones", s.num_ones() == ones.len(), || format!("Select9 num_ones {} model {}; {}", s.num_ones(), ones.len(), what));
                for r in 0..ones.len().min(300) {
                    let got = s.select(r);
                    c.tick(1);
                    if got != Some(ones[r]) {
                        c.fail("select", "mismatch", "", &format!("Select9 over dirty storage: select({}) = {:?}, model {}; {}", r, got, ones[r], what));
                        break;
                    }
                }
                let got = s.select(ones.len());
                c.check("select", got.is_none(), || format!("Select9 over dirty storage: select(num_ones) = {:?}; {}", got, what));
                for &p in positions.iter().take(50) {
                    if s.rank(p) != prefix[p] {
                        c.fail("rank", "mismatch", "", &format!("Select9 over dirty storage: rank({}) = {}, model {}; {}", p, s.rank(p), prefix[p], what));
                        break;
                    }
                }
            }
        }
    }
    if len > 1 && (len % 64 != 0 || spare > 0) {
        c.nontrivial();
    }
    c.describe(|| what.clone());
}

const RANKSEL: [&str; 6] = ["Rank9", "RankSmall", "SelectAdapt", "SelectAdaptConst", "SelectZeroAdapt", "Select9"];
const BVOPS: [&str; 7] = ["set", "fill", "par_fill", "flip", "par_flip", "reset", "par_reset"];
const ABVOPS: [&str; 8] = ["set", "swap", "fill", "par_fill", "flip", "par_flip", "reset", "par_reset"];

fn bitvec_write(c: &mut Case, kind: usize, atomic: bool, len: usize, g: Garbage, spare: usize, canary: bool) {
    let len = len.max(1);
    let pat = [Pattern::Density(0.5), Pattern::Density(1.0), Pattern::Density(0.0), Pattern::Runs(10)][c.rng().random_range(0..4)];
    let m = gen_bits(c.rng(), len, pat);
    let words = dirty_bit_words(c, &m, g, spare);
    let nwords = words.len();
    let opname = if atomic { format!("atomic_{}", ABVOPS[kind]) } else { BVOPS[kind].to_string() };
    let base = if atomic { ABVOPS[kind] } else { BVOPS[kind] };
    // model effect + allowed range
    let mut m2 = m.clone();
    let mut allowed = vec![];
    let i = if c.rng().random_bool(0.5) { len - 1 } else { c.rng().random_range(0..len) };
    let v = c.rng().random_bool(0.5);
    match base {
        "set" | "swap" => {
            m2[i] = v;
            allowed.push((i, i + 1));
        }
        "fill" | "par_fill" => {
            m2.iter_mut().for_each(|x| *x = v);
            allowed.push((0, len));
        }
        "flip" | "par_flip" => {
            m2.iter_mut().for_each(|x| *x = !*x);
            allowed.push((0, len));
        }
        _ => {
            m2.iter_mut().for_each(|x| *x = false);
            allowed.push((0, len));
        }
    }
    let what = format!("{} len {} over {} storage {} (garbage {}, {} spare words{}); bits {}; op {}({}, {})", if atomic { "AtomicBitVec" } else { "BitVec" }, len, if canary { "&mut [usize]" } else { "Vec" }, show_words(&words), g.name(), spare, if canary { ", canary words around" } else { "" }, show_bits(&m), opname, i, v);
    let o = Ordering::SeqCst;
    let (before, after, off): (Vec<usize>, Vec<usize>, usize);
    let mut swapped = None;
    let got: Vec<bool>;
    if atomic {
        before = words.clone();
        off = 0;
        let mut a: AtomicBitVec = unsafe { BitVec::from_raw_parts(words.clone(), len) }.into();
        match base {
            "set" => a.set(i, v, o),
            "swap" => swapped = Some(a.swap(i, v, o)),
            "fill" => a.fill(v, o),
            "par_fill" => a.par_fill(v, o),
            "flip" => a.flip(o),
            "par_flip" => a.par_flip(o),
            "reset" => a.reset(o),
            _ => a.par_reset(o),
        }
        got = (0..len).map(|j| a.get(j, o)).collect();
        let b: BitVec = a.into();
        let (w, l) = b.into_raw_parts();
        c.check(&opname, l == len, || format!("len changed to {}; {}", l, what));
        after = w;
    } else if canary {
        let mut buf: Vec<usize> = (0..CANARY).map(canary_word::<usize>).collect();
        buf.extend_from_slice(&words);
        buf.extend((0..CANARY).map(|k| canary_word::<usize>(k + 5)));
        before = buf.clone();
        off = CANARY;
        {
            let mut b = unsafe { BitVec::<&mut [usize]>::from_raw_parts(&mut buf[CANARY..CANARY + nwords], len) };
            match base {
                "set" => b.set(i, v),
                "fill" => b.fill(v),
                "par_fill" => b.par_fill(v),
                "flip" => b.flip(),
                "par_flip" => b.par_flip(),
                "reset" => b.reset(),
                _ => b.par_reset(),
            }
            got = (0..len).map(|j| b.get(j)).collect();
        }
        after = buf;
    } else {
        before = words.clone();
        off = 0;
        let mut b = unsafe { BitVec::from_raw_parts(words.clone(), len) };
        match base {
            "set" => b.set(i, v),
            "fill" => b.fill(v),
            "par_fill" => b.par_fill(v),
            "flip" => b.flip(),
            "par_flip" => b.par_flip(),
            "reset" => b.reset(),
            _ => b.par_reset(),
        }
        got = (0..len).map(|j| b.get(j)).collect();
        let (w, l) = b.into_raw_parts();
        c.check(&opname, l == len, || format!("len changed to {}; {}", l, what));
        after = w;
    }
    if let Some(old) = swapped {
        c.check(&opname, old == m[i], || format!("swap returned {} but the bit was {}; {}", old, m[i], what));
    }
    c.tick(len as u64);
    c.check(&opname, got == m2, || format!("contents after the operation differ from the model at {:?}; {}", got.iter().zip(m2.iter()).position(|(a, b)| a != b), what));
    check_outside::<usize>(c, &opname, &before, &after, off, nwords, len, &allowed, &what);
    if len % 64 != 0 || spare > 0 {
        c.nontrivial();
    }
    c.describe(|| what.clone());
}

// ---------------------------------------------------------------------------

fn run<W: C14Word>(ctx: &mut Ctx) {
    let bits = bits_of::<W>();
    let v = vname::<W>();
    let all_widths = ctx.thorough() && !ctx.small;
    let widths: Vec<usize> = if ctx.small { vec![1, 3, 4, bits / 2 + 1, bits - 4, bits - 1, bits] } else { widths_for(bits, all_widths).into_iter().filter(|w| *w > 0).collect() };
    let maxlen_cap = ctx.scale(30, 200, 300);
    let maxlen_for = |width: usize| -> usize { ((bits / width.max(1)).max(1) * 4 + 3).min(maxlen_cap) };
    let reps = ctx.scale(1, 2, 4);
    for (wi, &width) in widths.iter().enumerate() {
        let wc = width_class(width, bits);
        // reads: every garbage kind x spare 0..=3
        for (gi, g) in Garbage::ALL.iter().enumerate() {
            for spare in 0..=3usize {
                if ctx.small && (gi + spare + wi) % 4 != 0 {
                    continue;
                }
                for _ in 0..reps {
                    ctx.case(&v, &format!("read/{}/{}", wc, if spare > 0 { "spare" } else { "nospare" }), "reads", |c| {
                        c.set_cell(format!("{}|read|w{}|{}|+{}w", vname::<W>(), width, g.name(), spare));
                        read_case::<W>(c, width, *g, spare, maxlen_for(width));
                    });
                }
            }
        }
        // writes: every operation x garbage kind, spare and canary rotating
        for kind in 0..WOPS.len() {
            for (gi, g) in Garbage::ALL.iter().enumerate() {
                for rep in 0..ctx.scale(1, 2, 4) {
                    if ctx.small && (gi + kind + wi) % 3 != 0 {
                        continue;
                    }
                    let spare = (kind + gi + rep + wi) % 4;
                    let canary = (kind + gi + rep) % 2 == 1;
                    ctx.case(&v, &format!("write/{}/{}/{}", WOPS[kind], wc, if spare > 0 { "spare" } else { "nospare" }), WOPS[kind], |c| {
                        c.set_cell(format!("{}|write|{}|w{}|{}|+{}w|{}", vname::<W>(), WOPS[kind], width, g.name(), spare, if canary { "canary" } else { "vec" }));
                        write_case::<W>(c, width, kind, *g, spare, canary, maxlen_for(width));
                    });
                }
            }
        }
        // growth over dirty storage (Vec backend): resize with zero / a value, push, extend
        for kind in 0..GOPS.len() {
            for (gi, g) in Garbage::ALL.iter().enumerate() {
                for rep in 0..ctx.scale(1, 2, 4) {
                    if ctx.small && (gi + kind + wi) % 3 != 0 {
                        continue;
                    }
                    let spare = 1 + (kind + gi + rep + wi) % 3;
                    ctx.case(&v, &format!("write/{}/{}/spare", GOPS[kind], wc), GOPS[kind], |c| {
                        c.set_cell(format!("{}|grow|{}|w{}|{}|+{}w", vname::<W>(), GOPS[kind], width, g.name(), spare));
                        grow_case::<W>(c, width, kind, *g, spare, maxlen_for(width));
                    });
                }
            }
        }
        if W::ATOMIC {
            for kind in 0..AOPS.len() {
                for (gi, g) in Garbage::ALL.iter().enumerate() {
                    if ctx.small && (gi + kind + wi) % 3 != 0 {
                        continue;
                    }
                    let spare = (kind + gi + wi) % 4;
                    ctx.case(&format!("AtomicBitFieldVec<{}>", W::NAME), &format!("write/{}/{}/{}", AOPS[kind], wc, if spare > 0 { "spare" } else { "nospare" }), AOPS[kind], |c| {
                        c.set_cell(format!("AtomicBitFieldVec<{}>|write|{}|w{}|{}|+{}w", W::NAME, AOPS[kind], width, g.name(), spare));
                        W::atomic_write_case(c, width, kind, *g, spare, maxlen_for(width));
                    });
                }
            }
        }
    }
}

fn random_round<W: C14Word>(ctx: &mut Ctx, r: u64) {
    let bits = bits_of::<W>();
    let v = vname::<W>();
    let mut gr = ctx.rng(r.wrapping_mul(15485863) ^ (bits as u64) << 24 ^ (W::NAME.len() as u64) << 44);
    let width = match gr.random_range(0..8) {
        0 => bits,
        1 => bits - 1,
        _ => gr.random_range(1..=bits),
    };
    let wc = width_class(width, bits);
    let maxlen = ((bits / width).max(1) * 5 + 3).min(250);
    let g = Garbage::ALL[gr.random_range(0..3)];
    let spare = gr.random_range(0..4usize);
    ctx.case(&v, &format!("read/{}/{}", wc, if spare > 0 { "spare" } else { "nospare" }), "reads", |c| {
        c.set_cell(format!("{}|read|w{}|{}|+{}w", vname::<W>(), width, g.name(), spare));
        read_case::<W>(c, width, g, spare, maxlen);
    });
    for _ in 0..2 {
        let kind = gr.random_range(0..WOPS.len());
        let spare = gr.random_range(0..4usize);
        let canary = gr.random_bool(0.5);
        ctx.case(&v, &format!("write/{}/{}/{}", WOPS[kind], wc, if spare > 0 { "spare" } else { "nospare" }), WOPS[kind], |c| {
            c.set_cell(format!("{}|write|{}|w{}|{}|+{}w|{}", vname::<W>(), WOPS[kind], width, g.name(), spare, if canary { "canary" } else { "vec" }));
            write_case::<W>(c, width, kind, g, spare, canary, maxlen);
        });
    }
    if W::ATOMIC {
        let kind = gr.random_range(0..AOPS.len());
        ctx.case(&format!("AtomicBitFieldVec<{}>", W::NAME), &format!("write/{}/{}/{}", AOPS[kind], wc, if spare > 0 { "spare" } else { "nospare" }), AOPS[kind], |c| {
            c.set_cell(format!("AtomicBitFieldVec<{}>|write|{}|w{}|{}|+{}w", W::NAME, AOPS[kind], width, g.name(), spare));
            W::atomic_write_case(c, width, kind, g, spare, maxlen);
        });
    }
}

fn main() {
    let mut ctx = Ctx::from_args("C14");
    ctx.set_hang_limit(120);
    run::<u8>(&mut ctx);
    run::<u16>(&mut ctx);
    run::<u32>(&mut ctx);
    run::<u64>(&mut ctx);
    run::<usize>(&mut ctx);
    run::<u128>(&mut ctx);

    // BitVec / AtomicBitVec
    let pats = [Pattern::Density(0.5), Pattern::Density(0.0), Pattern::Density(1.0), Pattern::Runs(20), Pattern::Single(1)];
    let nlen = ctx.scale(8, 21, 30);
    for (li, &len) in LEN_EDGES.iter().take(nlen).enumerate() {
        for (gi, g) in Garbage::ALL.iter().enumerate() {
            for spare in 0..=3usize {
                if ctx.small && (li + gi + spare) % 5 != 0 {
                    continue;
                }
                let pat = pats[(li + gi + spare) % pats.len()];
                ctx.case("BitVec", &format!("read/{}", if spare > 0 { "spare" } else { "nospare" }), "reads", |c| {
                    c.set_cell(format!("BitVec|read|len{}|{}|+{}w", len, g.name(), spare));
                    bitvec_reads(c, len, pat, *g, spare);
                });
            }
        }
        // writers
        for kind in 0..BVOPS.len() {
            for (gi, g) in Garbage::ALL.iter().enumerate() {
                if ctx.small && (li + gi + kind) % 5 != 0 {
                    continue;
                }
                let spare = (li + gi + kind) % 4;
                let canary = (li + gi + kind) % 2 == 0;
                ctx.case("BitVec", &format!("write/{}/{}", BVOPS[kind], if spare > 0 { "spare" } else { "nospare" }), BVOPS[kind], |c| {
                    c.set_cell(format!("BitVec|write|{}|len{}|{}|+{}w|{}", BVOPS[kind], len, g.name(), spare, if canary { "canary" } else { "vec" }));
                    bitvec_write(c, kind, false, len, *g, spare, canary);
                });
            }
        }
        for kind in 0..ABVOPS.len() {
            for (gi, g) in Garbage::ALL.iter().enumerate() {
                if ctx.small && (li + gi + kind) % 5 != 0 {
                    continue;
                }
                let spare = (li + gi + kind) % 4;
                ctx.case("AtomicBitVec", &format!("write/{}/{}", ABVOPS[kind], if spare > 0 { "spare" } else { "nospare" }), &format!("atomic_{}", ABVOPS[kind]), |c| {
                    c.set_cell(format!("AtomicBitVec|write|{}|len{}|{}|+{}w", ABVOPS[kind], len, g.name(), spare));
                    bitvec_write(c, kind, true, len, *g, spare, false);
                });
            }
        }
    }
    // rank/select structures over dirty vectors, one structure per case
    let rs_lens: Vec<usize> = if ctx.small { vec![1, 65, 200] } else { vec![1, 63, 64, 65, 100, 511, 512, 513, 1000, 2049, 5000, 70_000] };
    for (li, &len) in rs_lens.iter().enumerate() {
        for which in 0..RANKSEL.len() {
            for (gi, g) in Garbage::ALL.iter().enumerate() {
                if ctx.small && (li + gi + which) % 3 != 0 {
                    continue;
                }
                let spare = 1 + (li + gi + which) % 3;
                let pat = [Pattern::Density(0.5), Pattern::Density(0.02), Pattern::Density(1.0), Pattern::Density(0.0), Pattern::Runs(30)][(li + which + gi) % 5];
                ctx.case(&format!("{}<BitVec>", RANKSEL[which]), &format!("read/ranksel/{}", g.name()), &format!("{}_on_dirty", RANKSEL[which]), |c| {
                    c.set_cell(format!("{}|len{}|{}|+{}w|{}", RANKSEL[which], len, g.name(), spare, pat.name()));
                    ranksel_case(c, which, len, pat, *g, spare);
                });
            }
        }
    }

    // random rounds on top
    let rounds = ctx.scale(0, 25000, 50000) as u64;
    // ASan runs about four times slower: a quarter of the random rounds
    let rounds = if ctx.build == "ASAN" { rounds / 4 } else { rounds };
    for r in 0..rounds {
        random_round::<u8>(&mut ctx, r);
        random_round::<u16>(&mut ctx, r);
        random_round::<u32>(&mut ctx, r);
        random_round::<u64>(&mut ctx, r);
        random_round::<usize>(&mut ctx, r);
        random_round::<u128>(&mut ctx, r);
        let mut gr = ctx.rng(r ^ 0xB17);
        let g = Garbage::ALL[gr.random_range(0..3)];
        let spare = gr.random_range(0..4usize);
        let len = if gr.random_bool(0.5) { 64 * gr.random_range(0..10usize) + [0usize, 1, 63][gr.random_range(0..3)] } else { gr.random_range(0..700usize) };
        let pat = [Pattern::Density(0.5), Pattern::Density(0.03), Pattern::Density(0.97), Pattern::Runs(40)][gr.random_range(0..4)];
        ctx.case("BitVec", &format!("read/{}", if spare > 0 { "spare" } else { "nospare" }), "reads", |c| {
            c.set_cell(format!("BitVec|read|random|{}|+{}w|{}", g.name(), spare, pat.name()));
            bitvec_reads(c, len, pat, g, spare);
        });
        let kind = gr.random_range(0..BVOPS.len());
        let canary = gr.random_bool(0.5);
        ctx.case("BitVec", &format!("write/{}/{}", BVOPS[kind], if spare > 0 { "spare" } else { "nospare" }), BVOPS[kind], |c| {
            c.set_cell(format!("BitVec|write|{}|random|{}|+{}w|{}", BVOPS[kind], g.name(), spare, if canary { "canary" } else { "vec" }));
            bitvec_write(c, kind, false, len, g, spare, canary);
        });
        let kind = gr.random_range(0..ABVOPS.len());
        ctx.case("AtomicBitVec", &format!("write/{}/{}", ABVOPS[kind], if spare > 0 { "spare" } else { "nospare" }), &format!("atomic_{}", ABVOPS[kind]), |c| {
            c.set_cell(format!("AtomicBitVec|write|{}|random|{}|+{}w", ABVOPS[kind], g.name(), spare));
            bitvec_write(c, kind, true, len, g, spare, false);
        });
        if ctx.out_of_time() {
            break;
        }
    }
    ctx.finish();
}
