//! C01 — rank(p) is the exact prefix popcount for every vector and rank
//! structure, alone or underneath any stack of selection wrappers.
//!
//! Oracle: the generator's own `Vec<bool>` (naive prefix sums) — for the
//! 2^32-bit stratum the harness's own copy of the words with sampled prefix
//! counts. Observed through the public traits only: `rank`, `rank_zero`,
//! `num_ones`/`num_zeros`, `count_ones`/`count_zeros`, `len`, `Index`.
//! A panic in a constructor or in a query is a violation.
#[path = "common/rank_sel.rs"]
mod rs;

use rand::Rng;
use rs::*;
use std::ops::Index;
use sux::bits::BitVec;
use sux::rank_sel::{Rank9, RankSmall, Select9, SelectAdapt, SelectAdaptConst, SelectSmall, SelectZeroAdapt, SelectZeroAdaptConst, SelectZeroSmall};
use sux::traits::{AddNumBits, BitCount, NumBits, RankZero};
use suxmon::gen::*;
use suxmon::obs::*;

type BV = BitVec<Vec<usize>>;

// ---------------------------------------------------------------------------
// variants

const RANK_NAMES: [&str; 6] = ["Rank9", "RankSmall<2,9>", "RankSmall<1,9>", "RankSmall<1,10>", "RankSmall<1,11>", "RankSmall<3,13>"];

#[derive(Clone, Copy, PartialEq, Debug)]
enum Stack {
    // every rank structure
    Bare,
    Ref,
    Boxed,
    RefBackend,
    AddNumBitsBackend,
    SelAdapt,
    SelAdaptConst,
    SelZeroAdaptSelAdapt,
    SelZeroAdaptConstSelAdaptConst,
    SelAdaptSelZeroAdapt,
    RankOverSelAdapt,
    // Rank9 only
    Select9,
    SelZeroAdaptSelect9,
    Select9OverSelZeroAdapt,
    // RankSmall only
    SelSmall,
    SelZeroSmallSelSmall,
    SelSmallSelZeroSmall,
    SelAdaptSelZeroSmallSelSmall,
    // no rank structure at all: counts, len and indexing only
    NoRankAddNumBits,
    NoRankSelAdapt,
    NoRankSelZeroAdaptSelAdapt,
    NoRankSelAdaptConst,
}

const STACKS_ALL6: [Stack; 11] = [
    Stack::Bare,
    Stack::Ref,
    Stack::Boxed,
    Stack::RefBackend,
    Stack::AddNumBitsBackend,
    Stack::SelAdapt,
    Stack::SelAdaptConst,
    Stack::SelZeroAdaptSelAdapt,
    Stack::SelZeroAdaptConstSelAdaptConst,
    Stack::SelAdaptSelZeroAdapt,
    Stack::RankOverSelAdapt,
];

#[derive(Clone, Debug)]
struct Variant {
    name: String,
    stack: Stack,
    r: usize, // 0 = Rank9, 1..=5 = rank_small![r-1]
}

fn variant_name(stack: Stack, r: usize) -> String {
    let n = RANK_NAMES[r];
    match stack {
        Stack::Bare => n.to_string(),
        Stack::Ref => format!("&{}", n),
        Stack::Boxed => format!("Box<{}>", n),
        Stack::RefBackend => format!("{}(&BitVec)", n),
        Stack::AddNumBitsBackend => format!("{}(AddNumBits(BitVec))", n),
        Stack::SelAdapt => format!("SelectAdapt({})", n),
        Stack::SelAdaptConst => format!("SelectAdaptConst({})", n),
        Stack::SelZeroAdaptSelAdapt => format!("SelectZeroAdapt(SelectAdapt({}))", n),
        Stack::SelZeroAdaptConstSelAdaptConst => format!("SelectZeroAdaptConst(SelectAdaptConst({}))", n),
        Stack::SelAdaptSelZeroAdapt => format!("SelectAdapt(SelectZeroAdapt({}))", n),
        Stack::RankOverSelAdapt => format!("{}(SelectAdapt(AddNumBits(BitVec)))", n),
        Stack::Select9 => "Select9(Rank9)".into(),
        Stack::SelZeroAdaptSelect9 => "SelectZeroAdapt(Select9(Rank9))".into(),
        Stack::Select9OverSelZeroAdapt => "Select9(Rank9(SelectZeroAdapt(AddNumBits(BitVec))))".into(),
        Stack::SelSmall => format!("SelectSmall({})", n),
        Stack::SelZeroSmallSelSmall => format!("SelectZeroSmall(SelectSmall({}))", n),
        Stack::SelSmallSelZeroSmall => format!("SelectSmall(SelectZeroSmall({}))", n),
        Stack::SelAdaptSelZeroSmallSelSmall => format!("SelectAdapt(SelectZeroSmall(SelectSmall({})))", n),
        Stack::NoRankAddNumBits => "AddNumBits(BitVec)".into(),
        Stack::NoRankSelAdapt => "SelectAdapt(AddNumBits(BitVec))".into(),
        Stack::NoRankSelZeroAdaptSelAdapt => "SelectZeroAdapt(SelectAdapt(AddNumBits(BitVec)))".into(),
        Stack::NoRankSelAdaptConst => "SelectAdaptConst(AddNumBits(BitVec))".into(),
    }
}

fn all_variants() -> Vec<Variant> {
    let mut v = Vec::new();
    let mut add = |stack: Stack, r: usize| v.push(Variant { name: variant_name(stack, r), stack, r });
    for r in 0..6 {
        add(Stack::Bare, r);
    }
    for &s in &STACKS_ALL6[1..] {
        for r in 0..6 {
            add(s, r);
        }
    }
    add(Stack::Select9, 0);
    add(Stack::SelZeroAdaptSelect9, 0);
    add(Stack::Select9OverSelZeroAdapt, 0);
    for s in [Stack::SelSmall, Stack::SelZeroSmallSelSmall, Stack::SelSmallSelZeroSmall, Stack::SelAdaptSelZeroSmallSelSmall] {
        for r in 1..6 {
            add(s, r);
        }
    }
    add(Stack::NoRankAddNumBits, 0);
    add(Stack::NoRankSelAdapt, 0);
    add(Stack::NoRankSelZeroAdaptSelAdapt, 0);
    add(Stack::NoRankSelAdaptConst, 0);
    v
}

// ---------------------------------------------------------------------------
// the checks every variant goes through

struct Q<'a> {
    e: Env<'a>,
    pos: &'a [usize],
    idx: &'a [usize],
    /// a Rank9 whose backend has at least one bit beyond the length (Rank9 documents rank_unchecked(len) as valid then)
    spare_bit: bool,
}

fn full<S>(c: &mut Case, s: &S, q: &Q)
where
    S: RankZero + BitCount + Index<usize, Output = bool>,
{
    obs_counts(c, s, &q.e);
    obs_rank(c, s, &q.e, q.pos);
    obs_rank_unchecked(c, s, &q.e, q.pos, q.spare_bit);
    obs_index(c, s, &q.e, q.idx);
}

fn noindex<S>(c: &mut Case, s: &S, q: &Q)
where
    S: RankZero + BitCount + ?Sized,
{
    obs_counts(c, s, &q.e);
    obs_rank(c, s, &q.e, q.pos);
    obs_rank_unchecked(c, s, &q.e, q.pos, q.spare_bit);
}

fn norank<S>(c: &mut Case, s: &S, q: &Q)
where
    S: NumBits + BitCount + Index<usize, Output = bool>,
{
    obs_counts(c, s, &q.e);
    obs_index(c, s, &q.e, q.idx);
}

macro_rules! for_rank6 {
    ($k:expr, $cb:ident ! ( $($pre:tt)* )) => {
        match $k {
            0 => $cb!($($pre)* (Rank9::new)),
            1 => $cb!($($pre)* (RankSmall::<2, 9, _, _, _>::new)),
            2 => $cb!($($pre)* (RankSmall::<1, 9, _, _, _>::new)),
            3 => $cb!($($pre)* (RankSmall::<1, 10, _, _, _>::new)),
            4 => $cb!($($pre)* (RankSmall::<1, 11, _, _, _>::new)),
            _ => $cb!($($pre)* (RankSmall::<3, 13, _, _, _>::new)),
        }
    };
}

macro_rules! for_small5 {
    ($k:expr, $cb:ident ! ( $($pre:tt)* )) => {
        match $k {
            1 => $cb!($($pre)* 2, 9),
            2 => $cb!($($pre)* 1, 9),
            3 => $cb!($($pre)* 1, 10),
            4 => $cb!($($pre)* 1, 11),
            _ => $cb!($($pre)* 3, 13),
        }
    };
}

macro_rules! built {
    ($c:ident, $q:ident, $chk:ident, $build:expr) => {
        if let Some(s) = guarded_new($c, $q.e.what, move || $build) {
            $chk($c, &s, $q);
        }
    };
}

macro_rules! v_bare {
    ($c:ident, $bv:ident, $q:ident, $ctor:tt) => {
        built!($c, $q, full, $ctor($bv))
    };
}
macro_rules! v_ref {
    ($c:ident, $bv:ident, $q:ident, $ctor:tt) => {
        if let Some(s) = guarded_new($c, $q.e.what, move || $ctor($bv)) {
            let r = &s;
            noindex($c, &r, $q); // S = &T
            obs_index($c, r, &$q.e, $q.idx);
        }
    };
}
macro_rules! v_boxed {
    ($c:ident, $bv:ident, $q:ident, $ctor:tt) => {
        if let Some(s) = guarded_new($c, $q.e.what, move || Box::new($ctor($bv))) {
            noindex($c, &s, $q); // S = Box<T>
            obs_index($c, &*s, &$q.e, $q.idx);
        }
    };
}
macro_rules! v_refbackend {
    ($c:ident, $bv:ident, $q:ident, $ctor:tt) => {{
        let b = &$bv;
        if let Some(s) = guarded_new($c, $q.e.what, || $ctor(b)) {
            noindex($c, &s, $q);
        }
    }};
}
macro_rules! v_addnumbits {
    ($c:ident, $bv:ident, $q:ident, $ctor:tt) => {
        built!($c, $q, full, $ctor(AddNumBits::from($bv)))
    };
}
macro_rules! v_seladapt {
    ($c:ident, $bv:ident, $q:ident, $ctor:tt) => {
        built!($c, $q, full, SelectAdapt::new($ctor($bv), 3))
    };
}
macro_rules! v_seladaptconst {
    ($c:ident, $bv:ident, $q:ident, $ctor:tt) => {
        built!($c, $q, full, SelectAdaptConst::<_, _>::new($ctor($bv)))
    };
}
macro_rules! v_selzero_seladapt {
    ($c:ident, $bv:ident, $q:ident, $ctor:tt) => {
        built!($c, $q, full, SelectZeroAdapt::new(SelectAdapt::new($ctor($bv), 3), 3))
    };
}
macro_rules! v_selzeroconst_seladaptconst {
    ($c:ident, $bv:ident, $q:ident, $ctor:tt) => {
        built!($c, $q, full, SelectZeroAdaptConst::<_, _>::new(SelectAdaptConst::<_, _>::new($ctor($bv))))
    };
}
macro_rules! v_seladapt_selzero {
    ($c:ident, $bv:ident, $q:ident, $ctor:tt) => {
        built!($c, $q, full, SelectAdapt::new(SelectZeroAdapt::new($ctor($bv), 3), 3))
    };
}
macro_rules! v_rank_over_sel {
    ($c:ident, $bv:ident, $q:ident, $ctor:tt) => {
        built!($c, $q, full, $ctor(SelectAdapt::new(AddNumBits::from($bv), 3)))
    };
}
macro_rules! v_selsmall {
    ($c:ident, $bv:ident, $q:ident, $n:literal, $w:literal) => {
        built!($c, $q, full, SelectSmall::<$n, $w, _>::new(RankSmall::<$n, $w, _, _, _>::new($bv)))
    };
}
macro_rules! v_selzerosmall_selsmall {
    ($c:ident, $bv:ident, $q:ident, $n:literal, $w:literal) => {
        built!($c, $q, full, SelectZeroSmall::<$n, $w, _>::new(SelectSmall::<$n, $w, _>::new(RankSmall::<$n, $w, _, _, _>::new($bv))))
    };
}
macro_rules! v_selsmall_selzerosmall {
    ($c:ident, $bv:ident, $q:ident, $n:literal, $w:literal) => {
        built!($c, $q, full, SelectSmall::<$n, $w, _>::new(SelectZeroSmall::<$n, $w, _>::new(RankSmall::<$n, $w, _, _, _>::new($bv))))
    };
}
macro_rules! v_seladapt_selzerosmall_selsmall {
    ($c:ident, $bv:ident, $q:ident, $n:literal, $w:literal) => {
        built!(
            $c,
            $q,
            full,
            SelectAdapt::new(SelectZeroSmall::<$n, $w, _>::new(SelectSmall::<$n, $w, _>::new(RankSmall::<$n, $w, _, _, _>::new($bv))), 3)
        )
    };
}

/// Builds variant `v` over `bv` (constructor guarded: a panic is a violation
/// with op `new`) and runs all checks against the model in `q`.
fn run_variant(c: &mut Case, v: &Variant, bv: BV, q: &Q) {
    match v.stack {
        Stack::Bare => for_rank6!(v.r, v_bare!(c, bv, q,)),
        Stack::Ref => for_rank6!(v.r, v_ref!(c, bv, q,)),
        Stack::Boxed => for_rank6!(v.r, v_boxed!(c, bv, q,)),
        Stack::RefBackend => for_rank6!(v.r, v_refbackend!(c, bv, q,)),
        Stack::AddNumBitsBackend => for_rank6!(v.r, v_addnumbits!(c, bv, q,)),
        Stack::SelAdapt => for_rank6!(v.r, v_seladapt!(c, bv, q,)),
        Stack::SelAdaptConst => for_rank6!(v.r, v_seladaptconst!(c, bv, q,)),
        Stack::SelZeroAdaptSelAdapt => for_rank6!(v.r, v_selzero_seladapt!(c, bv, q,)),
        Stack::SelZeroAdaptConstSelAdaptConst => for_rank6!(v.r, v_selzeroconst_seladaptconst!(c, bv, q,)),
        Stack::SelAdaptSelZeroAdapt => for_rank6!(v.r, v_seladapt_selzero!(c, bv, q,)),
        Stack::RankOverSelAdapt => for_rank6!(v.r, v_rank_over_sel!(c, bv, q,)),
        Stack::Select9 => built!(c, q, full, Select9::new(Rank9::new(bv))),
        Stack::SelZeroAdaptSelect9 => built!(c, q, full, SelectZeroAdapt::new(Select9::new(Rank9::new(bv)), 3)),
        Stack::Select9OverSelZeroAdapt => built!(c, q, full, Select9::new(Rank9::new(SelectZeroAdapt::new(AddNumBits::from(bv), 3)))),
        Stack::SelSmall => for_small5!(v.r, v_selsmall!(c, bv, q,)),
        Stack::SelZeroSmallSelSmall => for_small5!(v.r, v_selzerosmall_selsmall!(c, bv, q,)),
        Stack::SelSmallSelZeroSmall => for_small5!(v.r, v_selsmall_selzerosmall!(c, bv, q,)),
        Stack::SelAdaptSelZeroSmallSelSmall => for_small5!(v.r, v_seladapt_selzerosmall_selsmall!(c, bv, q,)),
        Stack::NoRankAddNumBits => built!(c, q, norank, AddNumBits::from(bv)),
        Stack::NoRankSelAdapt => built!(c, q, norank, SelectAdapt::new(AddNumBits::from(bv), 3)),
        Stack::NoRankSelZeroAdaptSelAdapt => built!(c, q, norank, SelectZeroAdapt::new(SelectAdapt::new(AddNumBits::from(bv), 3), 3)),
        Stack::NoRankSelAdaptConst => built!(c, q, norank, SelectAdaptConst::<_, _>::new(AddNumBits::from(bv))),
    }
}

// ---------------------------------------------------------------------------
// cases

/// One vector of a small-model case: generate, build, check.
fn one_vector(c: &mut Case, v: &Variant, len: usize, p: Pat, tail: Tail, nrand: usize, desc: &mut String) -> bool {
    let bits = gen_bits(c.rng(), len, p.pattern());
    let m = SmallModel::new(bits);
    let bv = bitvec_with_tail(c.rng(), &m.bits, tail);
    let pos = rank_positions(c.rng(), len, nrand);
    let idx = index_positions(c.rng(), len, nrand);
    let vname = &v.name;
    let what = || format!("structure {} over len={} pattern={} tail={}: bits {}", vname, len, p.name(), tail.name(), m.show());
    let q = Q { e: Env { m: &m, what: &what }, pos: &pos, idx: &idx, spare_bit: v.name.contains("Rank9") && bv.as_ref().len() * 64 > sux::traits::BitLength::len(&bv) };
    // the ranking primitive of the bit vector itself (what the counters of every structure are
    // completed with): any valid hint, however far back, gives the prefix count
    if len > 0 && (len >= 1088 || c.rng().random_range(0..8u32) == 0) {
        use sux::traits::RankHinted;
        let r = catch(|| {
            // the largest positions first: far hints need long vectors
            let mut ps: Vec<usize> = pos.iter().copied().filter(|&p| p < len).collect();
            ps.sort_unstable_by(|a, b| b.cmp(a));
            ps.dedup();
            for &p in ps.iter().take(60) {
                let hw = match p % 3 {
                    0 => 0,
                    1 => p / 64,
                    _ => (p / 64) * (p % 7) / 7,
                };
                let hint_rank = m.rank(hw * 64);
                let got = unsafe { RankHinted::<64>::rank_hinted(&bv, p, hw, hint_rank) };
                if got != m.rank(p) {
                    return Some(format!("BitVec::rank_hinted({}, {}, {}) = {}, model {}", p, hw, hint_rank, got, m.rank(p)));
                }
            }
            None
        });
        match r {
            Ok(None) => {}
            Ok(Some(d)) => c.fail("rank_hinted", "mismatch", "", &format!("{}; {}", d, what())),
            Err(msg) => c.fail("rank_hinted", "panic", &msg, &format!("BitVec::rank_hinted panicked; {}", what())),
        }
    }
    run_variant(c, v, bv, &q);
    if c.want_input {
        desc.push_str(&format!("[len={} pattern={} tail={} bits={}] ", len, p.name(), tail.name(), m.show()));
    }
    m.has_both() || (p.saturated() && len >= 512)
}

fn stratum_case(run: &mut Runner, v: &Variant, class: &str, lens: &[usize], p: Pat, tail: Tail, nrand: usize) {
    let stratum = if tail == Tail::Fresh { format!("{}/{}/tail=fresh", class, p.name()) } else { format!("stale/tail={}/{}/{}", tail.name(), class, p.name()) };
    run.case(&v.name, &stratum, "rank", |c| {
        let mut desc = String::new();
        let mut nt = false;
        for &len in lens {
            nt |= one_vector(c, v, len, p, tail, nrand, &mut desc);
        }
        if nt {
            c.nontrivial();
        }
        c.describe(|| desc);
    });
}

fn len_in_class(c: &mut Case, class: usize) -> usize {
    // random length classes of the random rounds
    let max = [4096usize, 1 << 17, 1 << 20, 1 << 24][class];
    let min = [0usize, 4097, (1 << 17) + 1, (1 << 20) + 1][class];
    let r = c.rng().random_range(0..10);
    let len = c.rng().random_range(min..=max);
    match r {
        // on and around multiples of the block sizes
        0..=2 => {
            let unit = [64usize, 512, 1024, 2048, 8192][c.rng().random_range(0..5)];
            let k = (len / unit).max(if min == 0 { 0 } else { 1 });
            let base = k * unit;
            let d = c.rng().random_range(0..3usize);
            (base + d).saturating_sub(1).clamp(min, max)
        }
        _ => len,
    }
}

const RAND_CLASS_NAMES: [&str; 4] = ["rand<=4096", "rand<=2^17", "rand<=2^20", "rand<=2^24"];

fn main() {
    let ctx = Ctx::from_args("C01");
    ctx.set_hang_limit(if ctx.thorough() { 900 } else { 300 });
    let small = ctx.small;
    let thorough = ctx.thorough();
    // multi-GB vectors: release build only; quick runs a third of the thorough cases
    let big = !small && ctx.build == "UBC";
    let mut run = Runner::new(ctx);
    let variants = all_variants();
    let nbare = 6;

    if small {
        // Miri / valgrind: every variant once, short vectors, few positions
        let pats = [pat("dens0.5"), pat("blockalt64"), pat("runs40"), pat("dens1")];
        let lens = [129usize, 512, 577, 1025, 2049];
        let tails = [Tail::Fresh, Tail::Popped, Tail::DirtyRandom(1)];
        for (i, v) in variants.iter().flat_map(|v| [v, v, v]).enumerate() {
            let p = pats[i % pats.len()];
            let len = lens[i % lens.len()];
            let tail = tails[i % tails.len()];
            let stratum = if tail == Tail::Fresh { format!("small/{}/tail=fresh", p.name()) } else { format!("stale/tail={}/small/{}", tail.name(), p.name()) };
            run.case(&v.name, &stratum, "rank", |c| {
                let bits = gen_bits(c.rng(), len, p.pattern());
                let m = SmallModel::new(bits);
                let bv = bitvec_with_tail(c.rng(), &m.bits, tail);
                let mut pos: Vec<usize> = (0..24).map(|_| c.rng().random_range(0..len)).collect();
                pos.extend([0, 63, 64, 65, 511, 512, len - 1, len, len + 1, usize::MAX]);
                let idx: Vec<usize> = (0..16).map(|_| c.rng().random_range(0..len)).collect();
                let vname = &v.name;
                let what = || format!("structure {} over len={} pattern={} tail={}: bits {}", vname, len, p.name(), tail.name(), m.show());
                let q = Q { e: Env { m: &m, what: &what }, pos: &pos, idx: &idx, spare_bit: v.name.contains("Rank9") && bv.as_ref().len() * 64 > sux::traits::BitLength::len(&bv) };
                run_variant(c, v, bv, &q);
                c.nontrivial();
                c.describe(|| format!("len={} pattern={} tail={} bits={}", len, p.name(), tail.name(), m.show()));
            });
        }
        run.ctx.finish();
    }

    // 1. every variant: every length class x every pattern, fresh tail
    for v in &variants {
        for &(class, lens) in LEN_CLASSES {
            for &p in PATS_ALL {
                stratum_case(&mut run, v, class, lens, p, Tail::Fresh, 256);
            }
        }
    }
    // 2. bare rank structures: every stale tail state x every length class x every pattern
    for v in &variants[..nbare] {
        for &tail in STALE_TAILS {
            for &(class, lens) in LEN_CLASSES {
                for &p in PATS_ALL {
                    stratum_case(&mut run, v, class, lens, p, tail, 256);
                }
            }
        }
    }
    // 3. references, boxes and wrapper stacks over stale tails (each (variant,
    //    tail) in cases of its own)
    let stale_pats = [pat("dens0"), pat("dens0.5"), pat("dens1"), pat("runs40")];
    for v in &variants[nbare..] {
        for &tail in STALE_TAILS {
            for &(class, lens) in LEN_CLASSES {
                for &p in &stale_pats {
                    stratum_case(&mut run, v, class, lens, p, tail, 128);
                }
            }
        }
    }
    // 4. medium lengths around powers of two, all patterns, bare structures
    for v in &variants[..nbare] {
        for (class, lens) in [("len2^16+-1", [65535usize, 65536, 65537]), ("len2^17+-1", [131071, 131072, 131073])] {
            for &p in PATS_ALL {
                stratum_case(&mut run, v, class, &lens, p, Tail::Fresh, 1024);
            }
        }
    }

    // 5. the 2^32-bit stratum (thorough, UBC only): upper_counts of RankSmall,
    //    64-bit absolute counters of Rank9, wrappers on top
    if big {
        let big_variants: Vec<&Variant> = variants
            .iter()
            .filter(|v| {
                v.stack == Stack::Bare
                    || (v.stack == Stack::SelSmall && (v.r == 1 || v.r == 4))
                    || (v.stack == Stack::SelAdapt && (v.r == 0 || v.r == 5))
                    || (v.stack == Stack::SelZeroSmallSelSmall && v.r == 3)
            })
            .collect();
        let mut k = 0u64;
        for v in big_variants {
            for dirty in [false, true] {
                if dirty && !(v.stack == Stack::Bare && (v.r == 0 || v.r == 2 || v.r == 5)) {
                    continue;
                }
                let stratum = if dirty { "stale/tail=dirtyones+2w/len2^32+2^20/big-dense" } else { "len2^32+2^20/big-dense/tail=fresh" };
                if !thorough && k % 3 != 0 {
                    k += 1;
                    continue;
                }
                run.big_case(k, &v.name, stratum, "rank", |c| {
                    let len = (1usize << 32) + (1 << 20) + if dirty { 21 } else { [0usize, 64 * 5, 37][c.rng().random_range(0..3)] };
                    let (bv, m) = big_dense(c.rng(), len, dirty);
                    let mut pos = Vec::new();
                    let sb = 1usize << 32;
                    for d in 0..70usize {
                        pos.push(sb - 35 + d);
                    }
                    for unit in [64usize, 512, 1024, 2048, 8192, 1 << 16] {
                        for j in 0..4usize {
                            for d in 0..3usize {
                                pos.push(sb + j * unit + d - 1);
                                pos.push(sb - j * unit + d - 1);
                            }
                        }
                    }
                    for _ in 0..60_000 {
                        pos.push(c.rng().random_range(0..len));
                        let w = c.rng().random_range(0..len / 64) * 64;
                        pos.push(w);
                        pos.push(w - (w != 0) as usize);
                        // near the superblock boundary and in the last 2^20 bits
                        pos.push(sb - (1 << 20) + c.rng().random_range(0..(1usize << 21)));
                    }
                    pos.extend([0, 1, len - 2, len - 1, len, len + 1, len + 64, 2 * len, 1 << 33, usize::MAX]);
                    let mut idx = Vec::new();
                    for _ in 0..20_000 {
                        idx.push(c.rng().random_range(0..len));
                    }
                    idx.extend([0, sb - 1, sb, sb + 1, len - 1]);
                    let vname = &v.name;
                    let what = || format!("structure {} over {}", vname, m.show());
                    let q = Q { e: Env { m: &m, what: &what }, pos: &pos, idx: &idx, spare_bit: v.name.contains("Rank9") && bv.as_ref().len() * 64 > sux::traits::BitLength::len(&bv) };
                    run_variant(c, v, bv, &q);
                    c.nontrivial();
                    c.describe(|| m.show());
                });
                k += 1;
            }
        }
    }

    // 6. random rounds: every variant, random length class / pattern / tail
    let rounds = run.ctx.scale(1, 4000, 40000);
    let all_tails = Tail::ALL;
    for round in 0..rounds {
        let mut g = run.ctx.rng(0xC01_0000 + round as u64);
        for v in &variants {
            let class = match g.random_range(0..100) {
                0..=54 => 0,
                55..=89 => 1,
                90..=96 => 2,
                _ => 3,
            };
            let class = if thorough { class } else { class.min(1) };
            let p = PATS_ALL[g.random_range(0..PATS_ALL.len())];
            let tail = if g.random_bool(0.7) { Tail::Fresh } else { all_tails[g.random_range(0..all_tails.len())] };
            let stratum = if tail == Tail::Fresh { format!("{}/{}/tail=fresh", RAND_CLASS_NAMES[class], p.name()) } else { format!("stale/tail={}/{}/{}", tail.name(), RAND_CLASS_NAMES[class], p.name()) };
            run.case(&v.name, &stratum, "rank", |c| {
                let len = len_in_class(c, class);
                let mut desc = String::new();
                let nt = one_vector(c, v, len, p, tail, 2048, &mut desc);
                if nt {
                    c.nontrivial();
                }
                c.describe(|| desc);
            });
        }
        if run.ctx.out_of_time() {
            break;
        }
    }
    run.ctx.finish();
}
