//! C04 — Elias–Fano `index_of` / `succ` / `succ_strict` / `pred` /
//! `pred_strict` agree with their order-theoretic definitions for every query
//! in the whole `usize` range.
//!
//! Oracle: `partition_point` / `binary_search` on the generated sorted
//! `Vec<usize>`. When values repeat any index holding the returned value is
//! accepted. A panic or abort on any query is a violation.
//!
//! Queries above the declared bound `u` are part of the property but abort the
//! process under UB checks on the pinned tree (DESIGN.md section 7 item 11):
//! they run in cases of their own with the ops `index_of_q_gt_u`,
//! `succ_q_gt_u`, `succ_strict_q_gt_u`, `pred_q_gt_u`, `pred_strict_q_gt_u`.
//!
//! A structure that cannot be *built* is C03's business: such a case is left
//! without observations here.
#[path = "common/ef.rs"]
mod ef;
use ef::*;
use rand::Rng;
use sux::bits::BitVec;
use sux::dict::EliasFano;
use sux::rank_sel::{RankSmall, SelectAdapt, SelectAdaptConst, SelectSmall, SelectZeroAdapt, SelectZeroAdaptConst, SelectZeroSmall};
use sux::traits::{IndexedDict, Pred, PredUnchecked, SelectUnchecked, SelectZeroUnchecked, Succ, SuccUnchecked};
use suxmon::obs::*;

type HB = BitVec<Box<[usize]>>;

/// (name, full dictionary: Succ + Pred available)
const VARIANTS: &[(&str, bool)] = &[
    ("EfSeqDict", true),                                               // 0
    ("EfDict", false),                                                 // 1
    ("SelectZeroAdaptConst<8,2>(SelectAdaptConst<8,2>)", true),        // 2
    ("SelectZeroAdapt(3)(SelectAdapt(3))", true),                      // 3
    ("SelectZeroSmall<2,9>(SelectSmall<2,9>(RankSmall))", true),       // 4
    ("SelectAdaptConst<12,3>(SelectZeroAdaptConst<12,3>)", true),      // 5 reversed nesting
    ("SelectZeroAdaptConst<5,1>(no select)", false),                   // 6
];

#[derive(Clone, Copy, PartialEq, Eq, Debug)]
enum Part {
    /// all queries q <= u
    Main,
    /// q > u: index_of / contains / succ / succ_strict
    GtUSucc,
    /// q > u: pred
    GtUPred,
    /// q > u: pred_strict
    GtUPredStrict,
}

impl Part {
    fn op(&self) -> &'static str {
        match self {
            Part::Main => "queries",
            Part::GtUSucc => "succ_q_gt_u",
            Part::GtUPred => "pred_q_gt_u",
            Part::GtUPredStrict => "pred_strict_q_gt_u",
        }
    }
}

// ---------------------------------------------------------------------------
// oracle

fn model_succ(xs: &[usize], q: usize, strict: bool) -> Option<usize> {
    let p = if strict { xs.partition_point(|&x| x <= q) } else { xs.partition_point(|&x| x < q) };
    xs.get(p).copied()
}

fn model_pred(xs: &[usize], q: usize, strict: bool) -> Option<usize> {
    let p = if strict { xs.partition_point(|&x| x < q) } else { xs.partition_point(|&x| x <= q) };
    if p == 0 {
        None
    } else {
        Some(xs[p - 1])
    }
}

/// (index, value) answers: the value must be the model's, the index any one holding it.
fn pair_ok(xs: &[usize], got: Option<(usize, usize)>, want: Option<usize>) -> bool {
    match (got, want) {
        (None, None) => true,
        (Some((i, v)), Some(w)) => v == w && i < xs.len() && xs[i] == v,
        _ => false,
    }
}

fn index_ok(xs: &[usize], q: usize, got: Option<usize>) -> bool {
    match got {
        Some(i) => i < xs.len() && xs[i] == q,
        None => xs.binary_search(&q).is_err(),
    }
}

// ---------------------------------------------------------------------------
// queries

/// Every query scans the bucket of its upper bits linearly, so a sequence that
/// crowds many elements into one bucket (u a loose bound) makes each query
/// cost O(bucket). Keeps `must` and a random sample of `q` such that
/// (bucket population) x (queries) stays bounded.
fn cap_work(c: &mut Case, xs: &[usize], u: usize, mut q: Vec<usize>, must: &[usize], small: bool) -> Vec<usize> {
    let n = xs.len();
    if n == 0 {
        return q;
    }
    let l = l_est(n, u).saturating_sub(1);
    let (mut maxb, mut run, mut prev) = (1usize, 0usize, usize::MAX);
    for &x in xs {
        if x >> l == prev {
            run += 1;
        } else {
            run = 1;
            prev = x >> l;
        }
        maxb = maxb.max(run);
    }
    let work: usize = if small { 20_000 } else { 12_000_000 };
    let allowed = (work / maxb).max(48);
    if q.len() > allowed {
        // partial Fisher-Yates: a uniform sample of `allowed` queries
        for i in 0..allowed {
            let j = c.rng().random_range(i..q.len());
            q.swap(i, j);
        }
        q.truncate(allowed);
        q.extend_from_slice(must);
    }
    q
}

fn queries_le_u(c: &mut Case, xs: &[usize], u: usize, small: bool) -> Vec<usize> {
    let n = xs.len();
    let l0 = l_est(n, u);
    let mut q: Vec<usize> = vec![0, 1, 2, u, u.saturating_sub(1), u.saturating_sub(2), u / 2];
    if n > 0 {
        let (lo, hi) = (xs[0], xs[n - 1]);
        for x in [lo, hi, xs[n / 2]] {
            q.extend_from_slice(&[x, x.saturating_sub(1), x.saturating_add(1), x.saturating_sub(2), x.saturating_add(2)]);
        }
        let from = lo.saturating_sub(2);
        let to = hi.saturating_add(2);
        let span_limit = if small { 96 } else { 8192 };
        if to - from <= span_limit {
            q.extend(from..=to);
        } else {
            // every element +-1 (a sample of them when there are many)
            let cap = if small { 24 } else { 3000 };
            let stride = n.div_ceil(cap).max(1);
            let off = c.rng().random_range(0..stride);
            let mut i = off;
            while i < n {
                let x = xs[i];
                q.extend_from_slice(&[x, x.saturating_sub(1), x.saturating_add(1)]);
                i += stride;
            }
            // bucket boundaries k * 2^l +- 1 around elements and at random, for l around the expected one
            let nb = if small { 8 } else { 400 };
            for j in 0..nb {
                let l = (l0 + j % 3).saturating_sub(1).min(63);
                let k = if j % 2 == 0 { xs[c.rng().random_range(0..n)] >> l } else { rand_upto(c.rng(), u >> l) };
                let b = k << l;
                q.extend_from_slice(&[b, b.saturating_sub(1), b.saturating_add(1)]);
                if let Some(nb) = k.checked_add(1).and_then(|k1| k1.checked_shl(l as u32).filter(|&v| v >> l == k1)) {
                    q.extend_from_slice(&[nb, nb - 1, nb.saturating_add(1)]);
                }
            }
            // random: uniform in the universe and uniform between the extremes
            let nr = if small { 12 } else { 1024 };
            for _ in 0..nr {
                q.push(rand_upto(c.rng(), u));
                q.push(lo + rand_upto(c.rng(), hi - lo));
            }
        }
    } else {
        for _ in 0..(if small { 8 } else { 64 }) {
            q.push(rand_upto(c.rng(), u));
        }
        for k in 0..64 {
            q.push(1usize << k);
            q.push((1usize << k) - 1);
        }
    }
    let mut must: Vec<usize> = vec![0, 1, u, u.saturating_sub(1)];
    if n > 0 {
        for x in [xs[0], xs[n - 1]] {
            must.extend_from_slice(&[x, x.saturating_sub(1), x.saturating_add(1)]);
        }
    }
    let mut q = cap_work(c, xs, u, q, &must, small);
    q.retain(|&x| x <= u);
    q.sort_unstable();
    q.dedup();
    q
}

fn queries_gt_u(c: &mut Case, xs: &[usize], u: usize, small: bool) -> Vec<usize> {
    if u == MAXU {
        return vec![];
    }
    let n = xs.len();
    let l0 = l_est(n, u);
    let mut q: Vec<usize> = vec![u + 1, u.saturating_add(2), u.saturating_add(3), u.saturating_mul(2), u.saturating_mul(2).saturating_add(1), 1 << 63, (1 << 63) + 1, MAXU - 1, MAXU];
    for l in [l0.saturating_sub(1), l0, (l0 + 1).min(63), 63] {
        // first value of the bucket after u's, and one bucket further
        let k = (u >> l) + 1;
        for kk in [Some(k), k.checked_add(1), k.checked_add(63), k.checked_add(64), k.checked_add(65)].into_iter().flatten() {
            if let Some(b) = kk.checked_shl(l as u32).filter(|&v| v >> l == kk) {
                q.extend_from_slice(&[b, b - 1, b.saturating_add(1)]);
            }
        }
        q.push(u.saturating_add(1 << l));
    }
    for k in 0..64 {
        q.push(1usize << k);
        q.push(u.saturating_add(1usize << k));
    }
    for _ in 0..(if small { 6 } else { 48 }) {
        q.push(u + 1 + rand_upto(c.rng(), MAXU - u - 1));
        // close above u
        q.push(u.saturating_add(1 + rand_upto(c.rng(), (4 * n + 70).min(MAXU - u - 1))));
    }
    q.retain(|&x| x > u);
    q.sort_unstable();
    q.dedup();
    if small && q.len() > 40 {
        // keep both ends: the values right above u and the largest ones
        let tail: Vec<usize> = q[q.len() - 12..].to_vec();
        q.truncate(28);
        q.extend(tail);
    }
    let must = [u + 1, MAXU];
    let mut q = cap_work(c, xs, u, q, &must, small);
    q.sort_unstable();
    q.dedup();
    q
}

// ---------------------------------------------------------------------------
// checks

/// Runs `call(q)` for all queries in one guarded batch; `judge` compares with the model.
fn batch<G: std::fmt::Debug>(
    c: &mut Case,
    op: &str,
    qs: &[usize],
    xs: &[usize],
    d: &dyn Fn() -> String,
    call: impl Fn(usize) -> G,
    judge: impl Fn(usize, &G) -> Result<(), String>,
) {
    let mut at = 0usize;
    let mut bad: Option<(usize, String)> = None;
    let mut done = 0u64;
    let r = catch(|| {
        for &q in qs {
            at = q;
            let g = call(q);
            done += 1;
            if let Err(want) = judge(q, &g) {
                bad = Some((q, format!("{}({}) = {:?}, model {}", op, q, g, want)));
                return;
            }
        }
    });
    c.tick(done);
    match r {
        Err(m) => {
            let p = xs.partition_point(|&x| x < at);
            c.fail(op, "panic", &m, &format!("{}({}) panicked; {}; {}", op, at, around(xs, p), d()));
        }
        Ok(()) => {
            if let Some((q, msg)) = bad {
                let p = xs.partition_point(|&x| x < q);
                c.fail(op, "mismatch", "", &format!("{}; {}; {}", msg, around(xs, p), d()));
            }
        }
    }
}

fn want_pair(xs: &[usize], w: Option<usize>) -> String {
    match w {
        None => "None".into(),
        Some(v) => {
            let a = xs.partition_point(|&x| x < v);
            let b = xs.partition_point(|&x| x <= v);
            format!("Some((i, {})) with i in {}..{}", v, a, b)
        }
    }
}

fn check_index_of<H: AsRef<[usize]> + SelectZeroUnchecked>(c: &mut Case, ef: &EliasFano<H>, xs: &[usize], qs: &[usize], sfx: &str, d: &dyn Fn() -> String) {
    batch(
        c,
        &format!("index_of{}", sfx),
        qs,
        xs,
        d,
        |q| ef.index_of(q),
        |q, g| if index_ok(xs, q, *g) { Ok(()) } else { Err(format!("{}", if xs.binary_search(&q).is_ok() { "Some(index holding the value)" } else { "None" })) },
    );
    batch(
        c,
        &format!("contains{}", sfx),
        qs,
        xs,
        d,
        |q| (ef.contains(q), ef.contains(&q)),
        |q, g| {
            let w = xs.binary_search(&q).is_ok();
            if *g == (w, w) {
                Ok(())
            } else {
                Err(format!("{}", w))
            }
        },
    );
}

fn check_dict<H: AsRef<[usize]> + SelectUnchecked + SelectZeroUnchecked>(
    c: &mut Case,
    ef: &EliasFano<H>,
    xs: &[usize],
    u: usize,
    part: Part,
    small: bool,
    d: &dyn Fn() -> String,
) -> usize {
    let qs = if part == Part::Main { queries_le_u(c, xs, u, small) } else { queries_gt_u(c, xs, u, small) };
    let sfx = if part == Part::Main { "" } else { "_q_gt_u" };
    if matches!(part, Part::Main | Part::GtUSucc) {
        check_index_of(c, ef, xs, &qs, sfx, d);
        batch(c, &format!("succ{}", sfx), &qs, xs, d, |q| ef.succ(q), |q, g| {
            let w = model_succ(xs, q, false);
            if pair_ok(xs, *g, w) {
                Ok(())
            } else {
                Err(want_pair(xs, w))
            }
        });
        batch(c, &format!("succ_strict{}", sfx), &qs, xs, d, |q| ef.succ_strict(&q), |q, g| {
            let w = model_succ(xs, q, true);
            if pair_ok(xs, *g, w) {
                Ok(())
            } else {
                Err(want_pair(xs, w))
            }
        });
    }
    if matches!(part, Part::Main | Part::GtUPred) {
        batch(c, &format!("pred{}", sfx), &qs, xs, d, |q| ef.pred(q), |q, g| {
            let w = model_pred(xs, q, false);
            if pair_ok(xs, *g, w) {
                Ok(())
            } else {
                Err(want_pair(xs, w))
            }
        });
    }
    if matches!(part, Part::Main | Part::GtUPredStrict) {
        batch(c, &format!("pred_strict{}", sfx), &qs, xs, d, |q| ef.pred_strict(&q), |q, g| {
            let w = model_pred(xs, q, true);
            if pair_ok(xs, *g, w) {
                Ok(())
            } else {
                Err(want_pair(xs, w))
            }
        });
    }
    if part == Part::Main {
        // the same through a reference: the traits have their own forwarding
        // implementations for &T, which are only selected when the dictionary
        // type itself is a reference (a generic function called with &ef)
        let some: Vec<usize> = qs.iter().copied().step_by(5).collect();
        batch(c, "all_ops(&ef)", &some, xs, d, |q| all_ops_generic(&ef, q), |q, g| {
            if pair_ok(xs, g.0, model_succ(xs, q, false))
                && pair_ok(xs, g.1, model_succ(xs, q, true))
                && pair_ok(xs, g.2, model_pred(xs, q, false))
                && pair_ok(xs, g.3, model_pred(xs, q, true))
                && index_ok(xs, q, g.4)
                && g.5 == xs.binary_search(&q).is_ok()
            {
                Ok(())
            } else {
                Err(format!(
                    "(succ {}, succ_strict {}, pred {}, pred_strict {}, contains {} per model; got in that order, then index_of and contains)",
                    want_pair(xs, model_succ(xs, q, false)),
                    want_pair(xs, model_succ(xs, q, true)),
                    want_pair(xs, model_pred(xs, q, false)),
                    want_pair(xs, model_pred(xs, q, true)),
                    xs.binary_search(&q).is_ok()
                ))
            }
        });
    }
    qs.len()
}

/// EfDict-like structures (no select on ones): index_of / contains for every
/// q, and the unchecked successor / predecessor where the documented
/// precondition (it exists) holds, for q <= u.
fn check_dict_only<H: AsRef<[usize]> + SelectZeroUnchecked>(c: &mut Case, ef: &EliasFano<H>, xs: &[usize], u: usize, part: Part, small: bool, d: &dyn Fn() -> String) -> usize {
    let qs = if part == Part::Main { queries_le_u(c, xs, u, small) } else { queries_gt_u(c, xs, u, small) };
    let sfx = if part == Part::Main { "" } else { "_q_gt_u" };
    check_index_of(c, ef, xs, &qs, sfx, d);
    if part == Part::Main {
        for strict in [false, true] {
            let have: Vec<usize> = qs.iter().copied().filter(|&q| model_succ(xs, q, strict).is_some()).collect();
            batch(
                c,
                if strict { "succ_unchecked<true>" } else { "succ_unchecked<false>" },
                &have,
                xs,
                d,
                // (odd queries go through the forwarding implementation for `&T`)
                |q| Some(if q % 2 == 1 { if strict { succ_u_by_ref::<_, true>(ef, q) } else { succ_u_by_ref::<_, false>(ef, q) } } else { unsafe { if strict { ef.succ_unchecked::<true>(q) } else { ef.succ_unchecked::<false>(q) } } }),
                |q, g| {
                    let w = model_succ(xs, q, strict);
                    if pair_ok(xs, *g, w) {
                        Ok(())
                    } else {
                        Err(want_pair(xs, w))
                    }
                },
            );
            let have: Vec<usize> = qs.iter().copied().filter(|&q| model_pred(xs, q, strict).is_some()).collect();
            batch(
                c,
                if strict { "pred_unchecked<true>" } else { "pred_unchecked<false>" },
                &have,
                xs,
                d,
                |q| Some(if q % 2 == 1 { if strict { pred_u_by_ref::<_, true>(ef, q) } else { pred_u_by_ref::<_, false>(ef, q) } } else { unsafe { if strict { ef.pred_unchecked::<true>(q) } else { ef.pred_unchecked::<false>(q) } } }),
                |q, g| {
                    let w = model_pred(xs, q, strict);
                    if pair_ok(xs, *g, w) {
                        Ok(())
                    } else {
                        Err(want_pair(xs, w))
                    }
                },
            );
        }
    }
    qs.len()
}

/// Finishes the structure with the variant's selection structures and runs
/// the part. Construction problems are not this property's: they end the case
/// without observations.
fn with_variant(c: &mut Case, v: usize, built: Built, xs: &[usize], u: usize, part: Part, small: bool, d: &dyn Fn() -> String) -> Option<usize> {
    macro_rules! full {
        ($mk:expr) => {{
            let e = catch(|| unsafe { built.base().map_high_bits($mk) }).ok()?;
            Some(check_dict(c, &e, xs, u, part, small, d))
        }};
    }
    match v {
        0 => {
            let e = catch(|| built.seq_dict()).ok()?;
            Some(check_dict(c, &e, xs, u, part, small, d))
        }
        1 => {
            let e = catch(|| built.dict()).ok()?;
            Some(check_dict_only(c, &e, xs, u, part, small, d))
        }
        2 => full!(|b: HB| SelectZeroAdaptConst::<_, Box<[usize]>, 8, 2>::new(SelectAdaptConst::<_, Box<[usize]>, 8, 2>::new(b))),
        3 => full!(|b: HB| SelectZeroAdapt::new(SelectAdapt::new(b, 3), 3)),
        4 => full!(|b: HB| SelectZeroSmall::<2, 9, _>::new(SelectSmall::<2, 9, _>::new(RankSmall::<2, 9, _>::new(b)))),
        5 => full!(|b: HB| SelectAdaptConst::<_, Box<[usize]>, 12, 3>::new(SelectZeroAdaptConst::<_, Box<[usize]>, 12, 3>::new(b))),
        6 => {
            let e = catch(|| unsafe { built.base().map_high_bits(SelectZeroAdaptConst::<HB, Box<[usize]>, 5, 1>::new) }).ok()?;
            Some(check_dict_only(c, &e, xs, u, part, small, d))
        }
        _ => unreachable!(),
    }
}

struct Spec<'a> {
    n: usize,
    ucls: &'a str,
    uk: &'a UKind,
    scls: SCls,
    bld: Bld,
    v: usize,
}

/// One sequence class = up to four cases (q <= u, and the three q > u groups).
fn run(ctx: &mut Ctx, sp: &Spec, parts: &[Part]) {
    let small = ctx.small;
    // The q <= u case is much heavier than its q > u siblings: a pseudo-random
    // gap in the case numbers (the same in every shard) keeps the heavy cases
    // from landing on the same shards all the time.
    static SEQ: std::sync::atomic::AtomicU64 = std::sync::atomic::AtomicU64::new(0);
    let s = SEQ.fetch_add(1, std::sync::atomic::Ordering::Relaxed);
    ctx.skip(mix(s, 0x5eed) % 7);
    for &part in parts {
        if !VARIANTS[sp.v].1 && matches!(part, Part::GtUPred | Part::GtUPredStrict) {
            continue;
        }
        let stratum = format!("{}/{}", n_coarse(sp.n), u_coarse(sp.ucls));
        let (n, uk, scls, bld, v, ucls) = (sp.n, sp.uk.clone(), sp.scls, sp.bld, sp.v, sp.ucls);
        ctx.case(VARIANTS[v].0, &stratum, part.op(), |c| {
            let (xs, u) = gen_seq_u(c.rng(), n, &uk, scls);
            let d = || format!("builder={} variant={} n={} u={}", bld.name(), VARIANTS[v].0, n, u);
            c.set_cell(format!("{}|{}/{}/{}|{}", VARIANTS[v].0, n_class(n), ucls, scls.name(), part.op()));
            c.describe(|| format!("builder={} variant={} part={:?} n={} u={} xs={}", bld.name(), VARIANTS[v].0, part, n, u, show_seq(&xs)));
            // building is C03's business: a failure here only means "nothing observed"
            let Some(built) = quiet_feed(bld, &xs, u) else { return };
            let nq = with_variant(c, v, built, &xs, u, part, small, &d);
            if let Some(nq) = nq {
                if n >= 2 && xs[0] != xs[n - 1] && nq > 0 {
                    c.nontrivial();
                }
            }
        });
    }
}

/// Builds without recording builder failures as violations of this property.
fn quiet_feed(bld: Bld, xs: &[usize], u: usize) -> Option<Built> {
    use sux::dict::{EliasFanoBuilder, EliasFanoConcurrentBuilder};
    let n = xs.len();
    match bld {
        Bld::Concurrent => catch(|| {
            let b = EliasFanoConcurrentBuilder::new(n, u);
            // descending order of indices
            for i in (0..n).rev() {
                unsafe { b.set(i, xs[i]) };
            }
            Built::Conc(b)
        })
        .ok(),
        Bld::FromSlice => catch(|| Built::Base(EliasFano::from(xs))).ok(),
        Bld::FromVec => catch(|| Built::Base(xs.to_vec().into())).ok(),
        Bld::Extend | Bld::ExtendChunks => catch(|| {
            let mut b = EliasFanoBuilder::new(n, u);
            b.extend(xs.iter().copied());
            Built::Seq(b)
        })
        .ok(),
        Bld::Push => catch(|| {
            let mut b = EliasFanoBuilder::new(n, u);
            for &x in xs {
                b.push(x);
            }
            Built::Seq(b)
        })
        .ok(),
    }
}

const ALL_PARTS: &[Part] = &[Part::Main, Part::GtUSucc, Part::GtUPred, Part::GtUPredStrict];

fn main() {
    let mut ctx = Ctx::from_args("C04");
    ctx.set_hang_limit(300);
    let small = ctx.small;
    let mut k = 0usize;
    let n_list: &[usize] = if small {
        &[0, 1, 2, 3, 8, 64, 65, 130]
    } else {
        &[0, 1, 2, 3, 4, 5, 8, 16, 31, 63, 64, 65, 127, 128, 129, 255, 256, 257, 1000, 1024, 4095, 4096, 4097]
    };

    // A1. the (n, u) grid on the default dictionary type + one rotating other variant
    for &n in n_list {
        let ucl = if small { u_core(n) } else { u_classes(n, false) };
        for (ucls, uk) in &ucl {
            k += 1;
            let scls = SCLS_ALL[k % SCLS_ALL.len()];
            let bld = if matches!(uk, UKind::XMax(0)) { BLD_ALL[k % BLD_ALL.len()] } else { BLD_NU[k % BLD_NU.len()] };
            run(&mut ctx, &Spec { n, ucls, uk, scls, bld, v: 0 }, ALL_PARTS);
            if !small || k % 3 == 0 {
                let scls2 = SCLS_ALL[(k * 5 + 1) % SCLS_ALL.len()];
                run(&mut ctx, &Spec { n, ucls, uk, scls: scls2, bld, v: 1 + k % (VARIANTS.len() - 1) }, ALL_PARTS);
            }
        }
    }

    // A2. every sequence class x every variant on a reduced universe list
    {
        let ns: &[usize] = if small { &[40] } else { &[1, 2, 3, 7, 64, 100, 300, 1000, 5000] };
        for &n in ns {
            for &scls in SCLS_ALL {
                for v in 0..VARIANTS.len() {
                    let ucl: Vec<(String, UKind)> = vec![
                        ("u=n-1".into(), UKind::Fixed(n - 1)),
                        ("u=n/8".into(), UKind::Fixed(n / 8)),
                        ("u=n*2^1+1".into(), UKind::Fixed(2 * n + 1)),
                        ("u=n*2^4-1".into(), UKind::Fixed(16 * n - 1)),
                        ("u=n*2^13".into(), UKind::Fixed(n << 13)),
                        ("u=n*2^40+1".into(), UKind::Fixed((n << 40) + 1)),
                        ("u=MAX-1".into(), UKind::Fixed(MAXU - 1)),
                        ("u=xmax".into(), UKind::XMax(0)),
                        ("u=xmax+1".into(), UKind::XMax(1)),
                    ];
                    let take = if small { 1 } else if v == 0 { ucl.len() } else { 3 };
                    for j in 0..take {
                        k += 1;
                        let (ucls, uk) = &ucl[(k + j) % ucl.len()];
                        let bld = if matches!(uk, UKind::XMax(0)) { BLD_ALL[k % BLD_ALL.len()] } else { BLD_NU[k % BLD_NU.len()] };
                        run(&mut ctx, &Spec { n, ucls, uk, scls, bld, v }, ALL_PARTS);
                    }
                }
            }
        }
    }

    // A3. larger n: several inventories of the zero selector, long stretches of empty buckets
    if !small {
        let ns: Vec<usize> = if ctx.thorough() { vec![20_000, 70_000, 300_000] } else { vec![20_000, 70_000] };
        for &n in &ns {
            for v in 0..VARIANTS.len() {
                for (j, &scls) in [SCls::HugeGap, SCls::Clusters, SCls::Random, SCls::DupRuns].iter().enumerate() {
                    k += 1;
                    let ucl: Vec<(String, UKind)> = vec![
                        ("u=n*2^1".into(), UKind::Fixed(2 * n)),
                        ("u=n-1".into(), UKind::Fixed(n - 1)),
                        ("u=n*2^30+1".into(), UKind::Fixed((n << 30) + 1)),
                        ("u=MAX-1".into(), UKind::Fixed(MAXU - 1)),
                    ];
                    let (ucls, uk) = &ucl[(k + j) % ucl.len()];
                    run(&mut ctx, &Spec { n, ucls, uk, scls, bld: BLD_NU[k % BLD_NU.len()], v }, ALL_PARTS);
                }
            }
        }
    }

    // B. random rounds on top
    let rounds = ctx.scale(30, 15000, 100000);
    let nmax = ctx.scale(130, 5000, 30000);
    for r in 0..rounds {
        let mut g = ctx.rng(r as u64);
        let n = match g.random_range(0..10) {
            0..=2 => N_EDGES[g.random_range(0..N_EDGES.len())].min(nmax),
            3..=6 => g.random_range(0..200usize).min(nmax),
            _ => {
                let e = g.random_range(0.0..(nmax as f64).log2());
                (2f64.powf(e)) as usize
            }
        };
        let ucl = u_classes(n, false);
        let (ucls, uk) = &ucl[g.random_range(0..ucl.len())];
        let scls = SCLS_ALL[g.random_range(0..SCLS_ALL.len())];
        let bld = if matches!(uk, UKind::XMax(0)) { BLD_ALL[g.random_range(0..BLD_ALL.len())] } else { BLD_NU[g.random_range(0..BLD_NU.len())] };
        let v = if g.random_bool(0.5) { 0 } else { g.random_range(0..VARIANTS.len()) };
        let parts: &[Part] = if r % 2 == 0 { ALL_PARTS } else { &[Part::Main] };
        run(&mut ctx, &Spec { n, ucls, uk, scls, bld, v }, parts);
        if ctx.out_of_time() {
            break;
        }
    }
    ctx.finish();
}


/// All value queries through a dictionary type chosen by the caller: with
/// `D = &EliasFano<..>` this goes through the `impl ... for &T` forwarding layer.
#[allow(clippy::type_complexity)]
/// The unchecked queries through a generic function instantiated with `D = &EliasFano<..>`
/// (only callers inside the documented preconditions use these).
fn succ_u_by_ref<D: sux::traits::SuccUnchecked<Input = usize, Output = usize>, const STRICT: bool>(d: D, q: usize) -> (usize, usize) {
    unsafe { d.succ_unchecked::<STRICT>(q) }
}
fn pred_u_by_ref<D: sux::traits::PredUnchecked<Input = usize, Output = usize>, const STRICT: bool>(d: D, q: usize) -> (usize, usize) {
    unsafe { d.pred_unchecked::<STRICT>(q) }
}

fn all_ops_generic<D>(d: D, q: usize) -> (Option<(usize, usize)>, Option<(usize, usize)>, Option<(usize, usize)>, Option<(usize, usize)>, Option<usize>, bool)
where
    D: Succ + Pred + IndexedDict + sux::traits::Types<Input = usize, Output = usize>,
{
    (d.succ(q), d.succ_strict(q), d.pred(q), d.pred_strict(q), d.index_of(q), d.contains(q))
}
