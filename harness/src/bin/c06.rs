//! C06 — BitVec is observationally a Vec<bool> under any operation sequence.
//!
//! Oracle: a `Vec<bool>` subjected to the same operations. Every observation
//! (get, index, pop result, len, iteration over bits / ones / zeros, counts,
//! equality, conversions) is compared with the model; out-of-range indices
//! must panic and leave the contents unchanged.
use rand::Rng;
use std::sync::atomic::Ordering;
use sux::bits::{AtomicBitVec, BitVec};
use sux::traits::{BitCount, BitLength};
use suxmon::gen::*;
use suxmon::obs::*;

fn model_ones(m: &[bool]) -> Vec<usize> {
    m.iter().enumerate().filter(|(_, &b)| b).map(|(i, _)| i).collect()
}
fn model_zeros(m: &[bool]) -> Vec<usize> {
    m.iter().enumerate().filter(|(_, &b)| !b).map(|(i, _)| i).collect()
}

/// Full read-side comparison of `b` with the model.
fn observe_all(c: &mut Case, b: &BitVec<Vec<usize>>, m: &[bool], trace: &dyn Fn() -> String) {
    c.check("len", b.len() == m.len() && BitLength::len(b) == m.len(), || {
        format!("len got {} model {}; {}", b.len(), m.len(), trace())
    });
    if b.len() != m.len() {
        return;
    }
    let got: Vec<bool> = b.iter().collect();
    c.check("iter", got == m, || format!("iter() differs from model; {}", trace()));
    let got2: Vec<bool> = b.into_iter().collect();
    c.check("into_iter", got2 == m, || format!("(&b).into_iter() differs; {}", trace()));
    for (i, &x) in m.iter().enumerate() {
        if b.get(i) != x || b[i] != x {
            c.fail("get", "mismatch", "", &format!("get({})/index: got {} model {}; {}", i, b.get(i), x, trace()));
            break;
        }
    }
    c.tick(m.len() as u64);
    let ones = model_ones(m);
    let zeros = model_zeros(m);
    c.check("count_ones", b.count_ones() == ones.len(), || {
        format!("count_ones got {} model {}; {}", b.count_ones(), ones.len(), trace())
    });
    c.check("count_zeros", b.count_zeros() == zeros.len(), || {
        format!("count_zeros got {} model {}; {}", b.count_zeros(), zeros.len(), trace())
    });
    c.check("par_count_ones", b.par_count_ones() == ones.len(), || {
        format!("par_count_ones got {} model {}; {}", b.par_count_ones(), ones.len(), trace())
    });
    let got: Vec<usize> = b.iter_ones().collect();
    c.check("iter_ones", got == ones, || {
        format!("iter_ones got {:?} model {:?}; {}", trunc(&format!("{:?}", got), 300), trunc(&format!("{:?}", ones), 300), trace())
    });
    let got: Vec<usize> = b.iter_zeros().collect();
    c.check("iter_zeros", got == zeros, || {
        format!("iter_zeros got {} model {}; {}", trunc(&format!("{:?}", got), 300), trunc(&format!("{:?}", zeros), 300), trace())
    });
    // the iterators through the skipping adaptors of Iterator (nth, skip, step_by, ...)
    if m.len() <= 5000 && c.rng().random_range(0..3u32) == 0 {
        c.iter_protocol("iter_adaptors", || b.iter(), m, trace);
        c.iter_protocol("into_iter_adaptors", || b.into_iter(), m, trace);
        c.iter_protocol("iter_ones_adaptors", || b.iter_ones(), &ones, trace);
        c.iter_protocol("iter_zeros_adaptors", || b.iter_zeros(), &zeros, trace);
    }
}

fn check_eq_ops(c: &mut Case, b: &BitVec<Vec<usize>>, m: &[bool], trace: &dyn Fn() -> String) {
    // equality against a clean copy of the model
    let clean = clean_bitvec(m);
    c.check("eq", *b == clean && clean == *b, || format!("b != clean copy of the model; {}", trace()));
    // ... against a copy whose storage differs only beyond len
    let dirty = bitvec_with_tail(c.rng(), m, Tail::DirtyRandom(2));
    c.check("eq", *b == dirty && dirty == *b, || format!("b != copy that differs only beyond len; {}", trace()));
    // ... against a copy differing in exactly one bit
    if !m.is_empty() {
        let i = c.rng().random_range(0..m.len());
        let mut m2 = m.to_vec();
        m2[i] = !m2[i];
        let other = clean_bitvec(&m2);
        c.check("eq", *b != other && other != *b, || format!("b == copy differing at bit {}; {}", i, trace()));
    }
    // ... against a vector with different length but the same words
    let mut m3 = m.to_vec();
    m3.push(false);
    let longer = clean_bitvec(&m3);
    c.check("eq", *b != longer, || format!("b == vector one bit longer; {}", trace()));
    // to_owned / clone
    let o = b.to_owned();
    c.check("to_owned", o == *b && o.iter().collect::<Vec<_>>() == m, || format!("to_owned differs; {}", trace()));
    let cl = b.clone();
    c.check("clone", cl == *b && cl.len() == m.len(), || format!("clone differs; {}", trace()));
    // clone_from into destinations that are shorter, longer and of the same length, then use the copy
    for (k, dl) in [m.len() / 2, m.len() + 70, m.len(), 0].into_iter().enumerate() {
        let mut d = BitVec::with_value(dl, k % 2 == 0);
        d.clone_from(b);
        let got: Vec<bool> = if d.len() == m.len() { d.iter().collect() } else { vec![] };
        c.check("clone_from", d.len() == m.len() && got == m && d == *b, || format!("clone_from into a vector of {} bits gives len {} (model {}), equal to the source: {}; {}", dl, d.len(), m.len(), d == *b, trace()));
        if d.len() == m.len() {
            d.push(true);
            c.check("clone_from", d.len() == m.len() + 1 && d.get(m.len()) && d.iter().take(m.len()).collect::<Vec<bool>>() == m, || format!("push after clone_from (destination had {} bits) disturbs the copy; {}", dl, trace()));
        }
    }
}

fn conversions(c: &mut Case, b: BitVec<Vec<usize>>, m: &[bool], trace: &dyn Fn() -> String) -> BitVec<Vec<usize>> {
    let boxed: BitVec<Box<[usize]>> = b.into();
    c.check("into_box", boxed.len() == m.len() && boxed.iter().collect::<Vec<_>>() == m, || {
        format!("Vec->Box conversion changed contents; {}", trace())
    });
    c.check("into_box", boxed.count_ones() == model_ones(m).len(), || format!("boxed count_ones; {}", trace()));
    let atomic: AtomicBitVec<Box<[std::sync::atomic::AtomicUsize]>> = boxed.into();
    let mut ok = atomic.len() == m.len();
    for (i, &x) in m.iter().enumerate() {
        ok &= atomic.get(i, Ordering::Relaxed) == x;
    }
    c.tick(m.len() as u64);
    c.check("into_atomic", ok, || format!("Box->Atomic conversion changed contents; {}", trace()));
    let boxed: BitVec<Box<[usize]>> = atomic.into();
    let v: BitVec<Vec<usize>> = boxed.into();
    let a: AtomicBitVec = v.into();
    c.check("into_atomic", a.len() == m.len() && a.count_ones() == model_ones(m).len(), || {
        format!("Vec->Atomic conversion changed len/count; {}", trace())
    });
    let v: BitVec<Vec<usize>> = a.into();
    c.check("from_atomic", v.len() == m.len() && v.iter().collect::<Vec<_>>() == m, || {
        format!("Atomic->Vec conversion changed contents; {}", trace())
    });
    v
}

fn out_of_range(c: &mut Case, b: &mut BitVec<Vec<usize>>, m: &[bool], trace: &dyn Fn() -> String) {
    let len = m.len();
    let idxs = [len, len + 1, len + 63, len + 64, len.wrapping_mul(2).max(len + 2), usize::MAX, usize::MAX / 64, 1usize << 63];
    let k = c.rng().random_range(0..idxs.len());
    let i = idxs[k];
    if i < len {
        return;
    }
    let r = catch(|| b.get(i));
    c.check("get_oob", r.is_err(), || format!("get({}) on len {} did not panic (returned {:?}); {}", i, len, r, trace()));
    let r = catch(|| b[i]);
    c.check("index_oob", r.is_err(), || format!("b[{}] on len {} did not panic; {}", i, len, trace()));
    let v = c.rng().random_bool(0.5);
    let r = catch(|| b.set(i, v));
    c.check("set_oob", r.is_err(), || format!("set({},{}) on len {} did not panic; {}", i, v, len, trace()));
    // contents unchanged
    let got: Vec<bool> = b.iter().collect();
    c.check("set_oob", got == m && b.len() == len, || format!("contents changed by a rejected operation at index {}; {}", i, trace()));
}

fn pick_len(c: &mut Case, big: bool) -> usize {
    let r = c.rng().random_range(0..10);
    match r {
        0..=4 => LEN_EDGES[c.rng().random_range(0..if big { LEN_EDGES.len() } else { 21 })],
        5..=6 => 64 * c.rng().random_range(0..20usize),
        _ => c.rng().random_range(0..if big { 5000 } else { 700 }),
    }
}

fn history(c: &mut Case, init: usize, steps: usize, big: bool) {
    let mut trace: Vec<String> = Vec::new();
    let (mut b, mut m): (BitVec<Vec<usize>>, Vec<bool>);
    let len0 = pick_len(c, big);
    match init {
        0 => {
            b = BitVec::new(len0);
            m = vec![false; len0];
            trace.push(format!("new({})", len0));
        }
        1 => {
            b = BitVec::with_value(len0, true);
            m = vec![true; len0];
            trace.push(format!("with_value({},true)", len0));
        }
        2 => {
            b = BitVec::with_capacity(len0);
            m = vec![];
            trace.push(format!("with_capacity({})", len0));
        }
        3 => {
            let d = [0.0, 0.02, 0.5, 0.98, 1.0][c.rng().random_range(0..5)];
            m = gen_bits(c.rng(), len0, Pattern::Density(d));
            let mode: u8 = c.rng().random_range(0..6);
            b = HintIter::new(m.iter().copied(), m.len(), mode).collect();
            trace.push(format!("collect(len {} dens {}, {})", len0, d, HintIter::<std::ops::Range<usize>>::mode_name(mode)));
        }
        4 => {
            b = BitVec::with_value(len0, false);
            m = vec![false; len0];
            trace.push(format!("with_value({},false)", len0));
        }
        _ => {
            m = gen_bits(c.rng(), len0, Pattern::Runs(40));
            b = BitVec::new(0);
            b.extend(m.iter().copied());
            trace.push(format!("new(0).extend(runs len {})", len0));
        }
    }
    let mut saw0 = false;
    let mut saw1 = false;
    let mut mutations = 0;
    let tr = |t: &Vec<String>| -> String {
        let n = t.len();
        let from = n.saturating_sub(25);
        format!("history(last {} of {}): {}", n - from, n, t[from..].join("; "))
    };
    observe_all(c, &b, &m, &|| tr(&trace));
    for _step in 0..steps {
        let op = c.rng().random_range(0..100);
        match op {
            0..=17 => {
                let n = if c.rng().random_bool(0.2) { c.rng().random_range(1..130) } else { 1 };
                let mut s = String::from("push");
                for _ in 0..n {
                    let v = c.rng().random_bool(0.5);
                    b.push(v);
                    m.push(v);
                    s.push(if v { '1' } else { '0' });
                }
                trace.push(s);
                mutations += 1;
            }
            18..=29 => {
                let n = if c.rng().random_bool(0.2) { c.rng().random_range(1..130) } else { 1 };
                trace.push(format!("pop x{}", n));
                for _ in 0..n {
                    let got = b.pop();
                    let want = m.pop();
                    if got != want {
                        c.fail("pop", "mismatch", "", &format!("pop got {:?} model {:?}; {}", got, want, tr(&trace)));
                        return;
                    }
                    c.tick(1);
                }
                mutations += 1;
            }
            30..=41 => {
                if !m.is_empty() {
                    let n = c.rng().random_range(1..8);
                    for _ in 0..n {
                        let i = if c.rng().random_bool(0.3) { m.len() - 1 - c.rng().random_range(0..m.len().min(65)) } else { c.rng().random_range(0..m.len()) };
                        let v = c.rng().random_bool(0.5);
                        b.set(i, v);
                        m[i] = v;
                        trace.push(format!("set({},{})", i, v as u8));
                    }
                    mutations += 1;
                }
            }
            42..=51 => {
                let new_len = if c.rng().random_bool(0.5) {
                    // shrink (then later growth re-reads stale bits)
                    m.len().saturating_sub(c.rng().random_range(0..130))
                } else {
                    m.len() + c.rng().random_range(0..200)
                };
                let v = c.rng().random_bool(0.5);
                b.resize(new_len, v);
                m.resize(new_len, v);
                trace.push(format!("resize({},{})", new_len, v as u8));
                mutations += 1;
            }
            52..=55 => {
                let v = c.rng().random_bool(0.5);
                if c.rng().random_bool(0.5) {
                    b.fill(v);
                    trace.push(format!("fill({})", v as u8));
                } else {
                    b.par_fill(v);
                    trace.push(format!("par_fill({})", v as u8));
                }
                m.iter_mut().for_each(|x| *x = v);
                mutations += 1;
            }
            56..=60 => {
                if c.rng().random_bool(0.5) {
                    b.flip();
                    trace.push("flip".into());
                } else {
                    b.par_flip();
                    trace.push("par_flip".into());
                }
                m.iter_mut().for_each(|x| *x = !*x);
                mutations += 1;
            }
            61..=62 => {
                if c.rng().random_bool(0.5) {
                    b.reset();
                    trace.push("reset".into());
                } else {
                    b.par_reset();
                    trace.push("par_reset".into());
                }
                m.iter_mut().for_each(|x| *x = false);
                mutations += 1;
            }
            63..=67 => {
                let n = c.rng().random_range(0..150);
                let d = [0.0, 0.5, 1.0][c.rng().random_range(0..3)];
                let ext = gen_bits(c.rng(), n, Pattern::Density(d));
                let mode: u8 = c.rng().random_range(0..6);
                b.extend(HintIter::new(ext.iter().copied(), ext.len(), mode));
                m.extend(ext.iter().copied());
                trace.push(format!("extend({} bits dens {}, {})", n, d, HintIter::<std::ops::Range<usize>>::mode_name(mode)));
                mutations += 1;
            }
            68..=75 => {
                trace.push("observe".into());
                observe_all(c, &b, &m, &|| tr(&trace));
            }
            76..=81 => {
                trace.push("eq-ops".into());
                check_eq_ops(c, &b, &m, &|| tr(&trace));
            }
            82..=86 => {
                trace.push("conversions".into());
                b = conversions(c, b, &m, &|| tr(&trace));
            }
            87..=92 => {
                trace.push("out-of-range".into());
                out_of_range(c, &mut b, &m, &|| tr(&trace));
            }
            93..=95 => {
                // rebuild through FromIterator of the current contents
                let nb: BitVec = if c.rng().random_bool(0.5) { b.iter().collect() } else { b.iter().filter(|_| true).collect() };
                c.check("collect", nb == b && nb.len() == m.len(), || format!("collect(iter()) != original; {}", tr(&trace)));
                if c.rng().random_bool(0.5) {
                    b = nb;
                    trace.push("replace-by-collect".into());
                }
            }
            _ => {
                // capacity is a lower bound of what can be pushed without growing; len never exceeds it
                c.check("capacity", b.capacity() >= b.len(), || format!("capacity {} < len {}; {}", b.capacity(), b.len(), tr(&trace)));
            }
        }
        saw0 |= m.iter().any(|x| !*x);
        saw1 |= m.iter().any(|x| *x);
        // cheap per-step invariant
        if b.len() != m.len() {
            c.fail("len", "mismatch", "", &format!("len got {} model {}; {}", b.len(), m.len(), tr(&trace)));
            return;
        }
        if !m.is_empty() {
            let i = c.rng().random_range(0..m.len());
            if b.get(i) != m[i] {
                c.fail("get", "mismatch", "", &format!("get({}) got {} model {}; {}", i, b.get(i), m[i], tr(&trace)));
                return;
            }
            let l = m.len() - 1;
            if b.get(l) != m[l] {
                c.fail("get", "mismatch", "", &format!("get(last={}) got {} model {}; {}", l, b.get(l), m[l], tr(&trace)));
                return;
            }
            c.tick(2);
        }
    }
    observe_all(c, &b, &m, &|| tr(&trace));
    check_eq_ops(c, &b, &m, &|| tr(&trace));
    if mutations > 0 && saw0 && saw1 {
        c.nontrivial();
    }
    c.set_cell(format!("hist:{:016x}", hash_str(&trace.join(";"))));
    c.describe(|| trace.join("; "));
}

const RMW_ORDS: [Ordering; 5] = [Ordering::Relaxed, Ordering::Acquire, Ordering::Release, Ordering::AcqRel, Ordering::SeqCst];

fn atomic_history(c: &mut Case, steps: usize) {
    let len = pick_len(c, false);
    let init = c.rng().random_bool(0.5);
    let mut a: AtomicBitVec = if c.rng().random_bool(0.5) {
        AtomicBitVec::with_value(len, init)
    } else {
        let b = BitVec::with_value(len, init);
        b.into()
    };
    let mut m = vec![init; len];
    let mut trace = vec![format!("atomic with_value({},{})", len, init as u8)];
    let tr = |t: &Vec<String>| -> String {
        let n = t.len();
        let from = n.saturating_sub(25);
        format!("history(last {} of {}): {}", n - from, n, t[from..].join("; "))
    };
    let ords = [Ordering::Relaxed, Ordering::SeqCst];
    let mut muts = 0;
    for _ in 0..steps {
        let o = ords[c.rng().random_range(0..2)];
        match c.rng().random_range(0..100) {
            0..=29 if len > 0 => {
                let i = c.rng().random_range(0..len);
                let v = c.rng().random_bool(0.5);
                // set and swap are read-modify-write operations: every ordering is admissible
                let o = RMW_ORDS[c.rng().random_range(0..5)];
                if let Err(msg) = catch(|| a.set(i, v, o)) {
                    c.fail("set", "panic", &msg, &format!("set({},{},{:?}) panicked; {}", i, v, o, tr(&trace)));
                    return;
                }
                m[i] = v;
                trace.push(format!("set({},{},{:?})", i, v as u8, o));
                muts += 1;
            }
            30..=49 if len > 0 => {
                let i = c.rng().random_range(0..len);
                let v = c.rng().random_bool(0.5);
                let o = RMW_ORDS[c.rng().random_range(0..5)];
                let old = match catch(|| a.swap(i, v, o)) {
                    Ok(x) => x,
                    Err(msg) => {
                        c.fail("swap", "panic", &msg, &format!("swap({},{},{:?}) panicked; {}", i, v, o, tr(&trace)));
                        return;
                    }
                };
                trace.push(format!("swap({},{},{:?})", i, v as u8, o));
                c.check("swap", old == m[i], || format!("swap({},{}) returned {} but the bit was {}; {}", i, v, old, m[i], tr(&trace)));
                m[i] = v;
                muts += 1;
            }
            50..=55 => {
                let v = c.rng().random_bool(0.5);
                if c.rng().random_bool(0.5) { a.fill(v, o) } else { a.par_fill(v, o) };
                m.iter_mut().for_each(|x| *x = v);
                trace.push(format!("fill({})", v as u8));
                muts += 1;
            }
            56..=61 => {
                if c.rng().random_bool(0.5) { a.flip(o) } else { a.par_flip(o) };
                m.iter_mut().for_each(|x| *x = !*x);
                trace.push("flip".into());
                muts += 1;
            }
            62..=63 => {
                if c.rng().random_bool(0.5) { a.reset(o) } else { a.par_reset(o) };
                m.iter_mut().for_each(|x| *x = false);
                trace.push("reset".into());
                muts += 1;
            }
            64..=75 => {
                let ones = m.iter().filter(|x| **x).count();
                c.check("count_ones", a.count_ones() == ones && a.par_count_ones() == ones && a.count_zeros() == len - ones, || {
                    format!("atomic count_ones {} par {} model {}; {}", a.count_ones(), a.par_count_ones(), ones, tr(&trace))
                });
                let got: Vec<bool> = a.iter().collect();
                c.check("iter", got == m, || format!("atomic iter differs; {}", tr(&trace)));
            }
            76..=85 => {
                let idxs = [len, len + 1, len + 64, usize::MAX];
                let i = idxs[c.rng().random_range(0..4)];
                let r1 = catch(|| a.get(i, o));
                let r2 = catch(|| a.set(i, true, o));
                let r3 = catch(|| a.swap(i, true, o));
                let r4 = catch(|| a[i]);
                c.check("atomic_oob", r1.is_err() && r2.is_err() && r3.is_err() && r4.is_err(), || {
                    format!("atomic get/set/swap/index({}) on len {} did not all panic; {}", i, len, tr(&trace))
                });
                let got: Vec<bool> = a.iter().collect();
                c.check("atomic_oob", got == m, || format!("contents changed by rejected atomic op; {}", tr(&trace)));
            }
            86..=92 => {
                let b: BitVec<Vec<usize>> = a.into();
                c.check("from_atomic", b.len() == len && b.iter().collect::<Vec<_>>() == m, || format!("Atomic->BitVec differs; {}", tr(&trace)));
                a = b.into();
                trace.push("roundtrip".into());
            }
            _ => {
                // get is a load: Relaxed, Acquire and SeqCst are admissible
                let o = [Ordering::Relaxed, Ordering::Acquire, Ordering::SeqCst][c.rng().random_range(0..3)];
                for (i, &x) in m.iter().enumerate() {
                    if a.get(i, o) != x || a[i] != x {
                        c.fail("atomic_get", "mismatch", "", &format!("atomic get({}) got {} model {}; {}", i, a.get(i, o), x, tr(&trace)));
                        return;
                    }
                }
                c.tick(len as u64);
            }
        }
    }
    let got: Vec<bool> = a.iter().collect();
    c.check("iter", got == m && a.len() == len, || format!("final atomic contents differ; {}", tr(&trace)));
    if muts > 0 && m.iter().any(|x| *x) && m.iter().any(|x| !*x) {
        c.nontrivial();
    }
    c.set_cell(format!("ahist:{:016x}", hash_str(&trace.join(";"))));
    c.describe(|| trace.join("; "));
}

fn main() {
    let mut ctx = Ctx::from_args("C06");
    ctx.set_hang_limit(120);
    let init_names = ["new", "with_value_true", "with_capacity", "collect", "with_value_false", "extend"];

    // 1. constructors and macro forms at every edge length
    for &len in LEN_EDGES.iter().take(ctx.scale(12, 30, 30)) {
        ctx.case("BitVec", "constructors", "construct", |c| {
            let z = BitVec::new(len);
            observe_all(c, &z, &vec![false; len], &|| format!("BitVec::new({})", len));
            let o = BitVec::with_value(len, true);
            observe_all(c, &o, &vec![true; len], &|| format!("BitVec::with_value({},true)", len));
            let f = BitVec::with_value(len, false);
            observe_all(c, &f, &vec![false; len], &|| format!("BitVec::with_value({},false)", len));
            let mz = sux::bit_vec![false; len];
            let mo = sux::bit_vec![true; len];
            let mz2 = sux::bit_vec![0; len];
            let mo2 = sux::bit_vec![1; len];
            c.check("macro", mz == z && mz2 == z && mo == o && mo2 == o, || format!("bit_vec![v; {}] forms differ from constructors", len));
            let e = sux::bit_vec![];
            c.check("macro", e.len() == 0 && e.iter().count() == 0 && e.count_ones() == 0, || "bit_vec![] not empty".into());
            let l = sux::bit_vec![0, 1, 1, 0, 1, 0, 0, 0, 1];
            observe_all(c, &l, &[false, true, true, false, true, false, false, false, true], &|| "bit_vec![0,1,1,0,1,0,0,0,1]".into());
            let mut wc = BitVec::with_capacity(len);
            c.check("with_capacity", wc.len() == 0 && wc.capacity() >= len, || format!("with_capacity({}) len {} cap {}", len, wc.len(), wc.capacity()));
            let m = gen_bits(c.rng(), len, Pattern::Density(0.5));
            for &x in &m {
                wc.push(x);
            }
            observe_all(c, &wc, &m, &|| format!("with_capacity({}) + {} pushes", len, len));
            if len > 1 {
                c.nontrivial();
            }
            c.describe(|| format!("len={}", len));
        });
    }

    // 2. iterators of ones/zeros polled after exhaustion (kept apart: on a
    //    defective tree this aborts the process)
    for (k, &len) in [0usize, 1, 63, 64, 65, 128, 200].iter().enumerate() {
        for dens in [0.0, 0.5, 1.0] {
            ctx.case("BitVec", "poll-after-exhaustion", "iter_ones_zeros_after_none", |c| {
                let m = gen_bits(c.rng(), len, Pattern::Density(dens));
                let tails = [Tail::Fresh, Tail::Popped, Tail::DirtyOnes(1)];
                let b = bitvec_with_tail(c.rng(), &m, tails[k % 3]);
                let mut it = b.iter_ones();
                let mut got = vec![];
                while let Some(x) = it.next() {
                    got.push(x);
                }
                let again = (it.next(), it.next(), it.next());
                c.check("iter_ones", got == model_ones(&m), || format!("iter_ones wrong: {:?}", got));
                c.check("iter_ones", again == (None, None, None), || format!("iter_ones yielded {:?} after None", again));
                let mut it = b.iter_zeros();
                let mut got = vec![];
                while let Some(x) = it.next() {
                    got.push(x);
                }
                let again = (it.next(), it.next(), it.next());
                c.check("iter_zeros", got == model_zeros(&m), || format!("iter_zeros wrong: {:?}", got));
                c.check("iter_zeros", again == (None, None, None), || format!("iter_zeros yielded {:?} after None", again));
                let mut it = b.iter();
                while it.next().is_some() {}
                c.check("iter", it.next().is_none() && it.next().is_none(), || "iter yielded after None".into());
                c.nontrivial();
                c.set_cell(format!("BitVec|poll-after-exhaustion|len{}|d{}", len, dens));
                c.describe(|| format!("bits={} tail={:?}", show_bits(&m), tails[k % 3]));
            });
        }
    }

    // 3. operation histories
    let rounds = ctx.scale(3, 20000, 60000);
    let steps = ctx.scale(25, 120, 300);
    for r in 0..rounds {
        for init in 0..6 {
            let big = r % 5 == 4;
            ctx.case("BitVec", &format!("history/{}{}", init_names[init], if big { "/big" } else { "" }), "history", |c| {
                history(c, init, steps, big);
            });
        }
        ctx.case("AtomicBitVec", "history", "atomic_history", |c| {
            atomic_history(c, steps);
        });
        if ctx.out_of_time() {
            break;
        }
    }
    ctx.finish();
}
