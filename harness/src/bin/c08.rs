//! C08 — a static filter has no false negatives and a false-positive rate
//! near 2^-b.
//!
//! Oracle: exact for members (every inserted key must be reported by
//! `contains`, by `Index`, and by `contains_unaligned` where its documented
//! precondition on the bit width holds; `len()` = n; `hash_bits()` = b).
//! Statistical for non-members: N probe keys that are disjoint from the
//! members *by construction* (indices >= n of the same injective key family)
//! are counted; with p = 2^-b the count must satisfy
//! |fp - N p| <= 6 sqrt(N p (1-p)) + 3 (for b > 16 only the upper side is
//! judged). N = 10^6 for b <= 12 and b > 16, 4*10^6 for 13 <= b <= 16. A count
//! outside the band is confirmed on a second, disjoint set of N probes and
//! reported only if that one is outside the band on the same side too (a real
//! defect fails both, a fluctuation fails both with probability < 10^-15).
//! Rates are judged only for n >= 1000 keys.
use dsi_progress_logger::no_logging;
use rand::rngs::SmallRng;
use rand::Rng;
use std::cell::Cell;
use sux::bits::BitFieldVec;
use sux::func::shard_edge::{FuseLge3FullSigs, FuseLge3NoShards, FuseLge3Shards};
use sux::func::VBuilder;
use suxmon::obs::*;

#[macro_use]
#[path = "common/vb.rs"]
mod vb;
use vb::*;

#[derive(Clone, Debug)]
struct Scn {
    n: usize,
    kk: usize,
    salt: u64,
    cfg: Cfg,
    /// requested hash bits (ignored by slice backends: W::BITS)
    b: u32,
    /// number of non-member probes (0 = members only)
    probes: usize,
    group: &'static str,
}

impl Scn {
    fn stratum(&self, bits: u32, boxed: bool) -> String {
        let b = if boxed { bits } else { self.b };
        format!("{}|b={}|{}|hint={}|{}|{}", self.group, b, n_class(self.n), self.cfg.hint.name(), self.cfg.store(), if self.probes > 0 { "rate" } else { "members" })
    }
}

// ---------------------------------------------------------------------------
// key storages: members are indices 0..n, probe j is index n + j (computed on demand)

struct KUsize {
    kind: IntKeys,
    salt: u64,
    n: usize,
}
impl KUsize {
    fn make(s: &Scn) -> Self {
        KUsize { kind: IntKeys::ALL[s.kk % 4], salt: s.salt, n: s.n }
    }
    fn src(&self) -> FnSrc<usize, impl Fn(usize) -> usize + '_> {
        FnSrc::new(self.n, move |i| self.kind.key(i, self.salt) as usize)
    }
    fn q(&self, i: usize) -> usize {
        self.kind.key(i, self.salt) as usize
    }
    fn show(&self, i: usize) -> String {
        format!("{}usize", self.q(i))
    }
    fn kind(&self) -> String {
        format!("usize:{}", self.kind.name())
    }
}
struct KU64 {
    kind: IntKeys,
    salt: u64,
    n: usize,
}
impl KU64 {
    fn make(s: &Scn) -> Self {
        KU64 { kind: IntKeys::ALL[s.kk % 4], salt: s.salt, n: s.n }
    }
    fn src(&self) -> FnSrc<u64, impl Fn(usize) -> u64 + '_> {
        FnSrc::new(self.n, move |i| self.kind.key(i, self.salt))
    }
    fn q(&self, i: usize) -> u64 {
        self.kind.key(i, self.salt)
    }
    fn show(&self, i: usize) -> String {
        format!("{}u64", self.q(i))
    }
    fn kind(&self) -> String {
        format!("u64:{}", self.kind.name())
    }
}
/// strings: members stored, probes generated on demand
struct KStr {
    kind: StrKeys,
    v: Vec<String>,
}
impl KStr {
    fn make(s: &Scn) -> Self {
        let kind = StrKeys::ALL[s.kk % 4];
        KStr { kind, v: (0..s.n).map(|i| kind.key(i)).collect() }
    }
    fn src(&self) -> StrSrc<'_> {
        StrSrc(&self.v)
    }
    fn q(&self, i: usize) -> std::borrow::Cow<'_, str> {
        if i < self.v.len() {
            std::borrow::Cow::Borrowed(self.v[i].as_str())
        } else {
            std::borrow::Cow::Owned(self.kind.key(i))
        }
    }
    fn show(&self, i: usize) -> String {
        format!("{:?}", self.q(i))
    }
    fn kind(&self) -> String {
        format!("str:{}", self.kind.name())
    }
}
struct KString {
    kind: StrKeys,
    v: Vec<String>,
}
impl KString {
    fn make(s: &Scn) -> Self {
        let kind = StrKeys::ALL[s.kk % 4];
        KString { kind, v: (0..s.n).map(|i| kind.key(i)).collect() }
    }
    fn src(&self) -> SliceSrc<'_, String> {
        SliceSrc(&self.v)
    }
    fn q(&self, i: usize) -> String {
        if i < self.v.len() {
            self.v[i].clone()
        } else {
            self.kind.key(i)
        }
    }
    fn show(&self, i: usize) -> String {
        format!("{:?}", self.q(i))
    }
    fn kind(&self) -> String {
        format!("String:{}", self.kind.name())
    }
}

// ---------------------------------------------------------------------------

thread_local! {
    static BUILDS_OK: Cell<u64> = const { Cell::new(0) };
    static BUILDS_SLOW: Cell<u64> = const { Cell::new(0) };
    static PEEL_RETRY: Cell<u64> = const { Cell::new(0) };
    static SHARD_RETRY: Cell<u64> = const { Cell::new(0) };
    static ABANDONED: Cell<u64> = const { Cell::new(0) };
    static MEMBERS: Cell<u64> = const { Cell::new(0) };
    static PROBES: Cell<u64> = const { Cell::new(0) };
    static BANDS: Cell<u64> = const { Cell::new(0) };
    static MAX_Z: Cell<u64> = const { Cell::new(0) };
    static RETESTS: Cell<u64> = const { Cell::new(0) };
}
fn bump(k: &'static std::thread::LocalKey<Cell<u64>>, by: u64) {
    k.with(|c| c.set(c.get() + by));
}

fn unaligned_ok(width: u32, bits: u32) -> bool {
    width <= bits - 8 + 2 || width == bits - 8 + 4 || width == bits
}

/// Number of probes the design prescribes for b hash bits.
fn probes_for(b: u32) -> usize {
    if (13..=16).contains(&b) {
        4_000_000
    } else {
        1_000_000
    }
}

#[allow(clippy::too_many_arguments)]
fn run_filter<F>(
    c: &mut Case,
    s: &Scn,
    b: u32,
    word_bits: u32,
    has_unal: bool,
    keykind: String,
    kst: &Stats,
    build: impl FnOnce() -> anyhow::Result<F>,
    contains: impl Fn(&F, usize) -> bool,
    index: impl Fn(&F, usize) -> bool,
    unal: impl Fn(&F, usize) -> bool,
    len: impl Fn(&F) -> usize,
    hash_bits: impl Fn(&F) -> u32,
    show: impl Fn(usize) -> String,
) {
    let n = s.n;
    let input = format!("n={} keys={} (salt {}; member i = key #i, probe j = key #(n+j)) hash bits b={} probes N={} builder: {}", n, keykind, s.salt, b, s.probes, s.cfg.show(n));
    c.describe(|| input.clone());
    let was_degraded = degraded();
    let t0 = std::time::Instant::now();
    let r = catch(build);
    let secs = t0.elapsed().as_secs_f64();
    let progress = || format!("key lender: {} | {:.2}s", kst.trace_string(), secs);
    c.tick(1);
    let f = match r {
        Err(p) => {
            c.fail("try_build_filter", "panic", &p, &format!("try_build_filter panicked: {}; {}; {}", p, input, progress()));
            return;
        }
        Ok(Err(e)) => {
            let es = format!("{:#}", e);
            if kst.noprog.get() || err_contains(&e, TAG_NOPROG) {
                if was_degraded {
                    bump(&ABANDONED, 1);
                    return;
                }
                NOPROG_SEEN.store(true, std::sync::atomic::Ordering::Relaxed);
                c.fail(
                    "try_build_filter",
                    "no-progress",
                    "the build does not terminate: attempt bound exceeded",
                    &format!("the build rewound its input more than {} times without succeeding; {}; {}", attempt_limit(n), input, progress()),
                );
            } else {
                c.fail("try_build_filter", "err", &es, &format!("try_build_filter returned Err({}) on distinct keys; {}; {}", es, input, progress()));
            }
            return;
        }
        Ok(Ok(f)) => f,
    };
    bump(&BUILDS_OK, 1);
    if kst.passes() > SOFT_ATTEMPTS {
        bump(&BUILDS_SLOW, 1);
    }
    if s.group == "peel-retry" && kst.passes() > 1 {
        bump(&PEEL_RETRY, 1);
    }
    if s.group == "max-shard-retry" && kst.passes() > 1 {
        bump(&SHARD_RETRY, 1);
    }
    c.check("len", len(&f) == n, || format!("filter.len() = {} but {} keys were inserted; {}; {}", len(&f), n, input, progress()));
    c.check("hash_bits", hash_bits(&f) == b, || format!("filter.hash_bits() = {} but {} bits were requested (word: {} bits); {}", hash_bits(&f), b, word_bits, input));
    // members: no false negatives, through every query path
    let use_unal = has_unal && unaligned_ok(b, word_bits);
    let (mut bad_c, mut bad_i, mut bad_u) = (0u64, 0u64, 0u64);
    let mut first = String::new();
    for i in 0..n {
        if !contains(&f, i) {
            if bad_c < 3 {
                first.push_str(&format!(" contains({}) = false (member #{});", show(i), i));
            }
            bad_c += 1;
        }
        if !index(&f, i) {
            if bad_i < 3 {
                first.push_str(&format!(" filter[{}] = false (member #{});", show(i), i));
            }
            bad_i += 1;
        }
        if use_unal && !unal(&f, i) {
            if bad_u < 3 {
                first.push_str(&format!(" contains_unaligned({}) = false (member #{});", show(i), i));
            }
            bad_u += 1;
        }
    }
    c.tick(n as u64 * if use_unal { 3 } else { 2 });
    bump(&MEMBERS, n as u64);
    if bad_c > 0 {
        c.fail("contains", "false-negative", "", &format!("{} of {} inserted keys are reported absent by contains:{} {}; {}", bad_c, n, first, input, progress()));
    }
    if bad_i > 0 {
        c.fail("index", "false-negative", "", &format!("{} of {} inserted keys are reported absent by Index:{} {}; {}", bad_i, n, first, input, progress()));
    }
    if bad_u > 0 {
        c.fail("contains_unaligned", "false-negative", "", &format!("{} of {} inserted keys are reported absent by contains_unaligned:{} {}; {}", bad_u, n, first, input, progress()));
    }
    // non-members
    if s.probes > 0 && n >= 1000 {
        let big_n = s.probes;
        let p = (0.5f64).powi(b as i32);
        let mean = big_n as f64 * p;
        let sd = (big_n as f64 * p * (1.0 - p)).sqrt();
        let band = 6.0 * sd + 3.0;
        // two disjoint probe sets: the second one is only drawn to confirm a count outside the band
        let mut counts: Vec<u64> = Vec::new();
        let mut verdict = "";
        for round in 0..2usize {
            let mut fp = 0u64;
            let mut disagree = 0u64;
            let mut first_dis = String::new();
            for j in round * big_n..(round + 1) * big_n {
                let x = contains(&f, n + j);
                fp += x as u64;
                // the two read paths must give the same answer on any key (sampled: it doubles the cost)
                if use_unal && j % 8 == 0 && unal(&f, n + j) != x {
                    if disagree == 0 {
                        first_dis = format!("contains({}) = {} but contains_unaligned = {}", show(n + j), x, !x);
                    }
                    disagree += 1;
                }
            }
            if disagree > 0 {
                c.fail("contains_unaligned", "mismatch", "", &format!("contains and contains_unaligned disagree on {} probes: {}; {}", disagree, first_dis, input));
            }
            bump(&PROBES, big_n as u64);
            counts.push(fp);
            let dev = fp as f64 - mean;
            if round == 0 && mean >= 10.0 {
                let z = (dev.abs() / sd * 100.0) as u64;
                MAX_Z.with(|m| m.set(m.get().max(z)));
            }
            let too_many = dev > band;
            let too_few = b <= 16 && -dev > band;
            let v = if too_many {
                "fp-rate-high"
            } else if too_few {
                "fp-rate-low"
            } else {
                ""
            };
            if v.is_empty() {
                // inside the band (a first count outside it was a fluctuation: not confirmed)
                verdict = "";
                break;
            }
            if round == 1 && v != verdict {
                verdict = "";
                break;
            }
            verdict = v;
            if round == 0 {
                bump(&RETESTS, 1);
            }
        }
        bump(&BANDS, 1);
        c.tick(1);
        if !verdict.is_empty() {
            c.fail(
                "contains",
                verdict,
                "",
                &format!(
                    "{} and {} of 2 x {} disjoint non-member probes are reported present; expected {:.1} each for b={} (acceptance band +-{:.1}, i.e. 6 sigma + 3, exceeded on the same side by both samples; observed rate 2^{:.2}); {}; {}",
                    counts[0],
                    counts[1],
                    big_n,
                    mean,
                    b,
                    band,
                    ((counts[0] + counts[1]).max(1) as f64 / (2 * big_n) as f64).log2(),
                    input,
                    progress()
                ),
            );
        }
        c.nontrivial();
    } else {
        // members only: a few probes for the UB checks (result ignored)
        let mut acc = false;
        for j in 0..200 {
            acc ^= contains(&f, n + j);
        }
        std::hint::black_box(acc);
        if n >= 1 {
            c.nontrivial();
        }
    }
}

/// key type `&[u32]` (a slice of multi-byte elements): members and probes share their first
/// elements, hence the first bytes, and differ in later ones
struct KWords {
    kind: usize,
    v: Vec<Vec<u32>>,
    /// probes generated on demand live here (boxed, never removed: references stay valid)
    arena: std::cell::RefCell<Vec<Box<[u32]>>>,
}
impl KWords {
    fn key(kind: usize, i: usize) -> Vec<u32> {
        let x = bij64(i as u64, 91);
        match kind {
            0 => vec![7, 7, x as u32, (x >> 32) as u32],
            1 => {
                let mut v = vec![0xDEAD_BEEFu32; 9];
                v.push(i as u32);
                v
            }
            _ => {
                let mut v = vec![];
                let mut y = i;
                loop {
                    v.push((y & 0xFFFF) as u32);
                    y >>= 16;
                    if y == 0 {
                        break;
                    }
                }
                v
            }
        }
    }
    fn make(s: &Scn) -> Self {
        let kind = s.kk % 3;
        KWords { kind, v: (0..s.n).map(|i| Self::key(kind, i)).collect(), arena: Default::default() }
    }
    fn src(&self) -> WordsSrc<'_> {
        WordsSrc::new(&self.v)
    }
    fn q(&self, i: usize) -> &[u32] {
        if i < self.v.len() {
            self.v[i].as_slice()
        } else {
            let b: Box<[u32]> = Self::key(self.kind, i).into_boxed_slice();
            let p: *const [u32] = &*b;
            self.arena.borrow_mut().push(b);
            // SAFETY: the box is owned by the arena, which lives as long as self and never drops or moves its boxes' contents
            unsafe { &*p }
        }
    }
    fn show(&self, i: usize) -> String {
        format!("{:?}", self.q(i))
    }
    fn kind(&self) -> String {
        format!("&[u32]:{}", ["index-in-tail", "long-constant-prefix", "base-65536-digits"][self.kind])
    }
}

macro_rules! filter_variant {
    ($fname:ident, $W:ty, boxed, $S:ty, $E:ty, $K:ident) => {
        fn $fname(c: &mut Case, s: &Scn) {
            let keys = $K::make(s);
            let kst = Stats::new();
            run_filter(
                c,
                s,
                <$W>::BITS,
                <$W>::BITS,
                false,
                keys.kind(),
                &kst,
                || {
                    let kl = ProbeLender::new(keys.src(), &kst);
                    vb_configure!(VBuilder::<$W, Box<[$W]>, $S, $E>::default(), &s.cfg, s.n).try_build_filter(kl, no_logging![])
                },
                |f, i| f.contains(keys.q(i)),
                |f, i| f[keys.q(i)],
                |_f, _i| unreachable!(),
                |f| f.len(),
                |f| f.hash_bits(),
                |i| keys.show(i),
            );
        }
    };
    ($fname:ident, $W:ty, bfv, $S:ty, $E:ty, $K:ident) => {
        fn $fname(c: &mut Case, s: &Scn) {
            let keys = $K::make(s);
            let kst = Stats::new();
            run_filter(
                c,
                s,
                s.b,
                <$W>::BITS,
                true,
                keys.kind(),
                &kst,
                || {
                    let kl = ProbeLender::new(keys.src(), &kst);
                    vb_configure!(VBuilder::<$W, BitFieldVec<$W>, $S, $E>::default(), &s.cfg, s.n).try_build_filter(kl, s.b as usize, no_logging![])
                },
                |f, i| f.contains(keys.q(i)),
                |f, i| f[keys.q(i)],
                |f, i| f.contains_unaligned(keys.q(i)),
                |f| f.len(),
                |f| f.hash_bits(),
                |i| keys.show(i),
            );
        }
    };
}

type S2 = [u64; 2];
type S1 = [u64; 1];

filter_variant!(v_u8_bfv_shards_usize, u8, bfv, S2, FuseLge3Shards, KUsize);
filter_variant!(v_u16_bfv_noshards64_str, u16, bfv, S1, FuseLge3NoShards, KStr);
filter_variant!(v_u32_bfv_fullsigs_u64, u32, bfv, S2, FuseLge3FullSigs, KU64);
filter_variant!(v_u64_bfv_noshards128_usize, u64, bfv, S2, FuseLge3NoShards, KUsize);
filter_variant!(v_usize_bfv_shards_string, usize, bfv, S2, FuseLge3Shards, KString);
filter_variant!(v_u8_box_shards_usize, u8, boxed, S2, FuseLge3Shards, KUsize);
filter_variant!(v_u8_box_noshards64_u64, u8, boxed, S1, FuseLge3NoShards, KU64);
filter_variant!(v_u16_box_fullsigs_str, u16, boxed, S2, FuseLge3FullSigs, KStr);
filter_variant!(v_u32_box_noshards64_u64, u32, boxed, S1, FuseLge3NoShards, KU64);
filter_variant!(v_u64_box_shards_string, u64, boxed, S2, FuseLge3Shards, KString);
filter_variant!(v_u16_box_shards_words, u16, boxed, S2, FuseLge3Shards, KWords);
filter_variant!(v_u32_bfv_noshards64_words, u32, bfv, S1, FuseLge3NoShards, KWords);

struct Variant {
    name: &'static str,
    run: fn(&mut Case, &Scn),
    bits: u32,
    boxed: bool,
    int_keys: bool,
}

const VARIANTS: &[Variant] = &[
    Variant { name: "u8/BitFieldVec/sig128/FuseLge3Shards/key=usize", run: v_u8_bfv_shards_usize, bits: 8, boxed: false, int_keys: true },
    Variant { name: "u16/BitFieldVec/sig64/FuseLge3NoShards/key=str", run: v_u16_bfv_noshards64_str, bits: 16, boxed: false, int_keys: false },
    Variant { name: "u32/BitFieldVec/sig128/FuseLge3FullSigs/key=u64", run: v_u32_bfv_fullsigs_u64, bits: 32, boxed: false, int_keys: true },
    Variant { name: "u64/BitFieldVec/sig128/FuseLge3NoShards/key=usize", run: v_u64_bfv_noshards128_usize, bits: 64, boxed: false, int_keys: true },
    Variant { name: "usize/BitFieldVec/sig128/FuseLge3Shards/key=String", run: v_usize_bfv_shards_string, bits: 64, boxed: false, int_keys: false },
    Variant { name: "u8/Box/sig128/FuseLge3Shards/key=usize", run: v_u8_box_shards_usize, bits: 8, boxed: true, int_keys: true },
    Variant { name: "u8/Box/sig64/FuseLge3NoShards/key=u64", run: v_u8_box_noshards64_u64, bits: 8, boxed: true, int_keys: true },
    Variant { name: "u16/Box/sig128/FuseLge3FullSigs/key=str", run: v_u16_box_fullsigs_str, bits: 16, boxed: true, int_keys: false },
    Variant { name: "u32/Box/sig64/FuseLge3NoShards/key=u64", run: v_u32_box_noshards64_u64, bits: 32, boxed: true, int_keys: true },
    Variant { name: "u64/Box/sig128/FuseLge3Shards/key=String", run: v_u64_box_shards_string, bits: 64, boxed: true, int_keys: false },
    Variant { name: "u16/Box/sig128/FuseLge3Shards/key=&[u32]", run: v_u16_box_shards_words, bits: 16, boxed: true, int_keys: false },
    Variant { name: "u32/BitFieldVec/sig64/FuseLge3NoShards/key=&[u32]", run: v_u32_bfv_noshards64_words, bits: 32, boxed: false, int_keys: false },
];

fn pick<T: Copy>(r: &mut SmallRng, xs: &[T]) -> T {
    xs[r.random_range(0..xs.len())]
}

fn rand_cfg(r: &mut SmallRng, n: usize) -> Cfg {
    let offline = n <= 100_000 && r.random_range(0..5) == 0;
    let (a, b) = (r.random::<u64>(), r.random::<u64>());
    Cfg {
        hint: pick(r, &[Hint::Absent, Hint::Absent, Hint::Exact, Hint::Exact, Hint::Tenth, Hint::Zero, Hint::Plus1, Hint::Double, Hint::Times8, Hint::Fixed(800_000)]),
        threads: pick(r, &[None, Some(1), Some(2), Some(3), Some(8), Some(16)]),
        offline,
        low_mem: pick(r, &[None, Some(false), Some(true)]),
        seed: pick(r, &[0, 0, 1, a, b]),
        log2_buckets: if offline { pick(r, &[Some(0), Some(2), Some(4)]) } else { pick(r, &[None, Some(0), Some(4), Some(8), Some(10)]) },
        eps: pick(r, &[None, Some(0.001), Some(0.01), Some(0.1)]),
        check_dups: r.random_range(0..6) == 0,
    }
}

fn main() {
    default_thread_stacks();
    let mut ctx = Ctx::from_args("C08");
    ctx.set_hang_limit(600);
    let debug = cfg!(debug_assertions);
    let thorough = ctx.thorough();
    let mut r = ctx.rng(8);
    let timing = timing_enabled();
    let mut run = |ctx: &mut Ctx, v: usize, s: Scn| {
        let var = &VARIANTS[v];
        let t0 = cpu_secs();
        let runs = ctx.next_runs();
        let st = s.stratum(var.bits, var.boxed);
        ctx.case(var.name, &st, "build+contains", |c| (var.run)(c, &s));
        if runs && timing {
            eprintln!("TIME {:.4} {} {}", cpu_secs() - t0, var.name, st);
        }
    };
    let mk = |r: &mut SmallRng, group: &'static str, n: usize, b: u32, probes: usize, cfg: Cfg| Scn { n, kk: r.random_range(0..12), salt: r.random::<u64>() >> 1, cfg, b, probes, group };
    // the largest key set whose rate is measured in this build (debug builds: 10^4)
    let rate_ns: Vec<usize> = if debug { vec![1000, 10_000] } else if thorough { vec![1000, 100_000, 1_000_000] } else { vec![1000, 100_000] };

    // 1. rates: hash widths x backends x key-set sizes
    for v in 0..VARIANTS.len() {
        let var = &VARIANTS[v];
        let bs: Vec<u32> = if var.boxed {
            vec![var.bits]
        } else if thorough {
            (1..=var.bits).collect()
        } else {
            [1u32, 2, 3, 7, 8, 9, 15, 16, 31, 32, 63, 64].iter().copied().filter(|&b| b <= var.bits).collect()
        };
        for &b in bs.iter() {
            for &n in rate_ns.iter() {
                if n == 1_000_000 && !(var.int_keys && (b % 8 == 0 || b % 8 == 1 || b == 7 || b == 15 || var.boxed)) {
                    continue;
                }
                if thorough && debug && n == 10_000 && b % 4 != 1 && !var.boxed {
                    continue;
                }
                let cfg = if n == 1000 || var.boxed { rand_cfg(&mut r, n) } else { Cfg { hint: pick(&mut r, &[Hint::Absent, Hint::Exact, Hint::Tenth]), seed: r.random(), ..Cfg::default() } };
                let s = mk(&mut r, "rate", n, b, probes_for(b), cfg);
                run(&mut ctx, v, s);
            }
        }
    }

    // 2. members only: tiny and edge key counts, every width class, random configurations
    for v in 0..VARIANTS.len() {
        let var = &VARIANTS[v];
        let ns: &[usize] = &[0, 1, 2, 3, 10, 99, 100, 101, 300];
        for (ni, &n) in ns.iter().enumerate() {
            let bs: Vec<u32> = if var.boxed { vec![var.bits] } else { vec![1, 2, var.bits / 2, var.bits - 5, var.bits - 4, var.bits - 1, var.bits] };
            for (bi, &b) in bs.iter().enumerate() {
                if (ni + bi) % 2 == 1 && !var.boxed {
                    continue;
                }
                let cfg = rand_cfg(&mut r, n);
                let s = mk(&mut r, "members", n, b.max(1), 0, cfg);
                run(&mut ctx, v, s);
            }
        }
    }
    // ... and the regime edges of the builder (members only, one width per variant)
    {
        let mut edges: Vec<usize> = vec![10_000, 49_999, 50_000, 99_999, 100_000, 100_001];
        if !debug {
            edges.push(200_000);
        }
        if thorough && !debug {
            edges.extend_from_slice(&[400_000, 799_999, 800_000, 800_001]);
        }
        for v in 0..VARIANTS.len() {
            let var = &VARIANTS[v];
            for (ei, &n) in edges.iter().enumerate() {
                if !var.int_keys && n > 100_001 {
                    continue;
                }
                if debug && (ei + v) % 2 == 1 {
                    continue;
                }
                let b = if var.boxed { var.bits } else { pick(&mut r, &[1, 5, var.bits - 1, var.bits]) };
                let mut cfg = rand_cfg(&mut r, n);
                if n >= 100_000 && ei % 2 == 0 {
                    cfg.hint = Hint::Tenth;
                }
                let s = mk(&mut r, "members-regime-edge", n, b, 0, cfg);
                run(&mut ctx, v, s);
            }
        }
    }

    // 2b. key counts at which the unsharded fuse graph (peeling, no lazy Gaussian
    //     elimination) is known to fail its first attempts on this code base: the
    //     retry after an incomplete peeling must be taken (release builds only;
    //     note c08_counters.peel_regime_builds_that_retried says whether it was)
    if !debug {
        for v in 0..VARIANTS.len() {
            let var = &VARIANTS[v];
            if !var.name.contains("NoShards") || !var.int_keys {
                continue;
            }
            let ns: &[usize] = if thorough { &[126_191, 126_288, 126_359, 126_385, 126_401, 126_450, 126_482, 126_499, 126_520] } else { &[126_359, 126_401, 126_450, 126_499] };
            for (i, &n) in ns.iter().enumerate() {
                for (j, seed) in [0u64, 0, 1].into_iter().enumerate() {
                    let b = if var.boxed { var.bits } else { [8, var.bits, 11][j] };
                    let cfg = Cfg { seed, low_mem: [None, Some(true), Some(false)][(i + j) % 3], hint: [Hint::Absent, Hint::Exact][(i + j) % 2], ..Cfg::default() };
                    let s = mk(&mut r, "peel-retry", n, b, 0, cfg);
                    run(&mut ctx, v, s);
                }
            }
        }
    }

    // 2c. sharded builds (4 and 8 shards) under many builder seeds: a few per cent
    //     of them draw an unbalanced sharding (largest shard > 1.01 x average) and
    //     must start over with a new seed *after rewinding their input* (release
    //     builds only; c08_counters.sharded_builds_that_retried says how many did)
    if !debug {
        for v in 0..VARIANTS.len() {
            let var = &VARIANTS[v];
            if !var.name.contains("FuseLge3Shards") || !var.int_keys {
                continue;
            }
            let plan: &[(usize, u64)] = if thorough { &[(200_000, 40), (400_000, 60), (799_999, 20)] } else { &[(200_000, 16), (400_000, 24)] };
            for &(n, seeds) in plan {
                for seed in 0..seeds {
                    let b = if var.boxed { var.bits } else { var.bits.min(9) };
                    let cfg = Cfg { seed: if seed % 2 == 0 { seed } else { 75 + 44 * seed }, hint: [Hint::Absent, Hint::Exact, Hint::Tenth][(seed % 3) as usize], ..Cfg::default() };
                    let s = mk(&mut r, "max-shard-retry", n, b, 0, cfg);
                    run(&mut ctx, v, s);
                }
            }
        }
    }

    // 3. random rounds: random width, size, configuration; rate judged when n >= 1000
    let rounds = ctx.scale(5, 8_000, 100_000);
    for _ in 0..rounds {
        let v = r.random_range(0..VARIANTS.len());
        let var = &VARIANTS[v];
        let b = if var.boxed { var.bits } else { r.random_range(1..=var.bits) };
        let rate = r.random_range(0..6) == 0;
        let n = if rate {
            pick(&mut r, &[1000usize, 1500, 2048, 5000, 10_000, 30_000]).min(if debug { 10_000 } else { 30_000 })
        } else {
            match r.random_range(0..10) {
                0..=5 => r.random_range(0..=300),
                6..=8 => r.random_range(301..=5000),
                _ => r.random_range(5001..=if debug { 20_000 } else { 60_000 }),
            }
        };
        let cfg = rand_cfg(&mut r, n);
        let s = mk(&mut r, "random", n, b, if rate { probes_for(b) } else { 0 }, cfg);
        run(&mut ctx, v, s);
        if ctx.out_of_time() {
            break;
        }
    }

    let counters = format!(
        "{{\"builds_ok\":{},\"peel_regime_builds_that_retried\":{},\"sharded_builds_that_retried\":{},\"slow_convergence_builds_over_64_attempts\":{},\"abandoned_after_a_no_progress_violation\":{},\"members_checked\":{},\"non_member_probes\":{},\"rate_bands_judged\":{},\"first_samples_outside_the_band_retested\":{}}}",
        BUILDS_OK.with(|c| c.get()),
        PEEL_RETRY.with(|c| c.get()),
        SHARD_RETRY.with(|c| c.get()),
        BUILDS_SLOW.with(|c| c.get()),
        ABANDONED.with(|c| c.get()),
        MEMBERS.with(|c| c.get()),
        PROBES.with(|c| c.get()),
        BANDS.with(|c| c.get()),
        RETESTS.with(|c| c.get())
    );
    ctx.note("c08_counters", &counters);
    ctx.note("c08_largest_deviation_of_a_first_sample_in_sigma_x100_(bands_with_Np>=10)", &format!("\"{}\"", MAX_Z.with(|c| c.get())));
    ctx.finish();
}
