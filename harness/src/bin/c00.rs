// smoke test of the observation layer
use suxmon::obs::*;
fn main() {
    let mut ctx = Ctx::from_args("C00");
    for i in 0..10u64 {
        ctx.case("v", "s", "op", |c| {
            c.describe(|| format!("i={i}"));
            c.nontrivial();
            c.eq("id", i, i, i);
            if i == 3 { c.eq("id", i, i, i + 1); }
            if i == 5 { let v: Vec<u8> = vec![]; let _ = v[i as usize]; }
            if i == 7 { c.expect_panic("rej", || 1); }
            if i == 8 { let s: &[u8] = &[]; unsafe { std::hint::black_box(s.get_unchecked(std::hint::black_box(3))); } }
        });
    }
    ctx.finish();
}
