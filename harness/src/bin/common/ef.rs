//! Shared by c03.rs and c04.rs: monotone-sequence generators with their
//! (n, u, sequence) strata, the ways of building an Elias–Fano structure and
//! of finishing it with a selection back-end.
//!
//! Nothing in here reads anything back from sux to form an expectation: the
//! generated `Vec<usize>` is the oracle.
#![allow(dead_code)]
use rand::rngs::SmallRng;
use rand::{Rng, RngCore};
use sux::dict::elias_fano::{EfDict, EfSeq, EfSeqDict};
use sux::dict::{EliasFano, EliasFanoBuilder, EliasFanoConcurrentBuilder};
use sux::rank_sel::{SelectAdaptConst, SelectZeroAdaptConst};
use suxmon::obs::*;

pub const MAXU: usize = usize::MAX;

/// Values of `n` on the edges of words, of the default inventories (4096) and
/// of small powers of two.
pub const N_EDGES: &[usize] = &[
    0, 1, 2, 3, 4, 5, 7, 8, 9, 15, 16, 17, 31, 32, 33, 63, 64, 65, 66, 127, 128, 129, 255, 256, 257, 511, 512, 513,
    1000, 1023, 1024, 1025, 4095, 4096, 4097,
];
pub const N_SMALL: &[usize] = &[0, 1, 2, 3, 5, 8, 31, 63, 64, 65, 130];

pub fn n_class(n: usize) -> String {
    if n <= 5 || N_EDGES.contains(&n) {
        format!("n{}", n)
    } else {
        format!("n~2^{}", n.ilog2())
    }
}

/// Coarse classes used in the violation signature (the exact classes go into
/// the coverage cell): one defect should give a handful of signatures.
pub fn n_coarse(n: usize) -> &'static str {
    match n {
        0 => "n0",
        1 => "n1",
        2 => "n2",
        3..=63 => "n3-63",
        64..=4095 => "n64-4095",
        _ => "n>=4096",
    }
}

/// "u=n*2^17+1" -> "u=n*2^k+1"; "u=n-1", "u=n/8" -> "u<n"; the rest unchanged.
pub fn u_coarse(ucls: &str) -> String {
    if let Some(rest) = ucls.strip_prefix("u=n*2^") {
        let tail: String = rest.chars().skip_while(|ch| ch.is_ascii_digit()).collect();
        return format!("u=n*2^k{}", tail);
    }
    match ucls {
        "u=n-1" | "u=n/8" => "u<n".into(),
        "u=n" | "u=n+1" => "u=n(+1)".into(),
        "u=xmax" | "u=xmax+1" => "u=xmax(+1)".into(),
        "u=1" | "u=2" | "u=64" | "u=2^32" => "u-small".into(),
        other => other.into(),
    }
}

/// The harness's own idea of the number of lower bits (only used to aim
/// generators and queries at bucket boundaries; never an expectation).
pub fn l_est(n: usize, u: usize) -> usize {
    if n == 0 || u < n {
        0
    } else {
        (u / n).ilog2() as usize
    }
}

/// (n, u) pairs on which the pinned tree cannot even construct a builder
/// (DESIGN.md section 7 item 10). They are admissible for the property, so
/// they are exercised, but in strata of their own.
pub fn defective_nu(n: usize, u: usize) -> Option<&'static str> {
    if n == 0 && u > 0 {
        Some("n0,u>0")
    } else if n == 1 && u >= MAXU - 1023 {
        // u as f64 rounds to 2^64, l = 64
        Some("n1,u>=2^64-1024")
    } else {
        None
    }
}

#[derive(Clone, Debug)]
pub enum UKind {
    Fixed(usize),
    /// u = last element + plus; the elements are drawn below a bound chosen in the case
    XMax(usize),
}

/// All universe classes for a given n: (class name, kind).
pub fn u_classes(n: usize, sweep_all_k: bool) -> Vec<(String, UKind)> {
    let mut v: Vec<(String, UKind)> = vec![];
    v.push(("u=0".into(), UKind::Fixed(0)));
    v.push(("u=xmax".into(), UKind::XMax(0)));
    v.push(("u=xmax+1".into(), UKind::XMax(1)));
    if n >= 1 {
        v.push(("u=n-1".into(), UKind::Fixed(n - 1)));
        v.push(("u=n".into(), UKind::Fixed(n)));
        v.push(("u=n+1".into(), UKind::Fixed(n + 1)));
        let ks: Vec<u32> = if sweep_all_k {
            (1..64).collect()
        } else {
            vec![1, 2, 3, 4, 7, 8, 9, 15, 16, 17, 20, 31, 32, 33, 40, 47, 50, 51, 52, 53, 54, 60, 61, 62, 63]
        };
        for k in ks {
            let Some(p) = n.checked_mul(1usize << k) else { continue };
            v.push((format!("u=n*2^{}-1", k), UKind::Fixed(p - 1)));
            v.push((format!("u=n*2^{}", k), UKind::Fixed(p)));
            if let Some(q) = p.checked_add(1) {
                v.push((format!("u=n*2^{}+1", k), UKind::Fixed(q)));
            }
        }
    } else {
        for (name, u) in [("u=1", 1usize), ("u=2", 2), ("u=64", 64), ("u=2^32", 1 << 32)] {
            v.push((name.into(), UKind::Fixed(u)));
        }
    }
    for (name, u) in [
        ("u=2^53-1", (1usize << 53) - 1),
        ("u=2^53", 1usize << 53),
        ("u=2^53+1", (1usize << 53) + 1),
        ("u=2^63-1", (1usize << 63) - 1),
        ("u=2^63", 1usize << 63),
        ("u=2^63+1", (1usize << 63) + 1),
        ("u=2^64-1025", MAXU - 1024),
        ("u=2^64-1024", MAXU - 1023),
        ("u=MAX-1", MAXU - 1),
        ("u=MAX", MAXU),
    ] {
        v.push((name.into(), UKind::Fixed(u)));
    }
    v
}

/// A reduced list (back-end centred strata).
pub fn u_core(n: usize) -> Vec<(String, UKind)> {
    let mut v: Vec<(String, UKind)> = vec![("u=xmax".into(), UKind::XMax(0))];
    if n >= 1 {
        v.push(("u=n-1".into(), UKind::Fixed(n - 1)));
        v.push(("u=n".into(), UKind::Fixed(n)));
        v.push(("u=n*2^1".into(), UKind::Fixed(2 * n)));
        v.push(("u=n*2^7".into(), UKind::Fixed(n << 7)));
        v.push(("u=n*2^20+1".into(), UKind::Fixed((n << 20) + 1)));
        v.push(("u=2^63".into(), UKind::Fixed(1 << 63)));
        if n >= 2 {
            v.push(("u=MAX".into(), UKind::Fixed(MAXU)));
        } else {
            v.push(("u=2^64-1025".into(), UKind::Fixed(MAXU - 1024)));
        }
    } else {
        v.push(("u=0".into(), UKind::Fixed(0)));
    }
    v
}

#[derive(Clone, Copy, Debug, PartialEq, Eq)]
pub enum SCls {
    Random,
    All0,
    AllU,
    AllEq,
    EndU,
    FirstLast,
    DupRuns,
    HugeGap,
    Arith,
    BucketEdges,
    Dense,
    Clusters,
}

pub const SCLS_ALL: &[SCls] = &[
    SCls::Random,
    SCls::DupRuns,
    SCls::EndU,
    SCls::HugeGap,
    SCls::AllU,
    SCls::BucketEdges,
    SCls::FirstLast,
    SCls::All0,
    SCls::Arith,
    SCls::AllEq,
    SCls::Dense,
    SCls::Clusters,
];

impl SCls {
    pub fn name(&self) -> &'static str {
        match self {
            SCls::Random => "random",
            SCls::All0 => "all0",
            SCls::AllU => "allu",
            SCls::AllEq => "alleq",
            SCls::EndU => "endu",
            SCls::FirstLast => "0..u",
            SCls::DupRuns => "dupruns",
            SCls::HugeGap => "hugegap",
            SCls::Arith => "arith",
            SCls::BucketEdges => "bucketedges",
            SCls::Dense => "dense",
            SCls::Clusters => "clusters",
        }
    }
}

pub fn rand_upto(rng: &mut SmallRng, max: usize) -> usize {
    if max == MAXU {
        rng.next_u64() as usize
    } else {
        rng.random_range(0..=max)
    }
}

/// n sorted values, all <= u, of the given class.
pub fn gen_seq(rng: &mut SmallRng, n: usize, u: usize, s: SCls) -> Vec<usize> {
    if n == 0 {
        return vec![];
    }
    let mut v: Vec<usize> = match s {
        SCls::Random => (0..n).map(|_| rand_upto(rng, u)).collect(),
        SCls::All0 => vec![0; n],
        SCls::AllU => vec![u; n],
        SCls::AllEq => vec![rand_upto(rng, u); n],
        SCls::EndU => {
            let mut v: Vec<usize> = (0..n).map(|_| rand_upto(rng, u)).collect();
            v[0] = u;
            v
        }
        SCls::FirstLast => {
            let mut v: Vec<usize> = (0..n).map(|_| rand_upto(rng, u)).collect();
            v[0] = u;
            if n > 1 {
                v[1] = 0;
            }
            v
        }
        SCls::DupRuns => {
            // few distinct values, long runs (they cross word boundaries of the
            // upper-bits array as soon as a run is longer than 64)
            let distinct = 1 + rng.random_range(0..(n / 48).max(1).min(12));
            let vals: Vec<usize> = (0..distinct)
                .map(|_| match rng.random_range(0..6) {
                    0 => 0,
                    1 => u,
                    _ => rand_upto(rng, u),
                })
                .collect();
            (0..n).map(|_| vals[rng.random_range(0..vals.len())]).collect()
        }
        SCls::HugeGap => {
            // a cluster at the bottom, a cluster at the top, nothing between
            let w = u.min(n.max(2) / 2);
            let split = match rng.random_range(0..4) {
                0 => 1.min(n),
                1 => n - 1,
                2 => (n / 4096) * 4096 + [0usize, 1, 4095][rng.random_range(0..3)].min(n % 4096),
                _ => rng.random_range(0..=n),
            }
            .min(n);
            (0..n).map(|i| if i < split { rand_upto(rng, w) } else { u - rand_upto(rng, w) }).collect()
        }
        SCls::Arith => (0..n).map(|i| ((i as u128 * u as u128) / n as u128) as usize).collect(),
        SCls::BucketEdges => {
            // values right below / at / above multiples of 2^l for l around the expected one
            let l0 = l_est(n, u);
            (0..n)
                .map(|_| {
                    let l = (l0 + rng.random_range(0..3usize)).saturating_sub(1).min(63);
                    let k = rand_upto(rng, u >> l);
                    let base = k << l;
                    let x = match rng.random_range(0..3) {
                        0 => base.saturating_sub(1),
                        1 => base,
                        _ => base.saturating_add((1usize << l) - 1),
                    };
                    x.min(u)
                })
                .collect()
        }
        SCls::Dense => {
            // consecutive integers (with a few repeats when u is too small)
            if u >= n - 1 {
                let base = rand_upto(rng, u - (n - 1));
                (0..n).map(|i| base + i).collect()
            } else {
                (0..n).map(|i| ((i as u128 * (u as u128 + 1)) / n as u128) as usize).collect()
            }
        }
        SCls::Clusters => {
            // a handful of dense clusters far apart: long stretches of empty buckets
            let k = 1 + rng.random_range(0..6usize);
            let centres: Vec<usize> = (0..k).map(|_| rand_upto(rng, u)).collect();
            let spread = (u / n.max(1)).max(1).min(1 << 20);
            (0..n)
                .map(|_| {
                    let c = centres[rng.random_range(0..k)];
                    let d = rng.random_range(0..=spread);
                    if rng.random_bool(0.5) {
                        c.saturating_sub(d)
                    } else {
                        c.saturating_add(d).min(u)
                    }
                })
                .collect()
        }
    };
    v.sort_unstable();
    v
}

/// Resolves a universe class into a concrete sequence and bound.
pub fn gen_seq_u(rng: &mut SmallRng, n: usize, uk: &UKind, s: SCls) -> (Vec<usize>, usize) {
    match uk {
        UKind::Fixed(u) => (gen_seq(rng, n, *u, s), *u),
        UKind::XMax(plus) => {
            let bound = match rng.random_range(0..8) {
                0 => n / 2,
                1 => n,
                2 => n.saturating_mul(3),
                3 => n.saturating_mul(1 << 7),
                4 => 1usize << 40,
                5 => (1usize << 63) + 12345,
                6 => MAXU - 1 - 1024, // keeps (n=1, xmax+1) out of the defective region
                _ => rng.random_range(0..=n.saturating_mul(20) + 10),
            };
            let xs = gen_seq(rng, n, bound, s);
            let u = xs.last().copied().unwrap_or(0) + if n == 0 { 0 } else { *plus };
            (xs, u)
        }
    }
}

pub fn show_seq(xs: &[usize]) -> String {
    if xs.len() <= 1200 {
        format!("{:?}", xs)
    } else {
        let mut h = 0xcbf2_9ce4_8422_2325u64;
        for &x in xs {
            h = mix(h, x as u64);
        }
        format!(
            "[{} values, first 40 = {:?}, last 40 = {:?}, hash {:016x}]",
            xs.len(),
            &xs[..40],
            &xs[xs.len() - 40..],
            h
        )
    }
}

/// The neighbourhood of an index, for failure details.
pub fn around(xs: &[usize], i: usize) -> String {
    if xs.len() <= 48 {
        return format!("xs={:?}", xs);
    }
    let i = i.min(xs.len());
    let a = i.saturating_sub(6);
    let b = (i + 7).min(xs.len());
    format!("n={} xs[{}..{}]={:?} x_0={} x_last={}", xs.len(), a, b, &xs[a..b], xs[0], xs[xs.len() - 1])
}

// ---------------------------------------------------------------------------
// builders

#[derive(Clone, Copy, Debug, PartialEq, Eq)]
pub enum Bld {
    Push,
    Extend,
    ExtendChunks,
    FromSlice,
    FromVec,
    Concurrent,
}

pub const BLD_ALL: &[Bld] = &[Bld::Push, Bld::Extend, Bld::Concurrent, Bld::ExtendChunks, Bld::FromSlice, Bld::FromVec];
/// Builders that take (n, u) from the caller.
pub const BLD_NU: &[Bld] = &[Bld::Push, Bld::Extend, Bld::Concurrent, Bld::ExtendChunks];

impl Bld {
    pub fn name(&self) -> &'static str {
        match self {
            Bld::Push => "push",
            Bld::Extend => "extend",
            Bld::ExtendChunks => "extend-chunks",
            Bld::FromSlice => "from-slice",
            Bld::FromVec => "from-vec",
            Bld::Concurrent => "concurrent-set",
        }
    }
    pub fn takes_u(&self) -> bool {
        !matches!(self, Bld::FromSlice | Bld::FromVec)
    }
}

pub enum Built {
    Seq(EliasFanoBuilder),
    Conc(EliasFanoConcurrentBuilder),
    Base(EliasFano),
}

/// Feeds `xs` to the chosen builder. Every step that may panic on a defective
/// tree is guarded under its own op name (`new`, `push`, `extend`, `set`,
/// `from`); `None` means the structure could not be built (already recorded).
pub fn feed(c: &mut Case, b: Bld, xs: &[usize], u: usize, d: &dyn Fn() -> String) -> Option<Built> {
    let n = xs.len();
    match b {
        Bld::Push | Bld::Extend | Bld::ExtendChunks => {
            let mut efb = match catch(|| EliasFanoBuilder::new(n, u)) {
                Ok(x) => x,
                Err(m) => {
                    c.fail("new", "panic", &m, &format!("EliasFanoBuilder::new({}, {}) panicked; {}", n, u, d()));
                    return None;
                }
            };
            match b {
                Bld::Push => {
                    let mut at = 0usize;
                    let r = catch(|| {
                        for (i, &x) in xs.iter().enumerate() {
                            at = i;
                            efb.push(x);
                        }
                    });
                    if let Err(m) = r {
                        c.fail("push", "panic", &m, &format!("push({}) as value #{} panicked on an admissible value; {}", xs[at], at, d()));
                        return None;
                    }
                }
                Bld::Extend => {
                    // through an iterator whose size_hint is legal but inexact
                    let mode = (n % 6) as u8;
                    let r = catch(|| efb.extend(suxmon::gen::HintIter::new(xs.iter().copied(), n, mode)));
                    if let Err(m) = r {
                        c.fail("extend", "panic", &m, &format!("extend(all {} values) panicked; {}", n, d()));
                        return None;
                    }
                }
                _ => {
                    // several extend calls of random sizes (including empty ones) mixed with pushes
                    let mut i = 0;
                    while i < n {
                        let k = c.rng().random_range(0..=(n - i).min(70));
                        let chunk: Vec<usize> = xs[i..i + k].to_vec();
                        let r = catch(|| efb.extend(chunk));
                        if let Err(m) = r {
                            c.fail("extend", "panic", &m, &format!("extend(xs[{}..{}]) panicked; {}", i, i + k, d()));
                            return None;
                        }
                        i += k;
                        if i < n && c.rng().random_bool(0.3) {
                            let x = xs[i];
                            if let Err(m) = catch(|| efb.push(x)) {
                                c.fail("push", "panic", &m, &format!("push({}) as value #{} panicked; {}", x, i, d()));
                                return None;
                            }
                            i += 1;
                        }
                    }
                }
            }
            Some(Built::Seq(efb))
        }
        Bld::Concurrent => {
            let efb = match catch(|| EliasFanoConcurrentBuilder::new(n, u)) {
                Ok(x) => x,
                Err(m) => {
                    c.fail("new", "panic", &m, &format!("EliasFanoConcurrentBuilder::new({}, {}) panicked; {}", n, u, d()));
                    return None;
                }
            };
            // every index exactly once, in a shuffled order (sequentially:
            // concurrency is C13's business)
            let mut order: Vec<usize> = (0..n).collect();
            for i in (1..n).rev() {
                let j = c.rng().random_range(0..=i);
                order.swap(i, j);
            }
            let mut at = 0;
            let r = catch(|| {
                for &i in &order {
                    at = i;
                    unsafe { efb.set(i, xs[i]) };
                }
            });
            if let Err(m) = r {
                c.fail("set", "panic", &m, &format!("set({}, {}) panicked; {}", at, xs[at], d()));
                return None;
            }
            Some(Built::Conc(efb))
        }
        Bld::FromSlice => match catch(|| EliasFano::from(xs)) {
            Ok(e) => Some(Built::Base(e)),
            Err(m) => {
                c.fail("from", "panic", &m, &format!("EliasFano::from(&[usize]) panicked on a monotone slice; {}", d()));
                None
            }
        },
        Bld::FromVec => {
            let v = xs.to_vec();
            match catch(|| -> EliasFano { v.into() }) {
                Ok(e) => Some(Built::Base(e)),
                Err(m) => {
                    c.fail("from", "panic", &m, &format!("Vec<usize>::into() panicked on a monotone vector; {}", d()));
                    None
                }
            }
        }
    }
}

impl Built {
    pub fn base(self) -> EliasFano {
        match self {
            Built::Seq(b) => b.build(),
            Built::Conc(b) => b.build(),
            Built::Base(e) => e,
        }
    }
    pub fn seq(self) -> EfSeq {
        match self {
            Built::Seq(b) => b.build_with_seq(),
            Built::Conc(b) => b.build_with_seq(),
            Built::Base(e) => unsafe { e.map_high_bits(SelectAdaptConst::<_, _, 12, 3>::new) },
        }
    }
    pub fn dict(self) -> EfDict {
        match self {
            Built::Seq(b) => b.build_with_dict(),
            Built::Conc(b) => b.build_with_dict(),
            Built::Base(e) => unsafe { e.map_high_bits(SelectZeroAdaptConst::<_, _, 12, 3>::new) },
        }
    }
    pub fn seq_dict(self) -> EfSeqDict {
        match self {
            Built::Seq(b) => b.build_with_seq_and_dict(),
            Built::Conc(b) => b.build_with_seq_and_dict(),
            Built::Base(e) => unsafe {
                e.map_high_bits(SelectAdaptConst::<_, _, 12, 3>::new)
                    .map_high_bits(SelectZeroAdaptConst::<_, _, 12, 3>::new)
            },
        }
    }
}

/// Runs `f` under `catch`, recording a panic as a violation of `op`.
pub fn guarded<R>(c: &mut Case, op: &str, what: &str, d: &dyn Fn() -> String, f: impl FnOnce() -> R) -> Option<R> {
    match catch(f) {
        Ok(r) => Some(r),
        Err(m) => {
            c.fail(op, "panic", &m, &format!("{} panicked; {}", what, d()));
            None
        }
    }
}
