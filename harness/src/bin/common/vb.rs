//! Shared by c07 / c08 / c17: key sources, the probing (counting and
//! fault-injecting) rewindable lender, builder configurations.
//!
//! Nothing in here derives expectations from sux: keys and values are pure
//! functions of an index written here, the lender only *serves* them and
//! records what the builder asked for.
#![allow(dead_code)]
use lender::{Lend, Lender, Lending};
use std::cell::{Cell, RefCell};
use std::io;
use sux::utils::RewindableIoLender;

/// The design's nominal bound: successful builds that needed more attempts
/// (= rewinds of the key lender) than this are counted as "slow convergence"
/// in the evidence; they are not violations.
pub const SOFT_ATTEMPTS: u32 = 64;
pub const SMALL_N: usize = 5_000;
/// The bound that decides "no progress" (violation of "terminates"). The
/// pinned tree needs hundreds of attempts (success probability 0.1-1 % per
/// attempt) for many key counts between 100 and ~1200 (see
/// notes/C07-defects.md) and still terminates with probability 1; a build that
/// is still failing after 20000 attempts on such a small key set, or after 200
/// on a larger one (where an attempt fails with probability < 0.2), is not
/// going to succeed. The lender refuses the next rewind, so the build stops.
pub fn attempt_limit(n: usize) -> u32 {
    if n > SMALL_N {
        200
    } else {
        20_000
    }
}

/// Set once a no-progress violation has been recorded in this process: later
/// builds are then abandoned (without a verdict) after `SOFT_ATTEMPTS`
/// attempts, so that a tree whose retry loop never ends does not cost 20000
/// attempts in every single case.
pub static NOPROG_SEEN: std::sync::atomic::AtomicBool = std::sync::atomic::AtomicBool::new(false);

pub fn degraded() -> bool {
    NOPROG_SEEN.load(std::sync::atomic::Ordering::Relaxed)
}

pub fn effective_limit(n: usize) -> u32 {
    if degraded() {
        SOFT_ATTEMPTS
    } else {
        attempt_limit(n)
    }
}
pub const TAG_FAULT: &str = "SUXMON-INJECTED-FAULT";
pub const TAG_NOPROG: &str = "SUXMON-NO-PROGRESS";

// ---------------------------------------------------------------------------
// key / value sources: position -> &T

pub trait Src {
    type T: ?Sized;
    fn len(&self) -> usize;
    fn at(&mut self, i: usize) -> &Self::T;
}

/// Items computed on the fly (integer keys of any count, values).
pub struct FnSrc<K, F: Fn(usize) -> K> {
    pub n: usize,
    pub f: F,
    pub slot: K,
}
impl<K: Default, F: Fn(usize) -> K> FnSrc<K, F> {
    pub fn new(n: usize, f: F) -> Self {
        FnSrc { n, f, slot: K::default() }
    }
}
impl<K, F: Fn(usize) -> K> Src for FnSrc<K, F> {
    type T = K;
    fn len(&self) -> usize {
        self.n
    }
    fn at(&mut self, i: usize) -> &K {
        self.slot = (self.f)(i);
        &self.slot
    }
}

/// `&[K]` lending `&K` (K = usize, u64, String, ...).
pub struct SliceSrc<'a, K>(pub &'a [K]);
impl<'a, K> Src for SliceSrc<'a, K> {
    type T = K;
    fn len(&self) -> usize {
        self.0.len()
    }
    fn at(&mut self, i: usize) -> &K {
        &self.0[i]
    }
}

/// `&[String]` lending `&str` (key type `str`).
pub struct StrSrc<'a>(pub &'a [String]);
impl<'a> Src for StrSrc<'a> {
    type T = str;
    fn len(&self) -> usize {
        self.0.len()
    }
    fn at(&mut self, i: usize) -> &str {
        self.0[i].as_str()
    }
}

/// `&[String]` lending `&&str` (key type `&str`).
pub struct StrRefSrc<'a> {
    pub v: &'a [String],
    pub slot: &'a str,
}
impl<'a> StrRefSrc<'a> {
    pub fn new(v: &'a [String]) -> Self {
        StrRefSrc { v, slot: "" }
    }
}
impl<'a> Src for StrRefSrc<'a> {
    type T = &'a str;
    fn len(&self) -> usize {
        self.v.len()
    }
    fn at(&mut self, i: usize) -> &&'a str {
        self.slot = self.v[i].as_str();
        &self.slot
    }
}

/// `&[Vec<u8>]` lending `&&[u8]` (key type `&[u8]`).
pub struct BytesSrc<'a> {
    pub v: &'a [Vec<u8>],
    pub slot: &'a [u8],
}
impl<'a> BytesSrc<'a> {
    pub fn new(v: &'a [Vec<u8>]) -> Self {
        BytesSrc { v, slot: &[] }
    }
}
impl<'a> Src for BytesSrc<'a> {
    type T = &'a [u8];
    fn len(&self) -> usize {
        self.v.len()
    }
    fn at(&mut self, i: usize) -> &&'a [u8] {
        self.slot = self.v[i].as_slice();
        &self.slot
    }
}

/// `&[Vec<u32>]` lending `&&[u32]` (key type `&[u32]`: a slice of multi-byte elements).
pub struct WordsSrc<'a> {
    pub v: &'a [Vec<u32>],
    pub slot: &'a [u32],
}
impl<'a> WordsSrc<'a> {
    pub fn new(v: &'a [Vec<u32>]) -> Self {
        WordsSrc { v, slot: &[] }
    }
}
impl<'a> Src for WordsSrc<'a> {
    type T = &'a [u32];
    fn len(&self) -> usize {
        self.v.len()
    }
    fn at(&mut self, i: usize) -> &&'a [u32] {
        self.slot = self.v[i].as_slice();
        &self.slot
    }
}

// ---------------------------------------------------------------------------
// the probing lender

#[derive(Clone, Copy, Debug, PartialEq, Eq)]
pub enum Fault {
    None,
    /// `next` returns the tagged error when asked for position `idx` during pass `pass` (1-based)
    Item { pass: u32, idx: usize },
    /// the `nth` call of `rewind` (1-based) returns the tagged error
    Rewind { nth: u32 },
}

/// What one lender was asked to do during one build.
#[derive(Default)]
pub struct Stats {
    /// calls of `rewind` (successful or not)
    pub rewinds: Cell<u32>,
    /// current pass, 1-based
    pub pass: Cell<u32>,
    /// `next` calls / items served in the current pass
    pub calls: Cell<u64>,
    pub items: Cell<u64>,
    pub ended: Cell<bool>,
    /// total `next` calls over all passes
    pub total_calls: Cell<u64>,
    /// the injected fault was delivered: (pass, position or rewind number)
    pub fired: Cell<Option<(u32, u64)>>,
    /// calls (`next` or `rewind`) received after the fault was delivered
    pub calls_after_fault: Cell<u64>,
    /// the lender refused the 65th rewind
    pub noprog: Cell<bool>,
    /// one entry per pass / rewind: the evidence trace (first passes, then the last one)
    pub trace: RefCell<Vec<String>>,
    pub last: RefCell<String>,
    pub omitted: Cell<u32>,
    /// items served per completed or abandoned pass
    pub pass_items: RefCell<Vec<u64>>,
}

impl Stats {
    pub fn new() -> Self {
        let s = Stats::default();
        s.pass.set(1);
        s
    }
    fn flush_pass(&self, how: &str) {
        let mut t = self.trace.borrow_mut();
        let e = format!(
            "pass{}:{}next/{}items/{}{}",
            self.pass.get(),
            self.calls.get(),
            self.items.get(),
            if self.ended.get() { "None" } else { "open" },
            how
        );
        if t.len() < 12 {
            t.push(e);
        } else {
            if !self.last.borrow().is_empty() {
                self.omitted.set(self.omitted.get() + 1);
            }
            *self.last.borrow_mut() = e;
        }
        self.pass_items.borrow_mut().push(self.items.get());
    }
    pub fn trace_string(&self) -> String {
        let mut s = self.trace.borrow().join(" ");
        if self.omitted.get() > 0 {
            s.push_str(&format!(" ...({} more passes)...", self.omitted.get()));
        }
        if !self.last.borrow().is_empty() {
            s.push(' ');
            s.push_str(&self.last.borrow());
        }
        s
    }
    /// number of passes started (attempts of the builder as seen by this lender)
    pub fn passes(&self) -> u32 {
        self.pass.get()
    }
}

pub struct ProbeLender<'s, S: Src> {
    src: S,
    /// optional indirection position -> source index (duplicates, permutations)
    order: Option<&'s [u32]>,
    n: usize,
    /// one more item after the regular ones: the key with this source index (a duplicate)
    tail: Option<u32>,
    pos: usize,
    stats: &'s Stats,
    fault: Fault,
    tag: u64,
    max_rewinds: u32,
    flushed: bool,
}

impl<'s, S: Src> ProbeLender<'s, S> {
    pub fn new(src: S, stats: &'s Stats) -> Self {
        let n = src.len();
        ProbeLender { src, order: None, n, tail: None, pos: 0, stats, fault: Fault::None, tag: 0, max_rewinds: effective_limit(n), flushed: false }
    }
    pub fn with_order(mut self, order: &'s [u32]) -> Self {
        self.n = order.len();
        self.max_rewinds = effective_limit(self.n);
        self.order = Some(order);
        self
    }
    /// Appends one more item: the key with source index `j` again.
    pub fn with_tail(mut self, j: Option<u32>) -> Self {
        if let Some(j) = j {
            self.tail = Some(j);
            self.n += 1;
        }
        self
    }
    pub fn with_max_rewinds(mut self, max_rewinds: u32) -> Self {
        self.max_rewinds = max_rewinds;
        self
    }
    pub fn with_fault(mut self, fault: Fault, tag: u64) -> Self {
        self.fault = fault;
        self.tag = tag;
        self
    }
}

pub fn fault_tag(tag: u64) -> String {
    format!("{}-{:016x}", TAG_FAULT, tag)
}

fn injected(tag: u64, what: &str) -> io::Error {
    io::Error::new(io::ErrorKind::Other, format!("{} ({})", fault_tag(tag), what))
}

impl<'lend, 's, S: Src> Lending<'lend> for ProbeLender<'s, S> {
    type Lend = Result<&'lend S::T, io::Error>;
}

impl<'s, S: Src> Lender for ProbeLender<'s, S> {
    fn next(&mut self) -> Option<Lend<'_, Self>> {
        let st = self.stats;
        st.calls.set(st.calls.get() + 1);
        st.total_calls.set(st.total_calls.get() + 1);
        if st.fired.get().is_some() {
            st.calls_after_fault.set(st.calls_after_fault.get() + 1);
        }
        if let Fault::Item { pass, idx } = self.fault {
            if pass == st.pass.get() && idx == self.pos && st.fired.get().is_none() {
                st.fired.set(Some((pass, idx as u64)));
                // the record at this position is lost: a later call continues after it
                // (idx == n: the error replaces the end-of-input answer; a later call returns None)
                if self.pos < self.n {
                    self.pos += 1;
                }
                return Some(Err(injected(self.tag, &format!("next, pass {} position {}", pass, idx))));
            }
        }
        if self.pos >= self.n {
            st.ended.set(true);
            return None;
        }
        let i = match (self.tail, self.order) {
            (Some(j), _) if self.pos + 1 == self.n => j as usize,
            (_, Some(o)) => o[self.pos] as usize,
            (_, None) => self.pos,
        };
        self.pos += 1;
        st.items.set(st.items.get() + 1);
        Some(Ok(self.src.at(i)))
    }
}

impl<'s, S: Src> RewindableIoLender<S::T> for ProbeLender<'s, S> {
    type Error = io::Error;
    fn rewind(mut self) -> Result<Self, io::Error> {
        let st = self.stats;
        if st.fired.get().is_some() {
            st.calls_after_fault.set(st.calls_after_fault.get() + 1);
        }
        st.rewinds.set(st.rewinds.get() + 1);
        let k = st.rewinds.get();
        if let Fault::Rewind { nth } = self.fault {
            if nth == k && st.fired.get().is_none() {
                st.fired.set(Some((st.pass.get(), k as u64)));
                st.flush_pass(&format!("+rewind{}:FAULT", k));
                self.flushed = true;
                return Err(injected(self.tag, &format!("rewind number {}", k)));
            }
        }
        if k > self.max_rewinds {
            st.noprog.set(true);
            st.flush_pass(&format!("+rewind{}:REFUSED", k));
            self.flushed = true;
            return Err(io::Error::new(
                io::ErrorKind::Other,
                format!("{}: {} rewinds, the build makes no progress", TAG_NOPROG, k),
            ));
        }
        st.flush_pass(&format!("+rewind{}:ok", k));
        st.pass.set(st.pass.get() + 1);
        st.calls.set(0);
        st.items.set(0);
        st.ended.set(false);
        self.pos = 0;
        Ok(self)
    }
}

impl<'s, S: Src> Drop for ProbeLender<'s, S> {
    fn drop(&mut self) {
        if !self.flushed {
            self.stats.flush_pass("");
        }
    }
}

// ---------------------------------------------------------------------------
// builder configuration

#[derive(Clone, Copy, Debug, PartialEq, Eq)]
pub enum Hint {
    Absent,
    Exact,
    /// n/10 (too small)
    Tenth,
    Zero,
    /// n-1 / n+1
    Minus1,
    Plus1,
    Double,
    Times8,
    /// an absolute value unrelated to n (800 000, 10^8: much too large for small n)
    Fixed(usize),
}

impl Hint {
    pub fn value(&self, n: usize) -> Option<usize> {
        match *self {
            Hint::Absent => None,
            Hint::Exact => Some(n),
            Hint::Tenth => Some(n / 10),
            Hint::Zero => Some(0),
            Hint::Minus1 => Some(n.saturating_sub(1)),
            Hint::Plus1 => Some(n + 1),
            Hint::Double => Some(2 * n),
            Hint::Times8 => Some(8 * n),
            Hint::Fixed(h) => Some(h),
        }
    }
    pub fn name(&self) -> String {
        match *self {
            Hint::Absent => "absent".into(),
            Hint::Exact => "exact".into(),
            Hint::Tenth => "n/10".into(),
            Hint::Zero => "zero".into(),
            Hint::Minus1 => "n-1".into(),
            Hint::Plus1 => "n+1".into(),
            Hint::Double => "2n".into(),
            Hint::Times8 => "8n".into(),
            Hint::Fixed(800_000) => "800k".into(),
            Hint::Fixed(100_000_000) => "1e8".into(),
            Hint::Fixed(h) => format!("fixed{}", h),
        }
    }
}

#[derive(Clone, Debug)]
pub struct Cfg {
    pub hint: Hint,
    pub threads: Option<usize>,
    pub offline: bool,
    pub low_mem: Option<bool>,
    pub seed: u64,
    pub log2_buckets: Option<u32>,
    pub eps: Option<f64>,
    pub check_dups: bool,
}

impl Default for Cfg {
    fn default() -> Self {
        Cfg { hint: Hint::Absent, threads: None, offline: false, low_mem: None, seed: 0, log2_buckets: None, eps: None, check_dups: false }
    }
}

impl Cfg {
    pub fn show(&self, n: usize) -> String {
        format!(
            "expected_num_keys={:?} max_num_threads={:?} offline={} low_mem={:?} seed={} log2_buckets={:?} eps={:?} check_dups={}",
            self.hint.value(n),
            self.threads,
            self.offline,
            self.low_mem,
            self.seed,
            self.log2_buckets,
            self.eps,
            self.check_dups
        )
    }
    pub fn store(&self) -> &'static str {
        if self.offline {
            "offline"
        } else {
            "online"
        }
    }
}

/// Applies a `Cfg` to a `VBuilder` (any type parameters).
#[macro_export]
macro_rules! vb_configure {
    ($b:expr, $cfg:expr, $n:expr) => {{
        let cfg: &Cfg = $cfg;
        let mut b = $b;
        if let Some(h) = cfg.hint.value($n) {
            b = b.expected_num_keys(h);
        }
        if let Some(t) = cfg.threads {
            b = b.max_num_threads(t);
        }
        b = b.offline(cfg.offline).check_dups(cfg.check_dups).seed(cfg.seed);
        if let Some(l) = cfg.low_mem {
            b = b.low_mem(l);
        }
        if let Some(l) = cfg.log2_buckets {
            b = b.log2_buckets(l);
        }
        if let Some(e) = cfg.eps {
            b = b.eps(e);
        }
        b
    }};
}

// ---------------------------------------------------------------------------
// injective key families: index -> key (members are indices 0..n, fresh
// non-members any index >= n)

/// A bijection of u64 (splitmix64 finaliser composed with an odd multiplier
/// and a xor): distinct indices give distinct values.
pub fn bij64(i: u64, salt: u64) -> u64 {
    let mut z = (i ^ salt).wrapping_mul(0x9E37_79B9_7F4A_7C15);
    z ^= z >> 30;
    z = z.wrapping_mul(0xBF58_476D_1CE4_E5B9);
    z ^= z >> 27;
    z = z.wrapping_mul(0x94D0_49BB_1331_11EB);
    z ^= z >> 31;
    z
}

#[derive(Clone, Copy, Debug, PartialEq, Eq)]
pub enum IntKeys {
    /// i
    Range,
    /// base + i with a base close to the top of the 64-bit range
    HighRange,
    /// i * 2^32 (only high halves differ)
    Shifted,
    /// a bijective scrambling of i (looks random, still distinct)
    Scrambled,
}

impl IntKeys {
    pub const ALL: [IntKeys; 4] = [IntKeys::Range, IntKeys::HighRange, IntKeys::Shifted, IntKeys::Scrambled];
    pub fn key(&self, i: usize, salt: u64) -> u64 {
        match self {
            IntKeys::Range => i as u64,
            IntKeys::HighRange => (u64::MAX - (1 << 40)) + i as u64,
            IntKeys::Shifted => (i as u64) << 24,
            IntKeys::Scrambled => bij64(i as u64, salt),
        }
    }
    pub fn name(&self) -> &'static str {
        match self {
            IntKeys::Range => "range",
            IntKeys::HighRange => "highrange",
            IntKeys::Shifted => "shifted",
            IntKeys::Scrambled => "scrambled",
        }
    }
}

#[derive(Clone, Copy, Debug, PartialEq, Eq)]
pub enum StrKeys {
    /// decimal number
    Decimal,
    /// a long common prefix followed by the number in hex
    LongPrefix,
    /// i = 0 is the empty string, then strings of growing length over a tiny alphabet
    Tiny,
    /// multi-byte UTF-8 text followed by the number
    Utf8,
}

impl StrKeys {
    pub const ALL: [StrKeys; 4] = [StrKeys::Decimal, StrKeys::LongPrefix, StrKeys::Tiny, StrKeys::Utf8];
    pub fn key(&self, i: usize) -> String {
        match self {
            StrKeys::Decimal => format!("{}", i),
            StrKeys::LongPrefix => format!("http://example.org/a/rather/long/common/prefix/of/more/than/sixty-four/bytes/{:x}", i),
            StrKeys::Tiny => {
                // bijective base-2 numeration over {a,b}: 0 -> "", 1 -> "a", 2 -> "b", 3 -> "aa", ...
                let mut s = Vec::new();
                let mut k = i;
                while k > 0 {
                    k -= 1;
                    s.push(if k % 2 == 0 { b'a' } else { b'b' });
                    k /= 2;
                }
                s.reverse();
                String::from_utf8(s).unwrap()
            }
            StrKeys::Utf8 => format!("ключ-鍵-🔑-{}", i),
        }
    }
    pub fn name(&self) -> &'static str {
        match self {
            StrKeys::Decimal => "decimal",
            StrKeys::LongPrefix => "longprefix",
            StrKeys::Tiny => "tiny",
            StrKeys::Utf8 => "utf8",
        }
    }
}

#[derive(Clone, Copy, Debug, PartialEq, Eq)]
pub enum ByteKeys {
    /// minimal little-endian encoding of i (i = 0 is the empty slice)
    MinimalLe,
    /// 8 bytes big endian
    Fixed8,
    /// 40 zero bytes followed by the 8 bytes of the scrambled index
    ZeroPrefix,
}

impl ByteKeys {
    pub const ALL: [ByteKeys; 3] = [ByteKeys::MinimalLe, ByteKeys::Fixed8, ByteKeys::ZeroPrefix];
    pub fn key(&self, i: usize) -> Vec<u8> {
        match self {
            ByteKeys::MinimalLe => {
                let b = (i as u64).to_le_bytes();
                let l = 8 - (i as u64).leading_zeros() as usize / 8;
                b[..l].to_vec()
            }
            ByteKeys::Fixed8 => (i as u64).to_be_bytes().to_vec(),
            ByteKeys::ZeroPrefix => {
                let mut v = vec![0u8; 40];
                v.extend_from_slice(&bij64(i as u64, 77).to_le_bytes());
                v
            }
        }
    }
    pub fn name(&self) -> &'static str {
        match self {
            ByteKeys::MinimalLe => "minimal-le",
            ByteKeys::Fixed8 => "fixed8",
            ByteKeys::ZeroPrefix => "zeroprefix",
        }
    }
}

/// Does the error chain of a failed build contain `needle`?
pub fn err_contains(e: &anyhow::Error, needle: &str) -> bool {
    format!("{:#}", e).contains(needle) || format!("{:?}", e).contains(needle)
}

/// Class name of a key count (part of the stratum: no random numbers).
pub fn n_class(n: usize) -> String {
    const EDGES: [usize; 24] = [
        0, 1, 2, 3, 99, 100, 101, 1_000, 10_000, 49_999, 50_000, 99_999, 100_000, 100_001, 199_999, 200_000, 399_999, 400_000, 799_999, 800_000, 800_001, 1_500_000,
        12_000_000, 20_000_000,
    ];
    if EDGES.contains(&n) {
        return format!("n={}", n);
    }
    let r = match n {
        0..=10 => "4..10",
        11..=98 => "11..98",
        102..=300 => "102..300",
        301..=999 => "301..999",
        1_001..=9_999 => "1e3..1e4",
        10_001..=49_998 => "1e4..5e4",
        50_001..=99_998 => "5e4..1e5",
        100_002..=199_998 => "1e5..2e5",
        200_001..=399_998 => "2e5..4e5",
        400_001..=799_998 => "4e5..8e5",
        _ => ">8e5",
    };
    format!("n in {}", r)
}

// ---------------------------------------------------------------------------
// CPU time of this process (all threads), for workload tuning (`SUXMON_TIMES=1`)

#[repr(C)]
struct Timespec {
    tv_sec: i64,
    tv_nsec: i64,
}
extern "C" {
    fn clock_gettime(clk: i32, ts: *mut Timespec) -> i32;
}
pub fn cpu_secs() -> f64 {
    let mut ts = Timespec { tv_sec: 0, tv_nsec: 0 };
    // CLOCK_PROCESS_CPUTIME_ID = 2 on Linux
    unsafe { clock_gettime(2, &mut ts) };
    ts.tv_sec as f64 + ts.tv_nsec as f64 * 1e-9
}
pub fn timing_enabled() -> bool {
    std::env::var("SUXMON_TIMES").is_ok()
}

/// The builder spawns (and implicitly detaches) scoped threads for every
/// attempt. The driver exports RUST_MIN_STACK=64 MiB; stacks of that size are
/// not kept in glibc's stack cache but unmapped when the thread exits, which
/// exposes a race inside glibc's `pthread_detach` (it reads the thread
/// descriptor, which lives on that stack, after marking the thread detached):
/// observed once as a SIGSEGV in libc.so.6 in ~10^6 builds (kernel log: "segfault
/// ... in libc.so.6", faulting instruction `testb $0x10,0x308(%rdi)` right after
/// the `lock cmpxchg` on `joinid`), not reproducible on the same case. With
/// Rust's default 2 MiB stacks (what every user of sux gets) the stacks stay
/// cached and mapped. Must run before the first thread is spawned (the value
/// is read once).
pub fn default_thread_stacks() {
    std::env::set_var("RUST_MIN_STACK", "2097152");
}
