//! Shared by c01.rs and c02.rs (included with `#[path]`): reference models
//! (oracles) for rank/select, query-point generators and the generic
//! observation functions through which *every* structure variant and wrapper
//! stack is checked. Nothing here asks sux for an expected value.
#![allow(dead_code)]

use rand::rngs::SmallRng;
use rand::{Rng, RngCore};
use std::cell::Cell;
use std::ops::Index;
use sux::bits::BitVec;
use sux::traits::{BitCount, BitLength, NumBits, Rank, RankZero, Select, SelectUnchecked, SelectZero, SelectZeroUnchecked};
use suxmon::gen::*;
use suxmon::obs::*;

// ---------------------------------------------------------------------------
// oracles

/// The reference model of a bit vector: everything the properties C01/C02
/// speak about, computed without sux.
pub trait Oracle {
    fn len(&self) -> usize;
    /// total number of ones
    fn ones(&self) -> usize;
    /// bit `i`, `i < len`
    fn bit(&self, i: usize) -> bool;
    /// number of ones among the first `min(p, len)` bits
    fn rank(&self, p: usize) -> usize;
    /// position of the one of rank `r`, `None` if `r >= ones`
    fn select(&self, r: usize) -> Option<usize>;
    /// position of the zero of rank `r`, `None` if `r >= len - ones`
    fn select_zero(&self, r: usize) -> Option<usize>;
    /// printable form of the input (possibly abbreviated)
    fn show(&self) -> String;
    fn zeros(&self) -> usize {
        self.len() - self.ones()
    }
}

/// `Vec<bool>` with naively accumulated prefix sums and position lists
/// (vectors up to 2^25 bits).
pub struct SmallModel {
    pub bits: Vec<bool>,
    prefix: Vec<u32>,
    ones: Vec<u32>,
    zeros: Vec<u32>,
}

impl SmallModel {
    pub fn new(bits: Vec<bool>) -> Self {
        assert!(bits.len() <= 1 << 25);
        let mut prefix = Vec::with_capacity(bits.len() + 1);
        let mut ones = Vec::new();
        let mut zeros = Vec::new();
        let mut acc = 0u32;
        prefix.push(0);
        for (i, &b) in bits.iter().enumerate() {
            if b {
                acc += 1;
                ones.push(i as u32);
            } else {
                zeros.push(i as u32);
            }
            prefix.push(acc);
        }
        SmallModel { bits, prefix, ones, zeros }
    }
    pub fn has_both(&self) -> bool {
        !self.ones.is_empty() && !self.zeros.is_empty()
    }
    pub fn ones_list(&self) -> &[u32] {
        &self.ones
    }
    pub fn zeros_list(&self) -> &[u32] {
        &self.zeros
    }
}

impl Oracle for SmallModel {
    fn len(&self) -> usize {
        self.bits.len()
    }
    fn ones(&self) -> usize {
        self.ones.len()
    }
    fn bit(&self, i: usize) -> bool {
        self.bits[i]
    }
    fn rank(&self, p: usize) -> usize {
        self.prefix[p.min(self.bits.len())] as usize
    }
    fn select(&self, r: usize) -> Option<usize> {
        self.ones.get(r).map(|&x| x as usize)
    }
    fn select_zero(&self, r: usize) -> Option<usize> {
        self.zeros.get(r).map(|&x| x as usize)
    }
    fn show(&self) -> String {
        show_bits(&self.bits)
    }
}

/// Word-based model for vectors that do not fit a `Vec<bool>`: the harness's
/// own copy of the words plus ones-before counters every `BLK` words.
pub struct BigModel {
    pub words: Vec<usize>,
    len: usize,
    blk: Vec<usize>,
    total: usize,
    pub note: String,
}

const BLK: usize = 1024; // words per sampled block

fn nth_set_bit(mut w: usize, mut k: usize) -> usize {
    // position of the k-th (0-based) set bit of w, by plain iteration
    let mut pos = 0;
    loop {
        debug_assert!(w != 0);
        if w & 1 == 1 {
            if k == 0 {
                return pos;
            }
            k -= 1;
        }
        w >>= 1;
        pos += 1;
    }
}

impl BigModel {
    /// `words` must have zero bits beyond `len` (it is the *logical* content).
    pub fn new(words: Vec<usize>, len: usize, note: String) -> Self {
        assert_eq!(words.len(), len.div_ceil(64));
        if len % 64 != 0 {
            assert_eq!(words[words.len() - 1] >> (len % 64), 0);
        }
        let mut blk = Vec::with_capacity(words.len() / BLK + 2);
        let mut acc = 0usize;
        for (i, w) in words.iter().enumerate() {
            if i % BLK == 0 {
                blk.push(acc);
            }
            acc += w.count_ones() as usize;
        }
        blk.push(acc);
        BigModel { words, len, blk, total: acc, note }
    }
    fn zeros_before_block(&self, b: usize) -> usize {
        // b indexes self.blk; the last entry stands for the end of the vector
        let bits_before = (b * BLK * 64).min(self.len);
        bits_before - self.blk[b]
    }
}

impl Oracle for BigModel {
    fn len(&self) -> usize {
        self.len
    }
    fn ones(&self) -> usize {
        self.total
    }
    fn bit(&self, i: usize) -> bool {
        (self.words[i / 64] >> (i % 64)) & 1 == 1
    }
    fn rank(&self, p: usize) -> usize {
        let p = p.min(self.len);
        let w = p / 64;
        let b = w / BLK;
        let mut r = self.blk[b.min(self.blk.len() - 1)];
        if b * BLK >= self.words.len() {
            return self.total;
        }
        for i in b * BLK..w {
            r += self.words[i].count_ones() as usize;
        }
        if p % 64 != 0 {
            r += (self.words[w] & ((1usize << (p % 64)) - 1)).count_ones() as usize;
        }
        r
    }
    fn select(&self, r: usize) -> Option<usize> {
        if r >= self.total {
            return None;
        }
        // last sampled block whose ones-before count is <= r
        let nb = self.blk.len() - 1;
        let b = self.blk[..nb].partition_point(|&x| x <= r) - 1;
        let mut rem = r - self.blk[b];
        let mut i = b * BLK;
        loop {
            let c = self.words[i].count_ones() as usize;
            if rem < c {
                return Some(i * 64 + nth_set_bit(self.words[i], rem));
            }
            rem -= c;
            i += 1;
        }
    }
    fn select_zero(&self, r: usize) -> Option<usize> {
        if r >= self.len - self.total {
            return None;
        }
        let nb = self.blk.len() - 1;
        // zeros before block b is monotone in b
        let mut lo = 0usize;
        let mut hi = nb; // exclusive
        while hi - lo > 1 {
            let mid = (lo + hi) / 2;
            if self.zeros_before_block(mid) <= r {
                lo = mid;
            } else {
                hi = mid;
            }
        }
        let mut rem = r - self.zeros_before_block(lo);
        let mut i = lo * BLK;
        loop {
            let valid = if (i + 1) * 64 <= self.len { 64 } else { self.len - i * 64 };
            let mut z = !self.words[i];
            if valid < 64 {
                z &= (1usize << valid) - 1;
            }
            let c = z.count_ones() as usize;
            if rem < c {
                return Some(i * 64 + nth_set_bit(z, rem));
            }
            rem -= c;
            i += 1;
        }
    }
    fn show(&self) -> String {
        format!("len={} ones={} construction: {}", self.len, self.total, self.note)
    }
}

/// A vector given by the sorted list of its few exceptional positions: the
/// ones of a sparse vector (`set_is_ones`) or the zeros of a vector that is
/// otherwise all ones. Used for the 2^32-bit strata.
pub struct SparseModel {
    pub len: usize,
    pub set: Vec<usize>,
    pub set_is_ones: bool,
}

impl SparseModel {
    pub fn new(len: usize, mut set: Vec<usize>, set_is_ones: bool) -> Self {
        set.sort_unstable();
        set.dedup();
        assert!(set.last().map_or(true, |&x| x < len));
        SparseModel { len, set, set_is_ones }
    }
    fn in_set_before(&self, p: usize) -> usize {
        self.set.partition_point(|&x| x < p)
    }
    fn sel_set(&self, r: usize) -> Option<usize> {
        self.set.get(r).copied()
    }
    fn sel_other(&self, r: usize) -> Option<usize> {
        if r >= self.len - self.set.len() {
            return None;
        }
        // the answer is r + k where k = number of set elements before it:
        // smallest k with set[k] - k > r (or k = set.len())
        let mut lo = 0usize;
        let mut hi = self.set.len();
        while lo < hi {
            let mid = (lo + hi) / 2;
            if self.set[mid] - mid > r {
                hi = mid;
            } else {
                lo = mid + 1;
            }
        }
        Some(r + lo)
    }
    /// Builds the sux vector with exact words and clean tail.
    pub fn to_bitvec(&self) -> BitVec<Vec<usize>> {
        let mut b = if self.set_is_ones { BitVec::new(self.len) } else { BitVec::with_value(self.len, true) };
        for &i in &self.set {
            b.set(i, self.set_is_ones);
        }
        b
    }
}

impl Oracle for SparseModel {
    fn len(&self) -> usize {
        self.len
    }
    fn ones(&self) -> usize {
        if self.set_is_ones {
            self.set.len()
        } else {
            self.len - self.set.len()
        }
    }
    fn bit(&self, i: usize) -> bool {
        self.set.binary_search(&i).is_ok() == self.set_is_ones
    }
    fn rank(&self, p: usize) -> usize {
        let p = p.min(self.len);
        let k = self.in_set_before(p);
        if self.set_is_ones {
            k
        } else {
            p - k
        }
    }
    fn select(&self, r: usize) -> Option<usize> {
        if self.set_is_ones {
            self.sel_set(r)
        } else {
            self.sel_other(r)
        }
    }
    fn select_zero(&self, r: usize) -> Option<usize> {
        if self.set_is_ones {
            self.sel_other(r)
        } else {
            self.sel_set(r)
        }
    }
    fn show(&self) -> String {
        let s = format!("{:?}", &self.set[..self.set.len().min(80)]);
        format!(
            "len={} {} at {}{}",
            self.len,
            if self.set_is_ones { "all zeros except ones" } else { "all ones except zeros" },
            s,
            if self.set.len() > 80 { format!(" …({} positions)", self.set.len()) } else { String::new() }
        )
    }
}

pub fn bits_from_ones(len: usize, ones: &[usize]) -> Vec<bool> {
    let mut v = vec![false; len];
    for &i in ones {
        v[i] = true;
    }
    v
}

// ---------------------------------------------------------------------------
// query points

fn push_around(v: &mut Vec<usize>, x: usize) {
    v.push(x.saturating_sub(1));
    v.push(x);
    v.push(x.saturating_add(1));
}

/// Positions for `rank`: everything in `0..=len+3` for short vectors, else all
/// word / sub-block / block boundaries ±1 (sampled above 2^18 bits), `nrand`
/// random positions, the end of the vector and far-away values.
pub fn rank_positions(rng: &mut SmallRng, len: usize, nrand: usize) -> Vec<usize> {
    let mut v = Vec::new();
    if len <= 4096 {
        v.extend(0..=len + 3);
    } else {
        if len <= 1 << 18 {
            for w in 0..=len / 64 {
                push_around(&mut v, w * 64);
            }
        } else {
            for b in 0..=len / 2048 {
                push_around(&mut v, b * 2048);
            }
            for _ in 0..nrand {
                push_around(&mut v, rng.random_range(0..=len / 64) * 64);
            }
        }
        for _ in 0..nrand {
            v.push(rng.random_range(0..len));
        }
        v.extend([0, 1, len - 2, len - 1, len, len + 1, len + 2, len + 3]);
    }
    v.extend([len + 63, len + 64, len + 65, len.saturating_mul(2), len.saturating_mul(2) + 1, 1usize << 32, 1usize << 63, usize::MAX - 1, usize::MAX]);
    v
}

/// Positions for `Index`: all for short vectors, else boundaries and a sample.
pub fn index_positions(rng: &mut SmallRng, len: usize, nrand: usize) -> Vec<usize> {
    let mut v = Vec::new();
    if len <= 4096 {
        v.extend(0..len);
    } else {
        for _ in 0..nrand {
            v.push(rng.random_range(0..len));
            let w = rng.random_range(0..len / 64) * 64;
            v.push(w);
            v.push(w + 63);
        }
        v.extend([0, 1, 63, 64, len - 65, len - 64, len - 2, len - 1]);
    }
    v
}

/// Ranks for `select`/`select_zero`: all of `0..count+3` when the count is
/// small, else inventory-quantum boundaries ±1, `nrand` random ranks, the last
/// ones, and out-of-range values (`count`, `count+1`, …, `usize::MAX`).
pub fn select_ranks(rng: &mut SmallRng, count: usize, nrand: usize) -> Vec<usize> {
    let mut v = Vec::new();
    if count <= 4096 {
        v.extend(0..count + 3);
    } else {
        if count <= 1 << 18 {
            for q in 0..=count / 64 {
                push_around(&mut v, q * 64);
            }
        } else {
            for q in 0..=count / 8192 {
                push_around(&mut v, q * 8192);
            }
            for _ in 0..nrand {
                push_around(&mut v, rng.random_range(0..=count / 64) * 64);
            }
        }
        for _ in 0..nrand {
            v.push(rng.random_range(0..count));
        }
        v.extend([0, 1, 2, count - 3, count - 2, count - 1, count, count + 1, count + 2]);
    }
    v.extend([count + 63, count + 64, count + 512, count.saturating_mul(2), 1usize << 32, 1usize << 63, usize::MAX - 1, usize::MAX]);
    v
}

// ---------------------------------------------------------------------------
// generic observers: every structure goes through these

pub struct Env<'a> {
    pub m: &'a dyn Oracle,
    /// how the structure was built and over which input
    pub what: &'a dyn Fn() -> String,
}

/// A constructor call: a panic is a violation (op `new`) whose detail carries
/// the constructor expression and the input.
pub fn guarded_new<T>(c: &mut Case, what: &dyn Fn() -> String, f: impl FnOnce() -> T) -> Option<T> {
    match catch(f) {
        Ok(t) => Some(t),
        Err(m) => {
            c.fail("new", "panic", &m, &format!("constructor panicked: {}", what()));
            None
        }
    }
}

/// `len`, `num_ones`, `num_zeros`, `count_ones`, `count_zeros` against the model.
/// Returns true if all agreed.
pub fn obs_counts<S: NumBits + BitCount + ?Sized>(c: &mut Case, s: &S, e: &Env) -> bool {
    let (len, ones) = (e.m.len(), e.m.ones());
    let mut ok = true;
    if let Some(g) = c.guard("len", || BitLength::len(s)) {
        ok &= c.check("len", g == len, || format!("len() = {}, model {}; {}", g, len, (e.what)()));
    }
    if let Some(g) = c.guard("num_ones", || s.num_ones()) {
        ok &= c.check("num_ones", g == ones, || format!("num_ones() = {}, model {}; {}", g, ones, (e.what)()));
    } else {
        ok = false;
    }
    if let Some(g) = c.guard("num_zeros", || s.num_zeros()) {
        ok &= c.check("num_zeros", g == len - ones, || format!("num_zeros() = {}, model {}; {}", g, len - ones, (e.what)()));
    } else {
        ok = false;
    }
    if let Some(g) = c.guard("count_ones", || s.count_ones()) {
        ok &= c.check("count_ones", g == ones, || format!("count_ones() = {}, model {}; {}", g, ones, (e.what)()));
    } else {
        ok = false;
    }
    if let Some(g) = c.guard("count_zeros", || s.count_zeros()) {
        ok &= c.check("count_zeros", g == len - ones, || format!("count_zeros() = {}, model {}; {}", g, len - ones, (e.what)()));
    } else {
        ok = false;
    }
    ok
}

/// Only `len` and `count_ones`/`count_zeros` (for backends without `NumBits`).
pub fn obs_bitcount<S: BitCount + ?Sized>(c: &mut Case, s: &S, e: &Env) {
    let (len, ones) = (e.m.len(), e.m.ones());
    if let Some(g) = c.guard("len", || BitLength::len(s)) {
        c.check("len", g == len, || format!("len() = {}, model {}; {}", g, len, (e.what)()));
    }
    if let Some(g) = c.guard("count_ones", || s.count_ones()) {
        c.check("count_ones", g == ones, || format!("count_ones() = {}, model {}; {}", g, ones, (e.what)()));
    }
    if let Some(g) = c.guard("count_zeros", || s.count_zeros()) {
        c.check("count_zeros", g == len - ones, || format!("count_zeros() = {}, model {}; {}", g, len - ones, (e.what)()));
    }
}

/// `rank(p)` = ones among the first `min(p, len)` bits and
/// `rank_zero(p) = p - rank(p)` for every `p` in `pos`.
pub fn obs_rank<R: Rank + RankZero + ?Sized>(c: &mut Case, r: &R, e: &Env, pos: &[usize]) {
    let cur = Cell::new(0usize);
    let res = catch(|| {
        let mut bad = 0;
        for &p in pos {
            cur.set(p);
            let want = e.m.rank(p);
            let got = r.rank(p);
            if got != want {
                c.fail("rank", "mismatch", "", &format!("rank({}) = {}, model {}; {}", p, got, want, (e.what)()));
                bad += 1;
            }
            if bad > 8 {
                break;
            }
        }
        c.tick(pos.len() as u64);
    });
    if let Err(msg) = res {
        c.fail("rank", "panic", &msg, &format!("rank({}) panicked; {}", cur.get(), (e.what)()));
    }
    let res = catch(|| {
        let mut bad = 0;
        for &p in pos {
            cur.set(p);
            let want = p - e.m.rank(p);
            let got = r.rank_zero(p);
            if got != want {
                c.fail("rank_zero", "mismatch", "", &format!("rank_zero({}) = {}, model {}; {}", p, got, want, (e.what)()));
                bad += 1;
            }
            if bad > 8 {
                break;
            }
        }
        c.tick(pos.len() as u64);
    });
    if let Err(msg) = res {
        c.fail("rank_zero", "panic", &msg, &format!("rank_zero({}) panicked; {}", cur.get(), (e.what)()));
    }
}

/// The unchecked variants inside their documented domain: `rank_unchecked(p)` /
/// `rank_zero_unchecked(p)` for `p < len`, and for `p == len` when the backend has a
/// bit beyond the length (`at_len`).
pub fn obs_rank_unchecked<R: Rank + RankZero + ?Sized>(c: &mut Case, r: &R, e: &Env, pos: &[usize], at_len: bool) {
    let len = e.m.len();
    let cur = Cell::new(0usize);
    let res = catch(|| {
        let mut bad = 0;
        let extra = if at_len { Some(len) } else { None };
        for p in pos.iter().copied().filter(|&p| p < len).chain(extra) {
            cur.set(p);
            let want = e.m.rank(p);
            let (g1, g0) = unsafe { (r.rank_unchecked(p), r.rank_zero_unchecked(p)) };
            if g1 != want || g0 != p - want {
                c.fail("rank_unchecked", "mismatch", "", &format!("rank_unchecked({}) = {}, rank_zero_unchecked = {}, model {} and {} (len {}{}); {}", p, g1, g0, want, p - want, len, if p == len { ", the backend has bits beyond the length" } else { "" }, (e.what)()));
                bad += 1;
            }
            if bad > 8 {
                break;
            }
        }
        c.tick(pos.len() as u64);
    });
    if let Err(msg) = res {
        c.fail("rank_unchecked", "panic", &msg, &format!("rank_unchecked({}) / rank_zero_unchecked panicked; {}", cur.get(), (e.what)()));
    }
}

/// `s[i]` equals bit `i` of the model for every `i` in `idx` (all `< len`).
pub fn obs_index<I: Index<usize, Output = bool> + ?Sized>(c: &mut Case, s: &I, e: &Env, idx: &[usize]) {
    let cur = Cell::new(0usize);
    let res = catch(|| {
        let mut bad = 0;
        for &i in idx {
            cur.set(i);
            let want = e.m.bit(i);
            let got = s[i];
            if got != want {
                c.fail("index", "mismatch", "", &format!("s[{}] = {}, model {}; {}", i, got, want, (e.what)()));
                bad += 1;
            }
            if bad > 8 {
                break;
            }
        }
        c.tick(idx.len() as u64);
    });
    if let Err(msg) = res {
        c.fail("index", "panic", &msg, &format!("s[{}] panicked; {}", cur.get(), (e.what)()));
    }
}

/// `select(r)` is the position of the one of rank `r` for `r < ones` and `None`
/// otherwise; `select_unchecked(r)` agrees for `r < ones`.
pub fn obs_select<S: Select + ?Sized>(c: &mut Case, s: &S, e: &Env, ranks: &[usize]) {
    let ones = e.m.ones();
    // the bound used by select() is num_ones(): if that is already wrong the
    // answers below are meaningless (and the unchecked calls unsafe to issue)
    match c.guard("num_ones", || s.num_ones()) {
        Some(g) => {
            if !c.check("num_ones", g == ones, || format!("num_ones() = {}, model {}; {}", g, ones, (e.what)())) {
                return;
            }
        }
        None => return,
    }
    let cur = Cell::new(0usize);
    let res = catch(|| {
        let mut bad = 0;
        for &r in ranks {
            cur.set(r);
            let want = e.m.select(r);
            let got = s.select(r);
            if got != want {
                c.fail("select", "mismatch", "", &format!("select({}) = {:?}, model {:?} (ones = {}); {}", r, got, want, ones, (e.what)()));
                bad += 1;
            }
            if bad > 8 {
                break;
            }
        }
        c.tick(ranks.len() as u64);
    });
    if let Err(msg) = res {
        c.fail("select", "panic", &msg, &format!("select({}) panicked (ones = {}); {}", cur.get(), ones, (e.what)()));
    }
    let res = catch(|| {
        let mut bad = 0;
        let mut n = 0;
        for &r in ranks {
            if r >= ones {
                continue;
            }
            cur.set(r);
            n += 1;
            let want = e.m.select(r).unwrap();
            let got = unsafe { s.select_unchecked(r) };
            if got != want {
                c.fail("select_unchecked", "mismatch", "", &format!("select_unchecked({}) = {}, model {} (ones = {}); {}", r, got, want, ones, (e.what)()));
                bad += 1;
            }
            if bad > 8 {
                break;
            }
        }
        c.tick(n);
    });
    if let Err(msg) = res {
        c.fail("select_unchecked", "panic", &msg, &format!("select_unchecked({}) panicked (ones = {}); {}", cur.get(), ones, (e.what)()));
    }
}

/// In-range `select_unchecked` only (backends without `NumBits`).
pub fn obs_select_unchecked<S: SelectUnchecked + ?Sized>(c: &mut Case, s: &S, e: &Env, ranks: &[usize]) {
    let ones = e.m.ones();
    let cur = Cell::new(0usize);
    let res = catch(|| {
        let mut bad = 0;
        let mut n = 0;
        for &r in ranks {
            if r >= ones {
                continue;
            }
            cur.set(r);
            n += 1;
            let want = e.m.select(r).unwrap();
            let got = unsafe { s.select_unchecked(r) };
            if got != want {
                c.fail("select_unchecked", "mismatch", "", &format!("select_unchecked({}) = {}, model {} (ones = {}); {}", r, got, want, ones, (e.what)()));
                bad += 1;
            }
            if bad > 8 {
                break;
            }
        }
        c.tick(n);
    });
    if let Err(msg) = res {
        c.fail("select_unchecked", "panic", &msg, &format!("select_unchecked({}) panicked (ones = {}); {}", cur.get(), ones, (e.what)()));
    }
}

/// `select_zero(r)` is the position of the zero of rank `r` for `r < zeros`
/// and `None` otherwise; `select_zero_unchecked(r)` agrees for `r < zeros`.
pub fn obs_select_zero<S: SelectZero + ?Sized>(c: &mut Case, s: &S, e: &Env, ranks: &[usize]) {
    let zeros = e.m.zeros();
    match c.guard("num_zeros", || s.num_zeros()) {
        Some(g) => {
            if !c.check("num_zeros", g == zeros, || format!("num_zeros() = {}, model {}; {}", g, zeros, (e.what)())) {
                return;
            }
        }
        None => return,
    }
    let cur = Cell::new(0usize);
    let res = catch(|| {
        let mut bad = 0;
        for &r in ranks {
            cur.set(r);
            let want = e.m.select_zero(r);
            let got = s.select_zero(r);
            if got != want {
                c.fail("select_zero", "mismatch", "", &format!("select_zero({}) = {:?}, model {:?} (zeros = {}); {}", r, got, want, zeros, (e.what)()));
                bad += 1;
            }
            if bad > 8 {
                break;
            }
        }
        c.tick(ranks.len() as u64);
    });
    if let Err(msg) = res {
        c.fail("select_zero", "panic", &msg, &format!("select_zero({}) panicked (zeros = {}); {}", cur.get(), zeros, (e.what)()));
    }
    let res = catch(|| {
        let mut bad = 0;
        let mut n = 0;
        for &r in ranks {
            if r >= zeros {
                continue;
            }
            cur.set(r);
            n += 1;
            let want = e.m.select_zero(r).unwrap();
            let got = unsafe { s.select_zero_unchecked(r) };
            if got != want {
                c.fail("select_zero_unchecked", "mismatch", "", &format!("select_zero_unchecked({}) = {}, model {} (zeros = {}); {}", r, got, want, zeros, (e.what)()));
                bad += 1;
            }
            if bad > 8 {
                break;
            }
        }
        c.tick(n);
    });
    if let Err(msg) = res {
        c.fail("select_zero_unchecked", "panic", &msg, &format!("select_zero_unchecked({}) panicked (zeros = {}); {}", cur.get(), zeros, (e.what)()));
    }
}

/// In-range `select_zero_unchecked` only (backends without `NumBits`).
pub fn obs_select_zero_unchecked<S: SelectZeroUnchecked + ?Sized>(c: &mut Case, s: &S, e: &Env, ranks: &[usize]) {
    let zeros = e.m.zeros();
    let cur = Cell::new(0usize);
    let res = catch(|| {
        let mut bad = 0;
        let mut n = 0;
        for &r in ranks {
            if r >= zeros {
                continue;
            }
            cur.set(r);
            n += 1;
            let want = e.m.select_zero(r).unwrap();
            let got = unsafe { s.select_zero_unchecked(r) };
            if got != want {
                c.fail("select_zero_unchecked", "mismatch", "", &format!("select_zero_unchecked({}) = {}, model {} (zeros = {}); {}", r, got, want, zeros, (e.what)()));
                bad += 1;
            }
            if bad > 8 {
                break;
            }
        }
        c.tick(n);
    });
    if let Err(msg) = res {
        c.fail("select_zero_unchecked", "panic", &msg, &format!("select_zero_unchecked({}) panicked (zeros = {}); {}", cur.get(), zeros, (e.what)()));
    }
}

/// The "equivalently" clause of C02 observed through the same stack:
/// `b[select(r)] = 1` and `rank(select(r)) = r` (and the zero counterparts
/// where the stack selects zeros too). Only meaningful answers are followed.
pub fn obs_select_roundtrip<S>(c: &mut Case, s: &S, e: &Env, ranks: &[usize])
where
    S: Select + Rank + Index<usize, Output = bool> + ?Sized,
{
    let ones = e.m.ones();
    let len = e.m.len();
    let cur = Cell::new(0usize);
    let res = catch(|| {
        let mut bad = 0;
        let mut n = 0;
        for &r in ranks {
            if r >= ones {
                continue;
            }
            cur.set(r);
            if let Some(p) = s.select(r) {
                if p >= len {
                    continue; // already reported by obs_select
                }
                n += 2;
                if !s[p] {
                    c.fail("select_index", "mismatch", "", &format!("s[select({})] = s[{}] = false; {}", r, p, (e.what)()));
                    bad += 1;
                }
                let back = s.rank(p);
                if back != r {
                    c.fail("select_rank", "mismatch", "", &format!("rank(select({})) = rank({}) = {}; {}", r, p, back, (e.what)()));
                    bad += 1;
                }
            }
            if bad > 8 {
                break;
            }
        }
        c.tick(n);
    });
    if let Err(msg) = res {
        c.fail("select_rank", "panic", &msg, &format!("rank(select({})) / index panicked; {}", cur.get(), (e.what)()));
    }
}

pub fn obs_select_zero_roundtrip<S>(c: &mut Case, s: &S, e: &Env, ranks: &[usize])
where
    S: SelectZero + RankZero + Index<usize, Output = bool> + ?Sized,
{
    let zeros = e.m.zeros();
    let len = e.m.len();
    let cur = Cell::new(0usize);
    let res = catch(|| {
        let mut bad = 0;
        let mut n = 0;
        for &r in ranks {
            if r >= zeros {
                continue;
            }
            cur.set(r);
            if let Some(p) = s.select_zero(r) {
                if p >= len {
                    continue;
                }
                n += 2;
                if s[p] {
                    c.fail("select_zero_index", "mismatch", "", &format!("s[select_zero({})] = s[{}] = true; {}", r, p, (e.what)()));
                    bad += 1;
                }
                let back = s.rank_zero(p);
                if back != r {
                    c.fail("select_zero_rank", "mismatch", "", &format!("rank_zero(select_zero({})) = rank_zero({}) = {}; {}", r, p, back, (e.what)()));
                    bad += 1;
                }
            }
            if bad > 8 {
                break;
            }
        }
        c.tick(n);
    });
    if let Err(msg) = res {
        c.fail("select_zero_rank", "panic", &msg, &format!("rank_zero(select_zero({})) / index panicked; {}", cur.get(), (e.what)()));
    }
}

// ---------------------------------------------------------------------------
// input strata shared by the two workloads

/// Named content patterns (names are class names: they go into the stratum).
#[derive(Clone, Copy, Debug, PartialEq)]
pub enum Pat {
    P(Pattern, &'static str),
}

impl Pat {
    pub fn name(&self) -> &'static str {
        match self {
            Pat::P(_, n) => n,
        }
    }
    pub fn pattern(&self) -> Pattern {
        match self {
            Pat::P(p, _) => *p,
        }
    }
    /// a stratum that is interesting even without both bit values (saturated
    /// counters)
    pub fn saturated(&self) -> bool {
        matches!(self.pattern(), Pattern::BlockAlt(_)) || matches!(self.pattern(), Pattern::Density(d) if d >= 1.0)
    }
}

pub const PATS_ALL: &[Pat] = &[
    Pat::P(Pattern::Density(0.0), "dens0"),
    Pat::P(Pattern::Density(0.00048828125), "dens2^-11"),
    Pat::P(Pattern::Density(0.015625), "dens2^-6"),
    Pat::P(Pattern::Density(0.5), "dens0.5"),
    Pat::P(Pattern::Density(0.984375), "dens1-2^-6"),
    Pat::P(Pattern::Density(1.0), "dens1"),
    Pat::P(Pattern::BlockAlt(64), "blockalt64"),
    Pat::P(Pattern::BlockAlt(128), "blockalt128"),
    Pat::P(Pattern::BlockAlt(256), "blockalt256"),
    Pat::P(Pattern::BlockAlt(512), "blockalt512"),
    Pat::P(Pattern::BlockAlt(1024), "blockalt1024"),
    Pat::P(Pattern::BlockAlt(2048), "blockalt2048"),
    Pat::P(Pattern::BlockAlt(8192), "blockalt8192"),
    Pat::P(Pattern::Runs(40), "runs40"),
    Pat::P(Pattern::Runs(700), "runs700"),
    Pat::P(Pattern::TwoDensity, "twodens"),
    Pat::P(Pattern::Single(0), "single-first"),
    Pat::P(Pattern::Single(1), "single-last"),
    Pat::P(Pattern::Single(2), "single-middle"),
];

pub fn pat(name: &str) -> Pat {
    *PATS_ALL.iter().find(|p| p.name() == name).expect("pattern name")
}

/// Length classes: each class is a short list of lengths around one edge.
pub const LEN_CLASSES: &[(&str, &[usize])] = &[
    ("len0-2", &[0, 1, 2]),
    ("len3-62", &[3, 12, 31, 62]),
    ("len63-65", &[63, 64, 65]),
    ("len127-257", &[127, 128, 129, 255, 256, 257]),
    ("len511-513", &[511, 512, 513]),
    ("len1023-1025", &[1023, 1024, 1025]),
    ("len2047-2049", &[2047, 2048, 2049]),
    ("len4095-4097", &[4095, 4096, 4097]),
    ("len8191-8193", &[8191, 8192, 8193]),
    ("len16383-16385", &[16383, 16384, 16385]),
];

pub const STALE_TAILS: &[Tail] = &[
    Tail::Popped,
    Tail::Truncated,
    Tail::DirtyOnes(0),
    Tail::DirtyOnes(2),
    Tail::DirtyRandom(1),
    Tail::DirtyRandom(3),
    Tail::Regrown,
];

/// A big (> 2^32 bits) dense vector for the `upper_counts` path: the harness
/// generates the words, keeps its own copy as the model and hands a second
/// copy to sux (optionally with garbage beyond `len`).
pub fn big_dense(rng: &mut SmallRng, len: usize, dirty: bool) -> (BitVec<Vec<usize>>, BigModel) {
    big_dense_tail(rng, len, dirty, None)
}

/// Like `big_dense`; with `tail = Some(v)` every bit from position 2^32 on has
/// value `v` (the last 2^32-bit upper block then holds no ones, or no zeros).
pub fn big_dense_tail(rng: &mut SmallRng, len: usize, dirty: bool, tail: Option<bool>) -> (BitVec<Vec<usize>>, BigModel) {
    let nw = len.div_ceil(64);
    let mut words = vec![0usize; nw];
    // regions of 2^16 words: saturated, empty, dense random, sparse random;
    // the first 2^32 bits are mostly saturated so that the 32-bit block
    // counters of RankSmall run up to (almost) 2^32
    let region = 1usize << 16;
    let mut i = 0;
    let mut kinds = String::new();
    while i < nw {
        let end = (i + region).min(nw);
        let first_super = i < (1usize << 26);
        let k = rng.random_range(0..16u32);
        let kind = if first_super {
            match k {
                0 => 2,
                1 => 3,
                2 => 1,
                _ => 0,
            }
        } else {
            match k {
                0..=5 => 2,
                6..=8 => 3,
                9..=11 => 0,
                _ => 1,
            }
        };
        match kind {
            0 => words[i..end].iter_mut().for_each(|w| *w = !0),
            1 => {}
            2 => words[i..end].iter_mut().for_each(|w| *w = rng.next_u64() as usize),
            _ => words[i..end].iter_mut().for_each(|w| *w = (rng.next_u64() & rng.next_u64() & rng.next_u64() & rng.next_u64()) as usize),
        }
        if kinds.len() < 400 {
            kinds.push(['S', 'E', 'D', 's'][kind]);
        }
        i = end;
    }
    if let Some(v) = tail {
        for w in words.iter_mut().skip(1usize << 26) {
            *w = if v { !0 } else { 0 };
        }
        kinds.push_str(if v { " [all ones from 2^32 on]" } else { " [all zeros from 2^32 on]" });
    }
    if len % 64 != 0 {
        let l = nw - 1;
        words[l] &= (1usize << (len % 64)) - 1;
    }
    let mut storage = words.clone();
    if dirty {
        if len % 64 != 0 {
            let l = nw - 1;
            storage[l] |= !0usize << (len % 64);
        }
        storage.push(!0);
        storage.push(rng.next_u64() as usize);
    }
    let note = format!(
        "regions of 2^16 words by kind (S=saturated,E=empty,D=random dense,s=random sparse): {}… generated from the case seed; tail {}",
        kinds,
        if dirty { "dirty (ones beyond len + 2 spare words)" } else { "fresh" }
    );
    let bv = unsafe { BitVec::from_raw_parts(storage, len) };
    (bv, BigModel::new(words, len, note))
}

/// Case-number bookkeeping on top of `Ctx`, so that the few multi-gigabyte
/// cases can be aligned to shards 0 and 1 (at most two such processes run at
/// the same time, whatever the shard count).
pub struct Runner {
    pub ctx: Ctx,
    n: u64,
}

impl Runner {
    pub fn new(ctx: Ctx) -> Self {
        Runner { ctx, n: 0 }
    }
    pub fn case<F: FnOnce(&mut Case)>(&mut self, variant: &str, stratum: &str, op: &str, f: F) {
        self.n += 1;
        self.ctx.case(variant, stratum, op, f);
    }
    /// Runs the case on shard `k % 2` (case numbers in between stay unused).
    pub fn big_case<F: FnOnce(&mut Case)>(&mut self, k: u64, variant: &str, stratum: &str, op: &str, f: F) {
        let n = self.ctx.shard.1.max(1);
        let target = if n >= 2 { k % 2 } else { 0 };
        let mut skip = 0;
        while (self.n + skip) % n != target {
            skip += 1;
        }
        if skip > 0 {
            self.ctx.skip(skip);
            self.n += skip;
        }
        self.case(variant, stratum, op, f);
    }
}
