//! Helpers shared by the BitFieldVec workloads (C05, C10, C14): the word-type
//! abstraction, the `Vec<u128>` reference model, an independent bit packer
//! (storage words are produced and inspected without calling sux), value and
//! length generators, and builders of vectors with spare / dirty storage.
#![allow(dead_code)]
use rand::rngs::SmallRng;
use rand::{Rng, RngCore};
use std::fmt::Debug;
use sux::bits::BitFieldVec;
use sux::traits::{BitFieldSlice, BitFieldSliceCore, BitFieldSliceMut, Word};

/// A word type under test. Conversions to and from the model type `u128` are
/// plain `as` casts.
pub trait TW: Word + Debug + Send + Sync + 'static {
    const NAME: &'static str;
    /// does an atomic counterpart exist (everything but u128)
    const ATOMIC: bool;
    fn to128(self) -> u128;
    fn from128(x: u128) -> Self;
}

macro_rules! impl_tw {
    ($($t:ty, $name:expr, $at:expr;)*) => {$(
        impl TW for $t {
            const NAME: &'static str = $name;
            const ATOMIC: bool = $at;
            #[inline(always)]
            fn to128(self) -> u128 { self as u128 }
            #[inline(always)]
            fn from128(x: u128) -> Self { x as $t }
        }
    )*};
}
impl_tw!(u8, "u8", true; u16, "u16", true; u32, "u32", true; u64, "u64", true; usize, "usize", true; u128, "u128", false;);

#[inline]
pub fn mask128(width: usize) -> u128 {
    if width == 0 {
        0
    } else if width >= 128 {
        u128::MAX
    } else {
        (1u128 << width) - 1
    }
}

pub fn bits_of<W: TW>() -> usize {
    std::mem::size_of::<W>() * 8
}

/// Class of a bit width relative to the word size; part of stratum names.
pub fn width_class(width: usize, bits: usize) -> &'static str {
    if width == 0 {
        "w0"
    } else if width == bits {
        "wfull"
    } else if width == 1 {
        "w1"
    } else if width == bits - 1 {
        "wfull-1"
    } else if width.is_power_of_two() {
        "wpow2"
    } else if width * 2 < bits {
        "wsmall"
    } else {
        "wlarge"
    }
}

/// Widths used by the quick tier: every width for the small word types and a
/// selection around the interesting points for the large ones.
pub fn widths_for(bits: usize, all: bool) -> Vec<usize> {
    if all || bits <= 32 {
        return (0..=bits).collect();
    }
    let mut v: Vec<usize> = vec![0, 1, 2, 3, 4, 5, 7, 8, 9, 12, 13, 15, 16, 17, 21, 24, 27, 31, 32, 33];
    for w in [bits / 2 - 1, bits / 2, bits / 2 + 1, bits - 9, bits - 8, bits - 7, bits - 6, bits - 5, bits - 4, bits - 3, bits - 2, bits - 1, bits] {
        v.push(w);
    }
    if bits == 128 {
        v.extend([57, 63, 64, 65, 71, 96, 100, 111]);
    } else {
        v.extend([37, 41, 47, 48, 50, 53]);
    }
    v.retain(|w| *w <= bits);
    v.sort_unstable();
    v.dedup();
    v
}

/// Values biased towards the patterns that expose shift / mask errors.
pub fn gen_val(rng: &mut SmallRng, width: usize) -> u128 {
    let m = mask128(width);
    if width == 0 {
        return 0;
    }
    let r = ((rng.next_u64() as u128) << 64) | rng.next_u64() as u128;
    match rng.random_range(0..16) {
        0 => 0,
        1 => 1,
        2 => m,
        3 => m - 1,
        4 => 1u128 << (width - 1),
        5 => 0xAAAA_AAAA_AAAA_AAAA_AAAA_AAAA_AAAA_AAAAu128 & m,
        6 => 0x5555_5555_5555_5555_5555_5555_5555_5555u128 & m,
        7 => (1u128 << (width - 1)) | 1,
        _ => r & m,
    }
}

pub fn gen_vals(rng: &mut SmallRng, len: usize, width: usize) -> Vec<u128> {
    (0..len).map(|_| gen_val(rng, width)).collect()
}

/// Uniformly random contents ("random per element").
pub fn rand_vals(rng: &mut SmallRng, len: usize, width: usize) -> Vec<u128> {
    let m = mask128(width);
    (0..len).map(|_| (((rng.next_u64() as u128) << 64) | rng.next_u64() as u128) & m).collect()
}

/// A length near a multiple of the number of elements per word group, so that
/// the end of the vector falls on / next to word boundaries.
pub fn len_near_boundary(rng: &mut SmallRng, width: usize, bits: usize, max: usize) -> usize {
    if max == 0 {
        return 0;
    }
    match rng.random_range(0..10) {
        0 => 0,
        1 => 1,
        2..=6 if width > 0 => {
            // len*width close to k*bits
            let k = rng.random_range(1..=((max * width) / bits).max(1));
            let base = (k * bits) / width;
            let d = rng.random_range(0..5) as isize - 2;
            ((base as isize + d).max(0) as usize).min(max)
        }
        _ => rng.random_range(0..=max),
    }
}

// ---------------------------------------------------------------------------
// independent bit packing

pub fn put_bits<W: TW>(words: &mut [W], mut pos: usize, width: usize, value: u128) {
    let b = bits_of::<W>();
    let mut done = 0;
    while done < width {
        let wi = pos / b;
        let off = pos % b;
        let n = (b - off).min(width - done);
        let chunk = (value >> done) & mask128(n);
        let mut w = words[wi].to128();
        w &= !(mask128(n) << off);
        w |= chunk << off;
        words[wi] = W::from128(w);
        done += n;
        pos += n;
    }
}

pub fn get_bits<W: TW>(words: &[W], mut pos: usize, width: usize) -> u128 {
    let b = bits_of::<W>();
    let mut done = 0;
    let mut out = 0u128;
    while done < width {
        let wi = pos / b;
        let off = pos % b;
        let n = (b - off).min(width - done);
        let chunk = (words[wi].to128() >> off) & mask128(n);
        out |= chunk << done;
        done += n;
        pos += n;
    }
    out
}

/// Number of words that hold `len` fields of `width` bits.
pub fn words_for(len: usize, width: usize, bits: usize) -> usize {
    (len * width).div_ceil(bits)
}

/// Decodes `len` fields from storage words with the harness's own arithmetic.
pub fn unpack<W: TW>(words: &[W], width: usize, len: usize) -> Vec<u128> {
    (0..len).map(|i| get_bits(words, i * width, width)).collect()
}

#[derive(Clone, Copy, Debug, PartialEq, Eq)]
pub enum Garbage {
    Zeros,
    Ones,
    Random,
}

impl Garbage {
    pub const ALL: [Garbage; 3] = [Garbage::Zeros, Garbage::Ones, Garbage::Random];
    pub fn name(&self) -> &'static str {
        match self {
            Garbage::Zeros => "zeros",
            Garbage::Ones => "ones",
            Garbage::Random => "random",
        }
    }
}

pub fn rand_word<W: TW>(rng: &mut SmallRng) -> W {
    W::from128(((rng.next_u64() as u128) << 64) | rng.next_u64() as u128)
}

/// Storage words holding `vals` (fields of `width` bits) followed by garbage:
/// the rest of the last word and `spare` further words are zeros, ones or
/// random bits. At least `min_words` words are produced.
pub fn make_words<W: TW>(rng: &mut SmallRng, vals: &[u128], width: usize, g: Garbage, spare: usize, min_words: usize) -> Vec<W> {
    let b = bits_of::<W>();
    let n = words_for(vals.len(), width, b).max(min_words) + spare;
    let mut words: Vec<W> = (0..n)
        .map(|_| match g {
            Garbage::Zeros => W::from128(0),
            Garbage::Ones => W::from128(u128::MAX),
            Garbage::Random => rand_word::<W>(rng),
        })
        .collect();
    if g == Garbage::Random && vals.len() * width < n * b {
        // make sure the very first bit beyond the contents is set: the most
        // likely one to be picked up by an off-by-one
        put_bits(&mut words, vals.len() * width, 1, 1);
    }
    for (i, &v) in vals.iter().enumerate() {
        put_bits(&mut words, i * width, width, v);
    }
    words
}

/// Clean vector (exact number of words — at least one —, zero bits beyond the
/// contents) built without going through any sux mutator.
pub fn clean_bfv<W: TW>(vals: &[u128], width: usize) -> BitFieldVec<W, Vec<W>> {
    let b = bits_of::<W>();
    let mut words = vec![W::from128(0); words_for(vals.len(), width, b).max(1)];
    for (i, &v) in vals.iter().enumerate() {
        put_bits(&mut words, i * width, width, v);
    }
    unsafe { BitFieldVec::from_raw_parts(words, width, vals.len()) }
}

/// Vector over dirty storage (see `make_words`).
pub fn dirty_bfv<W: TW>(rng: &mut SmallRng, vals: &[u128], width: usize, g: Garbage, spare: usize) -> BitFieldVec<W, Vec<W>> {
    let words = make_words::<W>(rng, vals, width, g, spare, 1);
    unsafe { BitFieldVec::from_raw_parts(words, width, vals.len()) }
}

/// How the storage beyond the logical contents came to be.
#[derive(Clone, Copy, Debug, PartialEq, Eq)]
pub enum Backing {
    /// `new` + `set`: exact words, zero tail
    Fresh,
    /// longer vector built by `push`, then popped down (stale fields, maybe spare words)
    Popped,
    /// `new` with all-ones fields, then `resize` down (stale fields and spare words)
    Truncated,
    /// filled, `clear`ed, then refilled by `push` with fewer elements
    ClearedRefilled,
    /// `new_unaligned`: one zero padding word
    Unaligned,
    /// `from_raw_parts` over a longer slice with garbage
    Raw(Garbage, usize),
}

impl Backing {
    pub fn name(&self) -> String {
        match self {
            Backing::Fresh => "fresh".into(),
            Backing::Popped => "popped".into(),
            Backing::Truncated => "truncated".into(),
            Backing::ClearedRefilled => "cleared".into(),
            Backing::Unaligned => "unaligned".into(),
            Backing::Raw(g, s) => format!("raw-{}+{}w", g.name(), s),
        }
    }
    pub fn has_spare(&self) -> bool {
        !matches!(self, Backing::Fresh)
    }
    pub const ALL: [Backing; 9] = [
        Backing::Fresh,
        Backing::Popped,
        Backing::Truncated,
        Backing::ClearedRefilled,
        Backing::Unaligned,
        Backing::Raw(Garbage::Zeros, 1),
        Backing::Raw(Garbage::Ones, 0),
        Backing::Raw(Garbage::Ones, 2),
        Backing::Raw(Garbage::Random, 3),
    ];
}

/// Builds a `BitFieldVec<W, Vec<W>>` with logical contents `vals`. The sux
/// mutators used here (`set`, `push`, `pop`, `resize`, `clear`) are the subject
/// of C05; callers verify the contents with `get` before relying on them.
/// Width 0 never goes through `with_capacity` (known defect, isolated in C05).
pub fn build_bfv<W: TW>(rng: &mut SmallRng, vals: &[u128], width: usize, backing: Backing) -> BitFieldVec<W, Vec<W>> {
    let len = vals.len();
    let m = mask128(width);
    match backing {
        Backing::Fresh => {
            let mut b = BitFieldVec::<W>::new(width, len);
            for (i, &v) in vals.iter().enumerate() {
                b.set(i, W::from128(v));
            }
            b
        }
        Backing::Popped => {
            let extra = 1 + rng.random_range(0..(3 * bits_of::<W>() / width.max(1)).max(2));
            let mut b = BitFieldVec::<W>::new(width, 0);
            for &v in vals {
                b.push(W::from128(v));
            }
            for _ in 0..extra {
                b.push(W::from128(if rng.random_bool(0.7) { m } else { gen_val(rng, width) }));
            }
            for _ in 0..extra {
                b.pop();
            }
            b
        }
        Backing::Truncated => {
            let extra = 1 + rng.random_range(0..(3 * bits_of::<W>() / width.max(1)).max(2));
            let mut b = BitFieldVec::<W>::new(width, len + extra);
            for i in 0..len + extra {
                b.set(i, W::from128(if i < len { vals[i] } else { m }));
            }
            b.resize(len, W::from128(0));
            b
        }
        Backing::ClearedRefilled => {
            let extra = 1 + rng.random_range(0..(3 * bits_of::<W>() / width.max(1)).max(2));
            let mut b = BitFieldVec::<W>::new(width, len + extra);
            for i in 0..len + extra {
                b.set(i, W::from128(m));
            }
            b.clear();
            for &v in vals {
                b.push(W::from128(v));
            }
            b
        }
        Backing::Unaligned => {
            let mut b = BitFieldVec::<W>::new_unaligned(width, len);
            for (i, &v) in vals.iter().enumerate() {
                b.set(i, W::from128(v));
            }
            b
        }
        Backing::Raw(g, spare) => dirty_bfv::<W>(rng, vals, width, g, spare),
    }
}

/// Reads the whole vector through `get`.
pub fn read_all<W: TW, B: AsRef<[W]>>(b: &BitFieldVec<W, B>) -> Vec<u128> {
    (0..BitFieldSliceCore::<W>::len(b)).map(|i| BitFieldSlice::<W>::get(b, i).to128()).collect()
}

/// First index at which two value lists differ.
pub fn first_diff(a: &[u128], b: &[u128]) -> Option<usize> {
    if a.len() != b.len() {
        return Some(a.len().min(b.len()));
    }
    a.iter().zip(b.iter()).position(|(x, y)| x != y)
}

pub fn show_vals(v: &[u128]) -> String {
    let mut s = String::from("[");
    for (i, x) in v.iter().enumerate() {
        if i >= 80 {
            s.push_str(&format!("…(+{})", v.len() - i));
            break;
        }
        if i > 0 {
            s.push(',');
        }
        s.push_str(&format!("{:#x}", x));
    }
    s.push(']');
    s
}

pub fn show_words<W: TW>(w: &[W]) -> String {
    let mut s = String::from("[");
    for (i, x) in w.iter().enumerate() {
        if i >= 40 {
            s.push_str(&format!("…(+{})", w.len() - i));
            break;
        }
        if i > 0 {
            s.push(',');
        }
        s.push_str(&format!("{:#x}", x.to128()));
    }
    s.push(']');
    s
}

/// Bit mask (one `bool` per storage bit) helpers for C14.
pub fn differing_bits<W: TW>(before: &[W], after: &[W]) -> Vec<usize> {
    let b = bits_of::<W>();
    let mut out = vec![];
    for (i, (x, y)) in before.iter().zip(after.iter()).enumerate() {
        let d = x.to128() ^ y.to128();
        if d != 0 {
            for j in 0..b {
                if (d >> j) & 1 != 0 {
                    out.push(i * b + j);
                }
            }
        }
    }
    out
}

/// `v[i]` if `i` is a valid index (written without `slice::get`, which the
/// blanket `BitFieldSlice` impls shadow).
pub fn at(v: &[u128], i: Option<usize>) -> Option<u128> {
    match i {
        Some(i) if i < v.len() => Some(v[i]),
        _ => None,
    }
}
