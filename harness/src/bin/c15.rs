//! C15 — serialized structures answer identically after any way of loading
//! them back.
//!
//! Oracle: the *query transcript of the original instance*. A transcript is
//! the ordered list of answers to a query script that depends only on the
//! generator's model (lengths, counts, probe values), produced by generic
//! functions bounded by the public traits, so the very same code runs on the
//! owned original, on the fully deserialized copy, on the ε-copy (borrowed)
//! view of a byte buffer and on the memory-mapped value.
//!
//! Loading paths (violation `op`): `deserialize_full` (unaligned reader),
//! `schema+deserialize_full` (bytes written by `serialize_with_schema`),
//! `deserialize_eps` (buffer of exactly the serialized size, 64-byte aligned),
//! `deserialize_eps_tail` (same bytes followed by garbage), `reserialize_full`
//! (serialize the fully loaded value again: identical bytes; not done for
//! ε-copies, whose header names the `Vec`-backed type whatever the original
//! was), and from a file: `store` (file bytes equal the
//! in-memory serialization), `load_full`, `load_mem`, `mmap`, `load_mmap`.
//!
//! A case = one structure instance (variant = type, stratum = class of
//! contents) pushed through either the in-memory paths (`op = mem`) or the
//! file paths (`op = file`). Under `ctx.small` (Miri) only in-memory paths of
//! tiny instances run and no function/filter is built.
//!
//! A panic of the *original* (constructor or query) is not this property's
//! business (C01–C09 own that): the case is then abandoned without a verdict.
use epserde::prelude::*;
use rand::rngs::SmallRng;
use rand::{Rng, RngCore};
use std::ops::Index;
use std::path::Path;
use sux::bits::{BitFieldVec, BitVec};
use sux::dict::{EliasFano, EliasFanoBuilder, RearCodedList, RearCodedListBuilder, VFilter};
use sux::func::shard_edge::{FuseLge3FullSigs, FuseLge3NoShards, FuseLge3Shards, ShardEdge};
use sux::func::{VBuilder, VFunc};
use sux::rank_sel::{Rank9, RankSmall, Select9, SelectAdapt, SelectAdaptConst, SelectSmall, SelectZeroAdapt, SelectZeroAdaptConst, SelectZeroSmall};
use sux::traits::{
    AddNumBits, BitCount, BitFieldSlice, BitFieldSliceCore, BitLength, IndexedDict, IndexedSeq, IntoReverseUncheckedIterator, IntoUncheckedIterator, NumBits, Pred,
    Rank, RankZero, Select, SelectUnchecked, SelectZero, SelectZeroUnchecked, Succ, UncheckedIterator, Word,
};
use sux::utils::{FromIntoIterator, Sig, ToSig};
use suxmon::gen::*;
use suxmon::obs::*;

/// Cases given up because the *original* panicked (constructor or query):
/// reported as a note, never as a verdict.
static ABANDONED: std::sync::atomic::AtomicU64 = std::sync::atomic::AtomicU64::new(0);
fn abandoned() {
    ABANDONED.fetch_add(1, std::sync::atomic::Ordering::Relaxed);
}

// ---------------------------------------------------------------------------
// transcripts

#[derive(Clone, PartialEq, Debug)]
enum A {
    U(u64),
    W(u128),
    B(bool),
    O(Option<u64>),
    P(Option<(u64, u64)>),
    S(String),
}

#[derive(Default)]
struct Tr {
    v: Vec<(&'static str, u64, A)>,
    /// set while a loaded instance (not the original) is being observed
    loaded: bool,
}

impl Tr {
    fn u(&mut self, op: &'static str, at: usize, x: usize) {
        self.v.push((op, at as u64, A::U(x as u64)));
    }
    fn w(&mut self, op: &'static str, at: usize, x: u128) {
        self.v.push((op, at as u64, A::W(x)));
    }
    fn b(&mut self, op: &'static str, at: usize, x: bool) {
        self.v.push((op, at as u64, A::B(x)));
    }
    fn o(&mut self, op: &'static str, at: usize, x: Option<usize>) {
        self.v.push((op, at as u64, A::O(x.map(|v| v as u64))));
    }
    fn p(&mut self, op: &'static str, at: usize, x: Option<(usize, usize)>) {
        self.v.push((op, at as u64, A::P(x.map(|(a, b)| (a as u64, b as u64)))));
    }
    fn s(&mut self, op: &'static str, at: usize, x: String) {
        self.v.push((op, at as u64, A::S(x)));
    }
    /// A whole sequence as (count, hash) — used for iterations that are too
    /// long to be kept element by element.
    fn seq(&mut self, op: &'static str, at: usize, it: impl Iterator<Item = u64>) {
        let mut h = 0x9E37_79B9_7F4A_7C15u64;
        let mut n = 0u64;
        for x in it {
            h = mix(h, x);
            n += 1;
        }
        self.v.push((op, at as u64, A::P(Some((n, h)))));
    }
}

/// Compares the transcript of a loaded value with the original's.
fn cmp_tr(c: &mut Case, path: &str, want: &Tr, got: &Tr, what: &str) {
    c.tick(want.v.len() as u64);
    if want.v.len() != got.v.len() {
        c.fail(path, "mismatch", "transcript length differs", &format!("{}: original answered {} queries, value loaded via {} answered {}", what, want.v.len(), path, got.v.len()));
        return;
    }
    for (a, b) in want.v.iter().zip(got.v.iter()) {
        if a != b {
            c.fail(
                path,
                "mismatch",
                &format!("query {} differs", a.0),
                &trunc(&format!("{}: {}({}) original {:?}, loaded via {} {:?}", what, a.0, a.1, a.2, path, b.2), 1200),
            );
            return;
        }
    }
}

// ---------------------------------------------------------------------------
// byte buffers and loaders

/// A heap buffer of *exactly* `n` bytes aligned to 64 bytes (so that Miri and
/// ASan see any read past the serialized data).
struct ABuf {
    p: *mut u8,
    n: usize,
}

impl ABuf {
    fn new(bytes: &[u8], tail: &[u8]) -> ABuf {
        let n = bytes.len() + tail.len();
        let layout = std::alloc::Layout::from_size_align(n.max(1), 64).unwrap();
        let p = unsafe { std::alloc::alloc(layout) };
        assert!(!p.is_null());
        unsafe {
            std::ptr::copy_nonoverlapping(bytes.as_ptr(), p, bytes.len());
            std::ptr::copy_nonoverlapping(tail.as_ptr(), p.add(bytes.len()), tail.len());
        }
        ABuf { p, n }
    }
    fn bytes(&self) -> &[u8] {
        unsafe { std::slice::from_raw_parts(self.p, self.n) }
    }
}

impl Drop for ABuf {
    fn drop(&mut self) {
        let layout = std::alloc::Layout::from_size_align(self.n.max(1), 64).unwrap();
        unsafe { std::alloc::dealloc(self.p, layout) };
    }
}

/// `--x-selftest 1`: corrupt the last payload byte of every serialization, to
/// see the monitor fire (validation of the harness itself, never set by ./check).
static SELFTEST: std::sync::atomic::AtomicBool = std::sync::atomic::AtomicBool::new(false);

fn ser_bytes<T: Serialize>(x: &T) -> Vec<u8> {
    let mut v: Vec<u8> = Vec::new();
    let n = x.serialize(&mut v).unwrap_or_else(|e| panic!("serialize failed: {e}"));
    assert_eq!(n, v.len(), "serialize returned {} but wrote {} bytes", n, v.len());
    if SELFTEST.load(std::sync::atomic::Ordering::Relaxed) {
        let l = v.len();
        v[l - 1 - (l - 1) / 4] ^= 0x10;
    }
    v
}

fn ser_schema_bytes<T: Serialize>(x: &T) -> Vec<u8> {
    let mut v: Vec<u8> = Vec::new();
    x.serialize_with_schema(&mut v).unwrap_or_else(|e| panic!("serialize_with_schema failed: {e}"));
    v
}

fn full_like<T: Deserialize>(_: &T, bytes: &[u8]) -> T {
    let mut rd: &[u8] = bytes;
    T::deserialize_full(&mut rd).unwrap_or_else(|e| panic!("deserialize_full failed: {e}"))
}

fn eps_like<'a, T: Deserialize>(_: &T, bytes: &'a [u8]) -> DeserType<'a, T> {
    T::deserialize_eps(bytes).unwrap_or_else(|e| panic!("deserialize_eps failed: {e}"))
}

fn load_full_like<T: Deserialize>(_: &T, p: &Path) -> T {
    T::load_full(p).unwrap_or_else(|e| panic!("load_full failed: {e}"))
}

fn load_mem_like<T: Deserialize>(_: &T, p: &Path) -> MemCase<DeserType<'static, T>> {
    T::load_mem(p).unwrap_or_else(|e| panic!("load_mem failed: {e}"))
}

fn mmap_like<T: Deserialize>(_: &T, p: &Path, f: Flags) -> MemCase<DeserType<'static, T>> {
    T::mmap(p, f).unwrap_or_else(|e| panic!("mmap failed: {e}"))
}

fn load_mmap_like<T: Deserialize>(_: &T, p: &Path, f: Flags) -> MemCase<DeserType<'static, T>> {
    T::load_mmap(p, f).unwrap_or_else(|e| panic!("load_mmap failed: {e}"))
}

fn pick_flags(rng: &mut SmallRng) -> Flags {
    // only the madvise-style hints; huge pages depend on the kernel set-up
    match rng.random_range(0..4) {
        0 | 1 => Flags::empty(),
        2 => Flags::SEQUENTIAL,
        _ => Flags::RANDOM_ACCESS,
    }
}

#[derive(Clone, Copy, PartialEq, Debug)]
enum Mode {
    Mem,
    File,
}

impl Mode {
    fn op(&self) -> &'static str {
        match self {
            Mode::Mem => "mem",
            Mode::File => "file",
        }
    }
}

fn modes(ctx: &Ctx) -> &'static [Mode] {
    if ctx.small {
        &[Mode::Mem]
    } else {
        &[Mode::Mem, Mode::File]
    }
}

/// Runs `$body` (statements using `$t: &mut Tr` and `$x: &Value`) on `$val`
/// and compares the transcript with `$want`. A panic anywhere (loading or
/// querying) is a violation of `$path`. Evaluates to `true` if the path ran
/// to the end.
macro_rules! observe {
    ($c:ident, $path:expr, $want:expr, $what:expr, $val:expr, |$t:ident, $x:ident| $body:block) => {{
        let got = $c.guard($path, || {
            let v = $val;
            let mut tr = Tr { loaded: true, ..Tr::default() };
            {
                let $t = &mut tr;
                let $x = &v;
                $body
            }
            tr
        });
        match got {
            Some(got) => {
                cmp_tr($c, $path, $want, &got, $what);
                true
            }
            None => false,
        }
    }};
}

/// Same for values wrapped in a `MemCase` (queries go through `Deref`).
macro_rules! observe_case {
    ($c:ident, $path:expr, $want:expr, $what:expr, $val:expr, |$t:ident, $x:ident| $body:block) => {{
        let got = $c.guard($path, || {
            let v = $val;
            let mut tr = Tr { loaded: true, ..Tr::default() };
            {
                let $t = &mut tr;
                let $x = &*v;
                $body
            }
            tr
        });
        match got {
            Some(got) => {
                cmp_tr($c, $path, $want, &got, $what);
                true
            }
            None => false,
        }
    }};
}

fn cmp_bytes(c: &mut Case, path: &str, want: &[u8], got: &[u8], what: &str) {
    c.tick(1);
    if want != got {
        let first = want.iter().zip(got.iter()).position(|(a, b)| a != b).unwrap_or(want.len().min(got.len()));
        c.fail(
            path,
            "mismatch",
            "bytes differ",
            &format!("{}: {} produced {} bytes, the original serialization has {} bytes; first difference at byte {}", what, path, got.len(), want.len(), first),
        );
    }
}

/// The whole round trip of one instance. `$body` is the query script run on
/// owned values, `$ebody` the (possibly shorter) script run on borrowed views.
/// (The `[...]` list is reserved and must be empty: ε-serde gives `Vec`- and
/// `Box`-backed instances different type hashes, so there is no loading "as
/// the other backend".) Evaluates to `true` when every path of the mode ran and a verdict exists.
macro_rules! roundtrip {
    ($c:ident, $mode:expr, $what:expr, $orig:expr, [], |$t:ident, $x:ident| $body:block) => {
        roundtrip!($c, $mode, $what, $orig, [], |$t, $x| $body, eps $body)
    };
    ($c:ident, $mode:expr, $what:expr, $orig:expr, [], |$t:ident, $x:ident| $body:block, eps $ebody:block) => {{
        let orig = $orig;
        let mode: Mode = $mode;
        let what: &str = $what;
        let mut complete = false;
        $c.set_cell(format!("{}|{}|{}", $c.variant, $c.stratum, mode.op()));
        // transcripts of the original (full script, and the part of it the
        // borrowed view supports); its panics are not C15's business
        let want = catch(|| {
            let mut tr = Tr::default();
            {
                let $t = &mut tr;
                let $x = &orig;
                $body
            }
            let mut tre = Tr::default();
            {
                let $t = &mut tre;
                let $x = &orig;
                $ebody
            }
            (tr, tre)
        });
        if let Ok((want, wante)) = want {
            let want = &want;
            let wante = &wante;
            if let Some(bytes) = $c.guard("serialize", || ser_bytes(&orig)) {
                let mut ok = true;
                match mode {
                    Mode::Mem => {
                        ok &= observe!($c, "deserialize_full", want, what, full_like(&orig, &bytes), |$t, $x| $body);
                        if let Some(b2) = $c.guard("reserialize_full", || ser_bytes(&full_like(&orig, &bytes))) {
                            cmp_bytes($c, "reserialize_full", &bytes, &b2, what);
                        } else {
                            ok = false;
                        }
                        if let Some(sb) = $c.guard("serialize_with_schema", || ser_schema_bytes(&orig)) {
                            ok &= observe!($c, "schema+deserialize_full", want, what, full_like(&orig, &sb), |$t, $x| $body);
                        } else {
                            ok = false;
                        }
                        {
                            let buf = ABuf::new(&bytes, &[]);
                            ok &= observe!($c, "deserialize_eps", wante, what, eps_like(&orig, buf.bytes()), |$t, $x| $ebody);
                        }
                        {
                            let tl = 1 + $c.rng().random_range(0..200usize);
                            let ones = $c.rng().random_bool(0.5);
                            let tail: Vec<u8> = (0..tl).map(|_| if ones { 0xFF } else { $c.rng().next_u32() as u8 }).collect();
                            let buf = ABuf::new(&bytes, &tail);
                            ok &= observe!($c, "deserialize_eps_tail", wante, what, eps_like(&orig, buf.bytes()), |$t, $x| $ebody);
                        }
                    }
                    Mode::File => {
                        let dir = tempfile::tempdir().expect("tempdir");
                        let path = dir.path().join("c15.bin");
                        let path: &Path = &path;
                        if $c.guard("store", || orig.store(path).unwrap_or_else(|e| panic!("store failed: {e}"))).is_some() {
                            let fb = std::fs::read(path).expect("read back stored file");
                            cmp_bytes($c, "store", &bytes, &fb, what);
                            ok &= observe!($c, "load_full", want, what, load_full_like(&orig, path), |$t, $x| $body);
                            ok &= observe_case!($c, "load_mem", wante, what, load_mem_like(&orig, path), |$t, $x| $ebody);
                            let f1 = pick_flags($c.rng());
                            let f2 = pick_flags($c.rng());
                            ok &= observe_case!($c, "mmap", wante, what, mmap_like(&orig, path, f1), |$t, $x| $ebody);
                            ok &= observe_case!($c, "load_mmap", wante, what, load_mmap_like(&orig, path, f2), |$t, $x| $ebody);
                        } else {
                            ok = false;
                        }
                    }
                }
                complete = ok;
            }
        } else {
            abandoned();
        }
        complete
    }};
}

// ---------------------------------------------------------------------------
// query scripts and generic transcript functions: bit vectors, rank, select

/// The query script of a bit-vector-like structure; a function of the
/// generator's model only.
struct BitQ {
    len: usize,
    n1: usize,
    n0: usize,
    idx: Vec<usize>,
    pos: Vec<usize>,
    r1: Vec<usize>,
    r0: Vec<usize>,
    full_iter: bool,
}

fn sample(rng: &mut SmallRng, n: usize, all_upto: usize, k: usize) -> Vec<usize> {
    if n <= all_upto {
        (0..n).collect()
    } else {
        let mut v: Vec<usize> = vec![0, 1, 63, 64, 65, n / 2, n - 65, n - 64, n - 2, n - 1];
        for _ in 0..k {
            v.push(rng.random_range(0..n));
        }
        v.retain(|&x| x < n);
        v
    }
}

impl BitQ {
    fn new(rng: &mut SmallRng, bits: &[bool], all_upto: usize, k: usize) -> BitQ {
        let len = bits.len();
        let n1 = bits.iter().filter(|&&b| b).count();
        let n0 = len - n1;
        let idx = sample(rng, len, all_upto, k);
        let mut pos = sample(rng, len, all_upto, k);
        pos.extend_from_slice(&[len, len + 1, len + 64, len.saturating_mul(2).max(len + 2)]);
        let mut r1 = sample(rng, n1, all_upto, k);
        r1.extend_from_slice(&[n1, n1 + 1, usize::MAX]);
        let mut r0 = sample(rng, n0, all_upto, k);
        r0.extend_from_slice(&[n0, n0 + 1, usize::MAX]);
        BitQ { len, n1, n0, idx, pos, r1, r0, full_iter: len <= 4 * all_upto.max(64) }
    }
}

fn t_len<S: BitLength + ?Sized>(t: &mut Tr, s: &S, _q: &BitQ) {
    t.u("len", 0, s.len());
}

fn t_counts<S: BitCount + ?Sized>(t: &mut Tr, s: &S, _q: &BitQ) {
    t.u("count_ones", 0, s.count_ones());
    t.u("count_zeros", 0, s.count_zeros());
}

fn t_numbits<S: NumBits + ?Sized>(t: &mut Tr, s: &S, _q: &BitQ) {
    t.u("num_ones", 0, s.num_ones());
    t.u("num_zeros", 0, s.num_zeros());
}

fn t_index<S: Index<usize, Output = bool> + ?Sized>(t: &mut Tr, s: &S, q: &BitQ) {
    for &i in &q.idx {
        t.b("index", i, s[i]);
    }
}

fn t_words<S: AsRef<[usize]> + ?Sized>(t: &mut Tr, s: &S, _q: &BitQ) {
    let w: &[usize] = s.as_ref();
    t.seq("as_ref_words", 0, w.iter().map(|&x| x as u64));
}

fn t_rank<S: Rank + RankZero + ?Sized>(t: &mut Tr, s: &S, q: &BitQ) {
    for &p in &q.pos {
        t.u("rank", p, s.rank(p));
        if p <= q.len {
            t.u("rank_zero", p, s.rank_zero(p));
        }
        if p < q.len {
            t.u("rank_unchecked", p, unsafe { s.rank_unchecked(p) });
        }
    }
}

fn t_select<S: Select + ?Sized>(t: &mut Tr, s: &S, q: &BitQ) {
    for &r in &q.r1 {
        t.o("select", r, s.select(r));
        if r < q.n1 {
            t.u("select_unchecked", r, unsafe { s.select_unchecked(r) });
        }
    }
}

fn t_select_zero<S: SelectZero + ?Sized>(t: &mut Tr, s: &S, q: &BitQ) {
    for &r in &q.r0 {
        t.o("select_zero", r, s.select_zero(r));
        if r < q.n0 {
            t.u("select_zero_unchecked", r, unsafe { s.select_zero_unchecked(r) });
        }
    }
}

/// Everything a plain `BitVec` over any backend answers.
fn t_bitvec<B: AsRef<[usize]>>(t: &mut Tr, b: &BitVec<B>, q: &BitQ) {
    t.u("BitVec::len", 0, b.len());
    for &i in &q.idx {
        t.b("get", i, b.get(i));
        t.b("get_unchecked", i, unsafe { b.get_unchecked(i) });
    }
    if q.full_iter {
        for (i, x) in b.iter().enumerate() {
            t.b("iter", i, x);
        }
        for (i, x) in b.into_iter().enumerate().take(64) {
            t.b("into_iter", i, x);
        }
        for (i, x) in b.iter_ones().enumerate() {
            t.u("iter_ones", i, x);
        }
        for (i, x) in b.iter_zeros().enumerate() {
            t.u("iter_zeros", i, x);
        }
    } else {
        t.seq("iter", 0, b.iter().map(|x| x as u64));
        t.seq("iter_ones", 0, b.iter_ones().map(|x| x as u64));
        t.seq("iter_zeros", 0, b.iter_zeros().map(|x| x as u64));
    }
    let o = b.to_owned();
    t.b("to_owned_eq", 0, o == *b && *b == o);
    t.s("display", 0, if q.len <= 256 { format!("{}", b) } else { String::new() });
}

// ---------------------------------------------------------------------------
// contents of bit vectors

#[derive(Clone, Copy, Debug)]
enum BitKind {
    Empty,
    Minimal,
    WordEdge,
    BlockEdge,
    Zeros,
    Ones,
    Dense,
    Sparse,
    Runs,
    DirtyTail,
    BigSparse,
    BigMixed,
}

impl BitKind {
    fn name(&self) -> &'static str {
        match self {
            BitKind::Empty => "empty",
            BitKind::Minimal => "minimal",
            BitKind::WordEdge => "word-edge",
            BitKind::BlockEdge => "block-edge",
            BitKind::Zeros => "all-zeros",
            BitKind::Ones => "all-ones",
            BitKind::Dense => "dense",
            BitKind::Sparse => "sparse",
            BitKind::Runs => "runs",
            BitKind::DirtyTail => "stale-tail",
            BitKind::BigSparse => "big-sparse",
            BitKind::BigMixed => "big-mixed",
        }
    }
}

fn bit_kinds(ctx: &Ctx) -> Vec<BitKind> {
    use BitKind::*;
    if ctx.small {
        vec![Empty, Minimal, WordEdge, Dense, DirtyTail]
    } else {
        vec![Empty, Minimal, WordEdge, BlockEdge, Zeros, Ones, Dense, Sparse, Runs, DirtyTail, BigSparse, BigMixed]
    }
}

/// Model bits and a `BitVec<Vec<usize>>` holding them.
fn gen_bitcase(rng: &mut SmallRng, kind: BitKind, small: bool) -> (Vec<bool>, BitVec<Vec<usize>>, String) {
    use BitKind::*;
    let max = if small { 200 } else { 6000 };
    let (bits, tail): (Vec<bool>, Tail) = match kind {
        Empty => (vec![], Tail::Fresh),
        Minimal => (vec![rng.random_bool(0.5)], Tail::Fresh),
        WordEdge => {
            let len = [63, 64, 65, 127, 128, 129][rng.random_range(0..6)];
            (gen_bits(rng, len, Pattern::Density(0.5)), Tail::Fresh)
        }
        BlockEdge => {
            let len = [511, 512, 513, 1023, 1024, 1025, 2047, 2048, 2049, 4095, 4096, 4097][rng.random_range(0..12)];
            let d = [0.1, 0.5, 0.9][rng.random_range(0..3)];
            (gen_bits(rng, len, Pattern::Density(d)), Tail::Fresh)
        }
        Zeros => (vec![false; rng.random_range(2..max)], Tail::Fresh),
        Ones => (vec![true; rng.random_range(2..max)], Tail::Fresh),
        Dense => {
            let len = rng.random_range(max / 4..max);
            let d = [0.5, 0.9, 0.98][rng.random_range(0..3)];
            (gen_bits(rng, len, Pattern::Density(d)), Tail::Fresh)
        }
        Sparse => {
            let len = rng.random_range(max / 4..max);
            let d = [0.002, 0.02, 0.1][rng.random_range(0..3)];
            (gen_bits(rng, len, Pattern::Density(d)), Tail::Fresh)
        }
        Runs => {
            let len = rng.random_range(max / 4..max);
            let p = if rng.random_bool(0.5) { Pattern::Runs(40) } else { Pattern::TwoDensity };
            (gen_bits(rng, len, p), Tail::Fresh)
        }
        DirtyTail => {
            let len = rng.random_range(max / 8..max / 2);
            let tails = [Tail::Popped, Tail::Truncated, Tail::DirtyOnes(2), Tail::DirtyRandom(3)];
            (gen_bits(rng, len, Pattern::Density(0.5)), tails[rng.random_range(0..4)])
        }
        BigSparse => {
            // gaps above 2^16 (and, with luck, one run of dense ones)
            let len = rng.random_range(150_000..400_000);
            let mut b = vec![false; len];
            for _ in 0..rng.random_range(1..6) {
                let i = rng.random_range(0..len);
                b[i] = true;
            }
            let s = rng.random_range(0..len - 3000);
            for x in b[s..s + 3000].iter_mut() {
                *x = rng.random_bool(0.5);
            }
            (b, Tail::Fresh)
        }
        BigMixed => {
            let len = rng.random_range(100_000..300_000);
            (gen_bits(rng, len, Pattern::TwoDensity), Tail::Fresh)
        }
    };
    let bv = bitvec_with_tail(rng, &bits, tail);
    let d = format!("kind={} tail={} bits: {}", kind.name(), tail.name(), show_bits(&bits));
    (bits, bv, d)
}

fn bits_nontrivial(bits: &[bool]) -> bool {
    bits.len() >= 2 && bits.iter().any(|&b| b) && bits.iter().any(|&b| !b)
}

/// One structure variant over every class of bit contents, in every mode.
/// `$ctor` builds the structure from `$bv: BitVec<Vec<usize>>`; `$cap` lists
/// the generic transcript functions the structure supports.
macro_rules! bits_variant {
    ($ctx:ident, $name:expr, [], |$bv:ident| $ctor:expr, [$($cap:ident),*]) => {
        bits_variant!($ctx, $name, [], |$bv| $ctor, [$($cap),*], eps [$($cap),*])
    };
    ($ctx:ident, $name:expr, [], |$bv:ident| $ctor:expr, [$($cap:ident),*], eps [$($ecap:ident),*]) => {
        for kind in bit_kinds(&$ctx) {
            for &mode in modes(&$ctx) {
                let small = $ctx.small;
                $ctx.case($name, kind.name(), mode.op(), |c| {
                    let (bits, $bv, d) = gen_bitcase(c.rng(), kind, small);
                    let q = BitQ::new(c.rng(), &bits, if small { 64 } else { 1500 }, if small { 20 } else { 1200 });
                    c.describe(|| d.clone());
                    let Ok(orig) = catch(move || $ctor) else { abandoned(); return };
                    let what = format!("{} over {} bits ({} ones), stratum {}", $name, q.len, q.n1, kind.name());
                    let done = roundtrip!(c, mode, &what, orig, [], |t, x| {
                        $( $cap(t, x, &q); )*
                    }, eps {
                        $( $ecap(t, x, &q); )*
                    });
                    if done && bits_nontrivial(&bits) {
                        c.nontrivial();
                    }
                });
            }
        }
    };
}

fn bit_family(ctx: &mut Ctx) {
    type BB = BitVec<Box<[usize]>>;
    bits_variant!(ctx, "BitVec<Vec>", [], |bv| bv, [t_bitvec, t_len, t_counts, t_index, t_words]);
    bits_variant!(ctx, "BitVec<Box>", [], |bv| { let b: BB = bv.into(); b }, [t_bitvec, t_len, t_counts, t_index, t_words]);
    bits_variant!(ctx, "AddNumBits(BitVec)", [], |bv| AddNumBits::from(bv), [t_len, t_counts, t_numbits, t_index, t_words]);
    bits_variant!(ctx, "Rank9", [], |bv| Rank9::new(bv), [t_len, t_counts, t_numbits, t_index, t_words, t_rank]);
    bits_variant!(ctx, "Rank9(BitVec<Box>)", [], |bv| { let b: BB = bv.into(); Rank9::new(b) }, [t_len, t_numbits, t_index, t_rank]);
    bits_variant!(ctx, "RankSmall<2,9>", [], |bv| RankSmall::<2, 9, _, _, _>::new(bv), [t_len, t_counts, t_numbits, t_index, t_words, t_rank]);
    bits_variant!(ctx, "RankSmall<1,9>", [], |bv| RankSmall::<1, 9, _, _, _>::new(bv), [t_len, t_counts, t_numbits, t_index, t_words, t_rank]);
    bits_variant!(ctx, "RankSmall<1,10>", [], |bv| RankSmall::<1, 10, _, _, _>::new(bv), [t_len, t_counts, t_numbits, t_index, t_words, t_rank]);
    bits_variant!(ctx, "RankSmall<1,11>", [], |bv| RankSmall::<1, 11, _, _, _>::new(bv), [t_len, t_counts, t_numbits, t_index, t_words, t_rank]);
    bits_variant!(ctx, "RankSmall<3,13>", [], |bv| RankSmall::<3, 13, _, _, _>::new(bv), [t_len, t_counts, t_numbits, t_index, t_words, t_rank]);
    bits_variant!(ctx, "Select9(Rank9)", [], |bv| Select9::new(Rank9::new(bv)), [t_len, t_numbits, t_index, t_words, t_rank, t_select]);
    bits_variant!(ctx, "SelectAdapt(AddNumBits)", [], |bv| SelectAdapt::new(AddNumBits::from(bv), 3), [t_len, t_numbits, t_index, t_words, t_select]);
    bits_variant!(ctx, "SelectAdapt(Rank9)", [], |bv| SelectAdapt::new(Rank9::new(bv), 2), [t_len, t_numbits, t_index, t_rank, t_select]);
    bits_variant!(ctx, "SelectAdaptConst(AddNumBits)", [], |bv| SelectAdaptConst::<_, _>::new(AddNumBits::from(bv)), [t_len, t_numbits, t_index, t_words, t_select]);
    bits_variant!(ctx, "SelectAdaptConst<10,2>(RankSmall<1,9>)", [], |bv| SelectAdaptConst::<_, _, 10, 2>::new(RankSmall::<1, 9, _, _, _>::new(bv)), [t_len, t_numbits, t_index, t_rank, t_select]);
    bits_variant!(ctx, "SelectZeroAdapt(AddNumBits)", [], |bv| SelectZeroAdapt::new(AddNumBits::from(bv), 3), [t_len, t_numbits, t_index, t_words, t_select_zero]);
    bits_variant!(ctx, "SelectZeroAdaptConst(AddNumBits)", [], |bv| SelectZeroAdaptConst::<_, _>::new(AddNumBits::from(bv)), [t_len, t_numbits, t_index, t_words, t_select_zero]);
    bits_variant!(ctx, "SelectZeroAdapt(SelectAdapt(Rank9))", [], |bv| SelectZeroAdapt::new(SelectAdapt::new(Rank9::new(bv), 3), 3), [t_len, t_numbits, t_index, t_rank, t_select, t_select_zero]);
    bits_variant!(
        ctx,
        "SelectZeroAdaptConst(SelectAdaptConst(RankSmall<2,9>))",
        [],
        |bv| SelectZeroAdaptConst::<_, _>::new(SelectAdaptConst::<_, _>::new(RankSmall::<2, 9, _, _, _>::new(bv))),
        [t_len, t_numbits, t_index, t_rank, t_select, t_select_zero]
    );
    bits_variant!(ctx, "SelectAdapt(SelectZeroAdapt(RankSmall<1,11>))", [], |bv| SelectAdapt::new(SelectZeroAdapt::new(RankSmall::<1, 11, _, _, _>::new(bv), 3), 3), [t_len, t_numbits, t_index, t_rank, t_select, t_select_zero]);
    bits_variant!(ctx, "SelectZeroAdapt(Select9(Rank9))", [], |bv| SelectZeroAdapt::new(Select9::new(Rank9::new(bv)), 3), [t_len, t_numbits, t_index, t_rank, t_select, t_select_zero]);
    bits_variant!(ctx, "Select9(Rank9(SelectZeroAdapt(AddNumBits)))", [], |bv| Select9::new(Rank9::new(SelectZeroAdapt::new(AddNumBits::from(bv), 3))), [t_len, t_numbits, t_index, t_rank, t_select, t_select_zero]);
    bits_variant!(ctx, "Rank9(SelectAdapt(AddNumBits))", [], |bv| Rank9::new(SelectAdapt::new(AddNumBits::from(bv), 3)), [t_len, t_numbits, t_index, t_rank, t_select]);
    // The borrowed (ε-copy / memory-mapped) forms of SelectSmall and
    // SelectZeroSmall do not implement Select / SelectZero at all (the impls
    // exist only for the boxed inventories; see notes/C15-defects.md), so
    // the script run on those views leaves the selection queries out.
    macro_rules! small_family {
        ($n:literal, $w:literal, $tag:expr) => {
            bits_variant!(ctx, concat!("SelectSmall(RankSmall<", $tag, ">)"), [], |bv| SelectSmall::<$n, $w, _>::new(RankSmall::<$n, $w, _, _, _>::new(bv)), [t_len, t_numbits, t_index, t_rank, t_select], eps [t_len, t_numbits, t_index, t_rank]);
            bits_variant!(ctx, concat!("SelectZeroSmall(RankSmall<", $tag, ">)"), [], |bv| SelectZeroSmall::<$n, $w, _>::new(RankSmall::<$n, $w, _, _, _>::new(bv)), [t_len, t_numbits, t_index, t_rank, t_select_zero], eps [t_len, t_numbits, t_index, t_rank]);
            bits_variant!(
                ctx,
                concat!("SelectZeroSmall(SelectSmall(RankSmall<", $tag, ">))"),
                [],
                |bv| SelectZeroSmall::<$n, $w, _>::new(SelectSmall::<$n, $w, _>::new(RankSmall::<$n, $w, _, _, _>::new(bv))),
                [t_len, t_numbits, t_index, t_rank, t_select, t_select_zero],
                eps [t_len, t_numbits, t_index, t_rank]
            );
        };
    }
    small_family!(2, 9, "2,9");
    small_family!(1, 9, "1,9");
    small_family!(1, 10, "1,10");
    small_family!(1, 11, "1,11");
    small_family!(3, 13, "3,13");
    bits_variant!(
        ctx,
        "SelectAdapt(SelectZeroSmall(SelectSmall(RankSmall<1,10>)))",
        [],
        |bv| SelectAdapt::new(SelectZeroSmall::<1, 10, _>::new(SelectSmall::<1, 10, _>::new(RankSmall::<1, 10, _, _, _>::new(bv))), 3),
        [t_len, t_numbits, t_index, t_rank, t_select, t_select_zero],
        eps [t_len, t_numbits, t_index, t_rank, t_select]
    );
}

// ---------------------------------------------------------------------------
// bit-field vectors

trait To128: Copy {
    fn to128(self) -> u128;
    fn from128(x: u128) -> Self;
}
macro_rules! impl_to128 {
    ($($t:ty),*) => {$(
        impl To128 for $t {
            fn to128(self) -> u128 { self as u128 }
            fn from128(x: u128) -> Self { x as $t }
        }
    )*};
}
impl_to128!(u8, u16, u32, u64, usize, u128);

struct BfvQ {
    len: usize,
    width: usize,
    idx: Vec<usize>,
    from: Vec<usize>,
    /// indices on which `get_unaligned` is within its documented constraints
    unaligned: Vec<usize>,
}

/// The atomic view of a vector (`.into()` an `AtomicBitFieldVec` over the same kind
/// of backend: owned for the original and the full copy, `&[W]` for zero-copy
/// instances) is part of the observable behaviour.
trait AtomicViewTrace {
    fn atomic_trace(&self, t: &mut Tr, q: &BfvQ);
}
macro_rules! impl_atomic_view {
    ($($W:ty),*) => {$(
        impl AtomicViewTrace for BitFieldVec<$W, Vec<$W>> {
            fn atomic_trace(&self, t: &mut Tr, q: &BfvQ) {
                let a: sux::bits::AtomicBitFieldVec<$W, Vec<<$W as common_traits::IntoAtomic>::AtomicType>> = self.clone().into();
                atomic_obs!(t, a, q);
            }
        }
        impl AtomicViewTrace for BitFieldVec<$W, Box<[$W]>> {
            fn atomic_trace(&self, t: &mut Tr, q: &BfvQ) {
                let a: sux::bits::AtomicBitFieldVec<$W, Box<[<$W as common_traits::IntoAtomic>::AtomicType]>> = self.clone().into();
                atomic_obs!(t, a, q);
            }
        }
        impl<'a> AtomicViewTrace for BitFieldVec<$W, &'a [$W]> {
            fn atomic_trace(&self, t: &mut Tr, q: &BfvQ) {
                let a: sux::bits::AtomicBitFieldVec<$W, &'a [<$W as common_traits::IntoAtomic>::AtomicType]> = self.clone().into();
                atomic_obs!(t, a, q);
            }
        }
    )*};
}
macro_rules! atomic_obs {
    ($t:ident, $a:ident, $q:ident) => {{
        use std::sync::atomic::Ordering;
        use sux::traits::AtomicBitFieldSlice;
        $t.u("atomic_view_len", 0, $a.len());
        $t.u("atomic_view_bit_width", 0, $a.bit_width());
        let l = $a.len();
        for &i in $q.idx.iter().take(300) {
            if i < l {
                $t.w("atomic_view_get", i, $a.get_atomic(i, Ordering::Relaxed).to128());
            }
        }
    }};
}
impl_atomic_view!(u8, u16, u32, u64, usize);
// no atomic 128-bit words
impl<B> AtomicViewTrace for BitFieldVec<u128, B> {
    fn atomic_trace(&self, _t: &mut Tr, _q: &BfvQ) {}
}

fn t_bfv<W: Word + To128, B: AsRef<[W]>>(t: &mut Tr, v: &BitFieldVec<W, B>, q: &BfvQ)
where
    BitFieldVec<W, B>: AtomicViewTrace,
{
    v.atomic_trace(t, q);
    // equality across backends: with a heap copy of the same elements (both directions)
    // and with a copy that differs in one element
    {
        use sux::traits::BitFieldSliceMut;
        let n = BitFieldSliceCore::<W>::len(v);
        let w = BitFieldSliceCore::<W>::bit_width(v);
        let mut copy = BitFieldVec::<W>::new(w, n);
        for i in 0..n {
            copy.set(i, BitFieldSlice::<W>::get(v, i));
        }
        t.u("eq_heap_copy", 0, (*v == copy) as usize);
        t.u("eq_heap_copy_rev", 0, (copy == *v) as usize);
        if n > 0 && w > 0 {
            let i = n / 2;
            let x = copy.get(i);
            copy.set(i, x ^ W::ONE);
            t.u("eq_heap_copy_one_changed", 0, (*v == copy) as usize);
        }
    }
    t.u("len", 0, BitFieldSliceCore::<W>::len(v));
    t.u("bit_width", 0, BitFieldSliceCore::<W>::bit_width(v));
    for &i in &q.idx {
        t.w("get", i, BitFieldSlice::<W>::get(v, i).to128());
        t.w("get_unchecked", i, unsafe { BitFieldSlice::<W>::get_unchecked(v, i) }.to128());
    }
    for &i in &q.unaligned {
        t.w("get_unaligned", i, v.get_unaligned(i).to128());
    }
    if q.len <= 8192 {
        for (i, x) in v.iter().enumerate() {
            t.w("iter", i, x.to128());
        }
    } else {
        t.seq("iter", 0, v.iter().map(|x| (x.to128() ^ (x.to128() >> 64)) as u64));
    }
    for &f in &q.from {
        t.seq("iter_from", f, v.iter_from(f).map(|x| (x.to128() ^ (x.to128() >> 64)) as u64));
        let mut it = v.into_unchecked_iter_from(f);
        for k in f..q.len.min(f + 70) {
            t.w("unchecked_iter_from", k, unsafe { it.next_unchecked() }.to128());
        }
        if f > 0 && f <= q.len {
            let mut it = v.into_rev_unchecked_iter_from(f);
            for k in (f.saturating_sub(70)..f).rev() {
                t.w("rev_unchecked_iter_from", k, unsafe { it.next_unchecked() }.to128());
            }
        }
    }
    t.seq("into_iter", 0, v.into_iter().map(|x| (x.to128() ^ (x.to128() >> 64)) as u64));
    t.seq("as_slice", 0, v.as_slice().iter().map(|x| (x.to128() ^ (x.to128() >> 64)) as u64));
}

/// Cases for one word type: strata of (width, len, constructor).
macro_rules! bfv_cases {
    ($ctx:ident, $W:ty, $wname:expr) => {{
        let bits = <$W>::BITS as usize;
        let strata: &[&str] = if $ctx.small {
            &["empty", "width0", "full-width", "ordinary"]
        } else {
            &["empty", "width0", "width1", "full-width", "ordinary", "ordinary", "unaligned-padded", "word-boundary", "long"]
        };
        for &boxed in &[false, true] {
            let vname = format!("BitFieldVec<{},{}>", $wname, if boxed { "Box" } else { "Vec" });
            for &st in strata {
                for &mode in modes(&$ctx) {
                    let small = $ctx.small;
                    $ctx.case(&vname, st, mode.op(), |c| {
                        let maxlen = if small { 60 } else { 3000 };
                        let (width, len, padded): (usize, usize, bool) = match st {
                            "empty" => (c.rng().random_range(0..=bits), 0, c.rng().random_bool(0.5)),
                            "width0" => (0, c.rng().random_range(1..maxlen), false),
                            "width1" => (1, c.rng().random_range(1..maxlen), false),
                            "full-width" => (bits, c.rng().random_range(1..maxlen), c.rng().random_bool(0.3)),
                            "unaligned-padded" => {
                                // widths get_unaligned accepts
                                let ws: Vec<usize> = (1..=bits).filter(|&w| w <= bits - 8 + 2 || w == bits - 8 + 4 || w == bits).collect();
                                (ws[c.rng().random_range(0..ws.len())], c.rng().random_range(1..maxlen), true)
                            }
                            "word-boundary" => {
                                let w = c.rng().random_range(1..=bits);
                                // a length whose last element ends exactly at / just after a word boundary
                                let per = (bits * c.rng().random_range(1..20usize)) / w;
                                (w, (per + c.rng().random_range(0..2usize)).max(1), false)
                            }
                            "long" => (c.rng().random_range(1..=bits), c.rng().random_range(20_000..60_000), false),
                            _ => (c.rng().random_range(1..=bits), c.rng().random_range(1..maxlen), c.rng().random_bool(0.2)),
                        };
                        let mask: u128 = if width == 0 { 0 } else if width == 128 { u128::MAX } else { (1u128 << width) - 1 };
                        let vals: Vec<u128> = (0..len)
                            .map(|_| {
                                let r = ((c.rng().next_u64() as u128) << 64) | c.rng().next_u64() as u128;
                                match c.rng().random_range(0..8) {
                                    0 => 0,
                                    1 => mask,
                                    _ => r & mask,
                                }
                            })
                            .collect();
                        c.describe(|| format!("W={} width={} len={} constructor={} values={:?}", $wname, width, len, if padded { "new_unaligned" } else { "new" }, &vals[..vals.len().min(64)]));
                        let built = catch(|| {
                            use sux::traits::BitFieldSliceMut;
                            let mut v = if padded { BitFieldVec::<$W>::new_unaligned(width, len) } else { BitFieldVec::<$W>::new(width, len) };
                            for (i, &x) in vals.iter().enumerate() {
                                v.set(i, <$W as To128>::from128(x));
                            }
                            v
                        });
                        let Ok(v) = built else { abandoned(); return };
                        let mut idx = sample(c.rng(), len, 2500, 800);
                        idx.dedup();
                        let from: Vec<usize> = if len == 0 { vec![0] } else { vec![0, len / 2, len - 1, len, c.rng().random_range(0..=len)] };
                        let unaligned_ok = padded && (width <= bits - 8 + 2 || width == bits - 8 + 4 || width == bits);
                        let q = BfvQ { len, width, idx: idx.clone(), from, unaligned: if unaligned_ok { idx } else { vec![] } };
                        let what = format!("{} width {} len {}{}", vname, width, len, if padded { " (padded)" } else { "" });
                        let done = if boxed {
                            let b: BitFieldVec<$W, Box<[$W]>> = v.into();
                            roundtrip!(c, mode, &what, b, [], |t, x| { t_bfv(t, x, &q); })
                        } else {
                            roundtrip!(c, mode, &what, v, [], |t, x| { t_bfv(t, x, &q); })
                        };
                        if done && len >= 2 && q.width >= 1 && vals.iter().any(|&x| x != vals[0]) {
                            c.nontrivial();
                        }
                    });
                }
            }
        }
    }};
}

fn bfv_family(ctx: &mut Ctx) {
    bfv_cases!(ctx, usize, "usize");
    bfv_cases!(ctx, u64, "u64");
    bfv_cases!(ctx, u32, "u32");
    bfv_cases!(ctx, u16, "u16");
    bfv_cases!(ctx, u8, "u8");
    bfv_cases!(ctx, u128, "u128");
}

// ---------------------------------------------------------------------------
// Elias–Fano

struct EfQ {
    n: usize,
    idx: Vec<usize>,
    from: Vec<usize>,
    probes: Vec<usize>,
}

fn t_ef_iter<H: AsRef<[usize]>, L: BitFieldSlice<usize>>(t: &mut Tr, ef: &EliasFano<H, L>, q: &EfQ)
where
    for<'b> &'b L: IntoUncheckedIterator<Item = usize>,
{
    t.u("EliasFano::len", 0, ef.len());
    if q.n <= 8192 {
        for (i, x) in ef.iter().enumerate() {
            t.u("iter", i, x);
        }
    } else {
        t.seq("iter", 0, ef.iter().map(|x| x as u64));
    }
    t.seq("into_iter", 0, ef.into_iter().map(|x| x as u64));
    t.u("iter.len", 0, ef.iter().len());
}

fn t_ef_seq<H: AsRef<[usize]> + SelectUnchecked, L: BitFieldSlice<usize>>(t: &mut Tr, ef: &EliasFano<H, L>, q: &EfQ)
where
    for<'b> &'b L: IntoUncheckedIterator<Item = usize>,
{
    t.u("IndexedSeq::len", 0, IndexedSeq::len(ef));
    t.b("is_empty", 0, IndexedSeq::is_empty(ef));
    for &i in &q.idx {
        t.u("get", i, IndexedSeq::get(ef, i));
        t.u("get_unchecked", i, unsafe { IndexedSeq::get_unchecked(ef, i) });
    }
    for &f in &q.from {
        t.seq("iter_from", f, ef.iter_from(f).map(|x| x as u64));
    }
}

fn t_ef_dict<H: AsRef<[usize]> + SelectZeroUnchecked, L: BitFieldSlice<usize>>(t: &mut Tr, ef: &EliasFano<H, L>, q: &EfQ)
where
    for<'b> &'b L: IntoUncheckedIterator<Item = usize>,
{
    for &v in &q.probes {
        t.o("index_of", v, ef.index_of(v));
        t.b("contains", v, ef.contains(v));
    }
}

fn t_ef_succ_pred<H: AsRef<[usize]> + SelectUnchecked + SelectZeroUnchecked, L: BitFieldSlice<usize>>(t: &mut Tr, ef: &EliasFano<H, L>, q: &EfQ)
where
    for<'b> &'b L: IntoUncheckedIterator<Item = usize>,
    for<'b> &'b L: IntoReverseUncheckedIterator<Item = usize>,
{
    for &v in &q.probes {
        t.p("succ", v, ef.succ(v));
        t.p("succ_strict", v, ef.succ_strict(v));
        t.p("pred", v, ef.pred(v));
        t.p("pred_strict", v, ef.pred_strict(v));
    }
    // a borrowed (memory-mapped, zero-copy) instance reaches generic code by reference:
    // the same queries through the forwarding implementations for `&T`
    // (the original is asked directly, a loaded instance through `&T`, under the same keys)
    fn by_ref<D: Succ<Input = usize, Output = usize> + Pred<Input = usize, Output = usize>>(t: &mut Tr, d: D, probes: &[usize]) {
        for &v in probes.iter().take(300) {
            t.p("generic_succ", v, d.succ(v));
            t.p("generic_succ_strict", v, d.succ_strict(v));
            t.p("generic_pred", v, d.pred(v));
            t.p("generic_pred_strict", v, d.pred_strict(v));
        }
    }
    if t.loaded {
        by_ref(t, ef, &q.probes);
    } else {
        for &v in q.probes.iter().take(300) {
            t.p("generic_succ", v, ef.succ(v));
            t.p("generic_succ_strict", v, ef.succ_strict(v));
            t.p("generic_pred", v, ef.pred(v));
            t.p("generic_pred_strict", v, ef.pred_strict(v));
        }
    }
}

const EF_STRATA: &[&str] = &["empty", "empty-u>0", "single", "dense-l0", "u<n-duplicates", "sparse", "huge-u", "constant", "ordinary", "ordinary", "long"];
const EF_STRATA_SMALL: &[&str] = &["empty", "single", "dense-l0", "sparse", "ordinary"];

fn gen_ef(rng: &mut SmallRng, st: &str, small: bool) -> (Vec<usize>, usize) {
    let maxn = if small { 40 } else { 3000 };
    let (n, u): (usize, usize) = match st {
        "empty" => (0, 0),
        "empty-u>0" => (0, rng.random_range(1..1_000_000)),
        "single" => (1, [0usize, 1, 1000, usize::MAX >> 1][rng.random_range(0..4)]),
        "dense-l0" => {
            let n = rng.random_range(2..maxn);
            (n, n + rng.random_range(0..n))
        }
        "u<n-duplicates" => {
            let n = rng.random_range(10..maxn);
            (n, rng.random_range(0..n / 2))
        }
        "sparse" => {
            let n = rng.random_range(2..maxn);
            (n, n << rng.random_range(3..30))
        }
        "huge-u" => (rng.random_range(2..maxn), usize::MAX - rng.random_range(0..3usize)),
        "constant" => (rng.random_range(2..maxn), rng.random_range(0..100_000)),
        "long" => {
            let n = rng.random_range(20_000..60_000);
            (n, n * rng.random_range(1..300))
        }
        _ => {
            let n = rng.random_range(2..maxn);
            (n, rng.random_range(0..n * 1000))
        }
    };
    let mut xs: Vec<usize> = if st == "constant" {
        let v = rng.random_range(0..=u);
        vec![v; n]
    } else {
        (0..n).map(|_| if u == usize::MAX { rng.next_u64() as usize } else { rng.random_range(0..=u) }).collect()
    };
    xs.sort_unstable();
    (xs, u)
}

fn ef_query(rng: &mut SmallRng, xs: &[usize], u: usize, small: bool) -> EfQ {
    let n = xs.len();
    let idx = sample(rng, n, if small { 40 } else { 2000 }, 600);
    let from: Vec<usize> = if n == 0 { vec![0] } else { vec![0, n / 2, n - 1, n, rng.random_range(0..=n)] };
    let mut probes: Vec<usize> = vec![0, u, u / 2, u.saturating_sub(1)];
    for &i in idx.iter().take(if small { 20 } else { 500 }) {
        let v = xs[i];
        probes.push(v);
        probes.push(v.saturating_sub(1));
        if v < u {
            probes.push(v + 1);
        }
    }
    for _ in 0..if small { 10 } else { 200 } {
        probes.push(if u == usize::MAX { rng.next_u64() as usize } else { rng.random_range(0..=u) });
    }
    probes.retain(|&v| v <= u);
    EfQ { n, idx, from, probes }
}

/// One Elias–Fano variant: `$fin` turns the plain `EliasFano` returned by the
/// builder into the variant; `$cap` are the transcript functions it supports.
macro_rules! ef_variant {
    ($ctx:ident, $name:expr, |$e:ident| $fin:expr, [$($cap:ident),*]) => {
        for &st in if $ctx.small { EF_STRATA_SMALL } else { EF_STRATA } {
            for &mode in modes(&$ctx) {
                let small = $ctx.small;
                $ctx.case($name, st, mode.op(), |c| {
                    let (xs, u) = gen_ef(c.rng(), st, small);
                    let q = ef_query(c.rng(), &xs, u, small);
                    c.describe(|| format!("n={} u={} values={:?}", xs.len(), u, &xs[..xs.len().min(200)]));
                    let built = catch(|| {
                        let mut b = EliasFanoBuilder::new(xs.len(), u);
                        for &x in &xs {
                            b.push(x);
                        }
                        let $e = b.build();
                        $fin
                    });
                    let Ok(orig) = built else { abandoned(); return };
                    let what = format!("{} n={} u={} stratum {}", $name, xs.len(), u, st);
                    let done = roundtrip!(c, mode, &what, orig, [], |t, x| {
                        $( $cap(t, x, &q); )*
                    });
                    if done && xs.len() >= 2 && xs[0] != xs[xs.len() - 1] {
                        c.nontrivial();
                    }
                });
            }
        }
    };
}

fn ef_family(ctx: &mut Ctx) {
    ef_variant!(ctx, "EliasFano(plain)", |e| e, [t_ef_iter]);
    ef_variant!(ctx, "EfSeq", |e| unsafe { e.map_high_bits(SelectAdaptConst::<_, _, 12, 3>::new) }, [t_ef_iter, t_ef_seq]);
    ef_variant!(ctx, "EfDict", |e| unsafe { e.map_high_bits(SelectZeroAdaptConst::<_, _, 12, 3>::new) }, [t_ef_iter, t_ef_dict]);
    ef_variant!(
        ctx,
        "EfSeqDict",
        |e| unsafe { e.map_high_bits(SelectAdaptConst::<_, _, 12, 3>::new).map_high_bits(SelectZeroAdaptConst::<_, _, 12, 3>::new) },
        [t_ef_iter, t_ef_seq, t_ef_dict, t_ef_succ_pred]
    );
    ef_variant!(
        ctx,
        "EliasFano<SelectZeroAdapt(SelectAdapt),BitFieldVec<Vec>>",
        |e| unsafe {
            e.map_high_bits(|h| SelectZeroAdapt::new(SelectAdapt::new(h, 3), 3)).map_low_bits(|l| {
                let v: BitFieldVec<usize, Vec<usize>> = l.into();
                v
            })
        },
        [t_ef_iter, t_ef_seq, t_ef_dict, t_ef_succ_pred]
    );
    ef_variant!(
        ctx,
        "EliasFano<SelectAdapt(SelectZeroAdaptConst(BitVec<Vec>))>",
        |e| unsafe {
            e.map_high_bits(|h| {
                let v: BitVec<Vec<usize>> = h.into();
                SelectAdapt::new(SelectZeroAdaptConst::<_, _>::new(v), 2)
            })
        },
        [t_ef_iter, t_ef_seq, t_ef_dict, t_ef_succ_pred]
    );
}

// ---------------------------------------------------------------------------
// rear-coded lists

struct RclQ {
    n: usize,
    idx: Vec<usize>,
    from: Vec<usize>,
    probes: Vec<String>,
}

fn t_rcl<D: AsRef<[u8]>, P: AsRef<[usize]>>(t: &mut Tr, r: &RearCodedList<D, P>, q: &RclQ) {
    use lender::Lender;
    t.u("len", 0, r.len());
    t.u("IndexedSeq::len", 0, IndexedSeq::len(r));
    let mut buf = Vec::new();
    for &i in &q.idx {
        t.s("get", i, IndexedSeq::get(r, i));
        r.get_in_place(i, &mut buf);
        t.s("get_in_place", i, String::from_utf8_lossy(&buf).into_owned());
    }
    if q.n > 0 {
        for (i, x) in r.iter().enumerate() {
            t.s("iter", i, x);
        }
        let mut l = r.lend();
        let mut i = 0;
        while let Some(x) = l.next() {
            t.s("lend", i, x.to_string());
            i += 1;
        }
        t.u("lend.count", 0, i);
        for (i, x) in r.into_iter().enumerate().take(40) {
            t.s("into_iter", i, x);
        }
    }
    for &f in &q.from {
        t.seq("iter_from", f, r.iter_from(f).map(|x| hash_str(&x)));
        let mut l = r.lend_from(f);
        let mut k = 0;
        while let Some(x) = l.next() {
            if k < 3 {
                t.s("lend_from", f + k, x.to_string());
            }
            k += 1;
        }
        t.u("lend_from.count", f, k);
    }
    for (i, p) in q.probes.iter().enumerate() {
        t.o("index_of", i, r.index_of(p.as_str()));
        t.b("contains", i, r.contains(p.as_str()));
    }
}

const RCL_STRATA: &[&str] = &["empty", "single", "len=k", "len%k=0", "len%k=1", "k=1", "sorted-prefixes", "unsorted", "long-strings", "unicode", "with-empty-strings", "ordinary"];
const RCL_STRATA_SMALL: &[&str] = &["empty", "single", "len%k=0", "sorted-prefixes", "unsorted"];

fn gen_rcl(rng: &mut SmallRng, st: &str, small: bool) -> (usize, Vec<String>, bool) {
    let maxn = if small { 30 } else { 600 };
    let ascii: Vec<char> = "abcdefgh01._-/".chars().collect();
    let uni: Vec<char> = "aé€𝄞zßж中".chars().collect();
    let mut k = [2usize, 3, 4, 8, 16, 32][rng.random_range(0..6)];
    let mut sorted = true;
    let n = match st {
        "empty" => 0,
        "single" => 1,
        "len=k" => k,
        "len%k=0" => k * rng.random_range(1..(maxn / k).max(2)),
        "len%k=1" => k * rng.random_range(1..(maxn / k).max(2)) + 1,
        "k=1" => {
            k = 1;
            rng.random_range(2..maxn)
        }
        "unsorted" => {
            sorted = false;
            rng.random_range(2..maxn)
        }
        _ => rng.random_range(2..maxn),
    };
    let alpha: &[char] = if st == "unicode" { &uni } else { &ascii };
    let mut v: Vec<String> = Vec::with_capacity(n);
    let mut cur = String::new();
    for _ in 0..n {
        let s = match st {
            "sorted-prefixes" | "len%k=0" | "len%k=1" | "len=k" => {
                // random walk: keep a prefix of the previous string, extend it
                let keep = rng.random_range(0..=cur.chars().count());
                let mut s: String = cur.chars().take(keep).collect();
                s.push_str(&rand_string(rng, 12, alpha));
                cur = s.clone();
                s
            }
            "long-strings" => {
                let l = [100usize, 127, 128, 129, 200, 300][rng.random_range(0..6)] + rng.random_range(0..3usize);
                let mut s: String = "p".repeat(rng.random_range(0..4));
                while s.len() < l {
                    s.push(alpha[rng.random_range(0..alpha.len())]);
                }
                s
            }
            "with-empty-strings" => {
                if rng.random_bool(0.2) {
                    String::new()
                } else {
                    rand_string(rng, 6, alpha)
                }
            }
            _ => rand_string(rng, 20, alpha),
        };
        v.push(s);
    }
    if sorted {
        v.sort();
    }
    (k, v, sorted)
}

/// Two lists of the same shape (same k, same string lengths, different contents) are
/// loaded one after the other by ε-copy from the *same* buffer, with queries on the
/// first in between: the second must answer like its own original (nothing keyed by
/// the address of the data may survive from the first).
fn rcl_reload_same_buffer(c: &mut Case, small: bool) {
    let n = if small { 20 } else { c.rng().random_range(2..400usize) };
    let k = [1usize, 2, 3, 4, 8, 16][c.rng().random_range(0..6)];
    let a: Vec<String> = (0..n).map(|i| format!("{}{}", ["alpha", "be", "gam", ""][i % 4], "xy".repeat(c.rng().random_range(0..4usize)) + &format!("{:03}", i % 50))).collect();
    // same lengths, different letters
    let b: Vec<String> = a.iter().map(|s| s.chars().map(|ch| if ch.is_ascii_lowercase() { ch.to_ascii_uppercase() } else { ch }).collect()).collect();
    let build = |v: &[String]| {
        let mut bl = RearCodedListBuilder::new(k);
        for s in v {
            bl.push(s);
        }
        bl.build()
    };
    let (Ok(la), Ok(lb)) = (catch(|| build(&a)), catch(|| build(&b))) else { abandoned(); return };
    let (ba, bb) = (ser_bytes(&la), ser_bytes(&lb));
    c.describe(|| format!("k={} n={} first list {:?}...", k, n, &a[..n.min(8)]));
    if ba.len() != bb.len() {
        return; // the two serializations must occupy the same bytes
    }
    let buf = ABuf::new(&ba, &[]);
    let order: Vec<usize> = {
        let mut v: Vec<usize> = (0..n).collect();
        if c.rng().random_bool(0.5) {
            v.reverse();
        }
        v
    };
    let r = catch(|| {
        let mut diffs: Vec<String> = Vec::new();
        {
            let va = eps_like(&la, buf.bytes());
            for &i in order.iter().take(1 + n / 3) {
                if va.get(i) != a[i] {
                    diffs.push(format!("first list: get({}) = {:?}, original {:?}", i, va.get(i), a[i]));
                }
            }
        }
        // overwrite the same bytes with the second list and load it at the same address
        unsafe { std::ptr::copy_nonoverlapping(bb.as_ptr(), buf.p, bb.len()) };
        let vb = eps_like(&lb, buf.bytes());
        for &i in &order {
            let g = vb.get(i);
            if g != b[i] {
                diffs.push(format!("second list loaded in the same buffer: get({}) = {:?}, its original gives {:?}", i, g, b[i]));
                if diffs.len() > 5 {
                    break;
                }
            }
        }
        let all: Vec<String> = vb.iter().collect();
        if all != b {
            diffs.push("second list loaded in the same buffer: iter() differs from its original".to_string());
        }
        diffs
    });
    c.tick(2 * n as u64);
    match r {
        Ok(d) if d.is_empty() => {}
        Ok(d) => c.fail("deserialize_eps_reload", "mismatch", "a list loaded where another list had been loaded and queried answers differently from its original", &d.join("; ")),
        Err(m) => c.fail("deserialize_eps_reload", "panic", &m, "loading or querying panicked"),
    }
    c.nontrivial();
}

fn rcl_family(ctx: &mut Ctx) {
    for rep in 0..ctx.scale(2, 40, 200) {
        let small = ctx.small;
        let _ = rep;
        ctx.case("RearCodedList", "reload-in-the-same-buffer", "deserialize_eps_reload", |c| rcl_reload_same_buffer(c, small));
    }
    for &st in if ctx.small { RCL_STRATA_SMALL } else { RCL_STRATA } {
        for &mode in modes(ctx) {
            let small = ctx.small;
            ctx.case("RearCodedList", st, mode.op(), |c| {
                let (k, strs, sorted) = gen_rcl(c.rng(), st, small);
                let n = strs.len();
                c.describe(|| format!("k={} sorted={} strings={:?}", k, sorted, &strs[..n.min(100)]));
                let built = catch(|| {
                    let mut b = RearCodedListBuilder::new(k);
                    for s in &strs {
                        b.push(s);
                    }
                    b.build()
                });
                let Ok(orig) = built else { abandoned(); return };
                let idx = sample(c.rng(), n, 700, 100);
                let from: Vec<usize> = if n == 0 { vec![0] } else { vec![0, n / 2, n - 1, n, (n / k) * k, c.rng().random_range(0..=n)] };
                let mut probes: Vec<String> = Vec::new();
                for &i in idx.iter().take(if small { 10 } else { 200 }) {
                    probes.push(strs[i].clone());
                    let mut absent = strs[i].clone();
                    absent.push('~');
                    probes.push(absent);
                    let l = strs[i].chars().count();
                    if l > 0 {
                        probes.push(strs[i].chars().take(l - 1).collect());
                    }
                }
                probes.push(String::new());
                probes.push("zzzzzzzz".into());
                probes.push("!".into());
                let q = RclQ { n, idx, from, probes };
                let what = format!("RearCodedList k={} len={} sorted={} stratum {}", k, n, sorted, st);
                let done = roundtrip!(c, mode, &what, orig, [], |t, x| {
                    t_rcl(t, x, &q);
                });
                if done && n >= 2 && strs.iter().any(|s| *s != strs[0]) {
                    c.nontrivial();
                }
            });
        }
    }
}

// ---------------------------------------------------------------------------
// static functions and filters

fn t_vfunc<T, K, W, D, S, E>(t: &mut Tr, f: &VFunc<T, W, D, S, E>, keys: &[K], sigs: &[S])
where
    T: ?Sized + ToSig<S>,
    K: std::borrow::Borrow<T>,
    W: ZeroCopy + Word + To128,
    D: BitFieldSlice<W>,
    S: Sig,
    E: ShardEdge<S, 3>,
{
    t.u("len", 0, f.len());
    t.b("is_empty", 0, f.is_empty());
    for (i, k) in keys.iter().enumerate() {
        t.w("get", i, f.get(k.borrow()).to128());
    }
    for (i, &s) in sigs.iter().enumerate() {
        t.w("get_by_sig", i, f.get_by_sig(s).to128());
    }
}

fn t_vfilter<T, K, W, D, S, E>(t: &mut Tr, f: &VFilter<W, VFunc<T, W, D, S, E>>, keys: &[K], sigs: &[S])
where
    T: ?Sized + ToSig<S>,
    K: std::borrow::Borrow<T>,
    W: ZeroCopy + Word + To128,
    D: BitFieldSlice<W>,
    S: Sig,
    E: ShardEdge<S, 3>,
    u64: common_traits::CastableInto<W>,
{
    t.u("len", 0, f.len());
    t.b("is_empty", 0, f.is_empty());
    t.u("hash_bits", 0, f.hash_bits() as usize);
    for (i, k) in keys.iter().enumerate() {
        t.b("contains", i, f.contains(k.borrow()));
        t.w("get", i, f.get(k.borrow()).to128());
        t.b("index", i, f[k.borrow()]);
    }
    for (i, &s) in sigs.iter().enumerate() {
        t.b("contains_by_sig", i, f.contains_by_sig(s));
        t.w("get_by_sig", i, f.get_by_sig(s).to128());
    }
}

trait RandSig: Sized {
    fn rand(rng: &mut SmallRng) -> Self;
}
impl RandSig for [u64; 1] {
    fn rand(rng: &mut SmallRng) -> Self {
        [rng.next_u64()]
    }
}
impl RandSig for [u64; 2] {
    fn rand(rng: &mut SmallRng) -> Self {
        [rng.next_u64(), rng.next_u64()]
    }
}

const VF_STRATA: &[&str] = &["n=0", "n=1", "tiny", "n~100", "n~1000", "n~10000"];

fn vf_n(rng: &mut SmallRng, st: &str) -> usize {
    match st {
        "n=0" => 0,
        "n=1" => 1,
        "tiny" => rng.random_range(2..20),
        "n~100" => rng.random_range(98..104),
        "n~1000" => rng.random_range(500..3000),
        "n~10000" => rng.random_range(8000..20000),
        // the default logic (and the full-signature one) use 2 shards from
        // 100 000 keys and 4 from 200 000
        "sharded" => [100_000usize, 100_001, 137_000, 200_003][rng.random_range(0..4)],
        _ => unreachable!(),
    }
}

fn usize_keys(rng: &mut SmallRng, n: usize) -> Vec<usize> {
    let dense = rng.random_bool(0.3);
    let mut k: Vec<usize> = if dense { (0..n).collect() } else { (0..n + n / 8 + 2).map(|_| rng.next_u64() as usize).collect() };
    k.sort_unstable();
    k.dedup();
    // shuffle a bit so that key order is not sorted
    for i in (1..k.len()).rev() {
        let j = rng.random_range(0..=i);
        k.swap(i, j);
    }
    k.truncate(n);
    k
}

fn string_keys(rng: &mut SmallRng, n: usize) -> Vec<String> {
    let salt = rng.next_u32();
    (0..n).map(|i| format!("key-{:x}-{}", salt, i)).collect()
}

/// Queried keys: every key when few, a sample otherwise, plus as many
/// non-keys (a function returns an arbitrary but fixed value on those).
fn probe_keys<K: Clone>(rng: &mut SmallRng, keys: &[K], others: Vec<K>) -> Vec<K> {
    let mut v: Vec<K> = if keys.len() <= 3000 { keys.to_vec() } else { (0..3000).map(|_| keys[rng.random_range(0..keys.len())].clone()).collect() };
    v.extend(others);
    v
}

/// `$kind` = func | filter; `$keys` = usize | string.
macro_rules! vf_variant {
    ($ctx:ident, $name:expr, $strata:expr, func, $keys:ident, $W:ty, $D:ty, $S:ty, $E:ty) => {
        for &st in $strata {
            for &mode in modes(&$ctx) {
                $ctx.case($name, st, mode.op(), |c| {
                    let n = vf_n(c.rng(), st);
                    let keys = vf_variant!(@keys $keys, c, n);
                    let maxv: u128 = [1u128, 2, 255, 1000, <$W>::MAX as u128][c.rng().random_range(0..5)].min(<$W>::MAX as u128);
                    let vals: Vec<$W> = (0..n).map(|_| (c.rng().next_u64() as u128 % (maxv + 1)) as $W).collect();
                    c.describe(|| format!("n={} keys={:?} values={:?}", n, &keys[..n.min(50)], &vals[..n.min(50)]));
                    let built = catch(|| {
                        VBuilder::<$W, $D, $S, $E>::default()
                            .expected_num_keys(n)
                            .try_build_func(FromIntoIterator::from(keys.clone()), FromIntoIterator::from(vals.clone()), dsi_progress_logger::no_logging![])
                    });
                    let Ok(Ok(orig)) = built else { abandoned(); return };
                    let others = vf_variant!(@keys $keys, c, 300);
                    let probes = probe_keys(c.rng(), &keys, others);
                    let sigs: Vec<$S> = (0..500).map(|_| <$S as RandSig>::rand(c.rng())).collect();
                    let what = format!("{} over {} keys, stratum {}", $name, n, st);
                    let done = roundtrip!(c, mode, &what, orig, [], |t, x| {
                        t_vfunc(t, x, &probes, &sigs);
                    });
                    if done && n >= 2 && vals.iter().any(|&v| v != vals[0]) {
                        c.nontrivial();
                    }
                });
            }
        }
    };
    ($ctx:ident, $name:expr, $strata:expr, filter, $keys:ident, $W:ty, $D:ty, $S:ty, $E:ty $(, bits $fb:expr)?) => {
        for &st in $strata {
            for &mode in modes(&$ctx) {
                $ctx.case($name, st, mode.op(), |c| {
                    let n = vf_n(c.rng(), st);
                    let keys = vf_variant!(@keys $keys, c, n);
                    #[allow(unused_mut, unused_assignments)]
                    let mut fbits = <$W>::BITS as usize;
                    $( fbits = $fb(c.rng()); )?
                    c.describe(|| format!("n={} filter_bits={} keys={:?}", n, fbits, &keys[..n.min(50)]));
                    let built = catch(|| {
                        let b = VBuilder::<$W, $D, $S, $E>::default().expected_num_keys(n);
                        vf_variant!(@filter b, keys, fbits $(, $fb)?)
                    });
                    let Ok(Ok(orig)) = built else { abandoned(); return };
                    let others = vf_variant!(@keys $keys, c, 1500);
                    let probes = probe_keys(c.rng(), &keys, others);
                    let sigs: Vec<$S> = (0..500).map(|_| <$S as RandSig>::rand(c.rng())).collect();
                    let what = format!("{} ({} hash bits) over {} keys, stratum {}", $name, fbits, n, st);
                    let done = roundtrip!(c, mode, &what, orig, [], |t, x| {
                        t_vfilter(t, x, &probes, &sigs);
                    });
                    if done && n >= 2 {
                        c.nontrivial();
                    }
                });
            }
        }
    };
    (@keys usize, $c:ident, $n:expr) => { usize_keys($c.rng(), $n) };
    (@keys string, $c:ident, $n:expr) => { string_keys($c.rng(), $n) };
    (@filter $b:ident, $keys:ident, $fbits:ident) => { $b.try_build_filter(FromIntoIterator::from($keys.clone()), dsi_progress_logger::no_logging![]) };
    (@filter $b:ident, $keys:ident, $fbits:ident, $fb:expr) => { $b.try_build_filter(FromIntoIterator::from($keys.clone()), $fbits, dsi_progress_logger::no_logging![]) };
}

fn vf_family(ctx: &mut Ctx) {
    if ctx.small {
        return; // VBuilder cannot run under Miri (thread priorities)
    }
    let all: &[&str] = VF_STRATA;
    let sharded: &[&str] = &["sharded"];
    let some_bits = |rng: &mut SmallRng| -> usize { [1usize, 2, 7, 8, 13, 32, 63, 64][rng.random_range(0..8)] };
    type BFV = BitFieldVec<usize>;
    // functions
    vf_variant!(ctx, "VFunc<usize,Box<[usize]>,FuseLge3Shards>", all, func, usize, usize, Box<[usize]>, [u64; 2], FuseLge3Shards);
    vf_variant!(ctx, "VFunc<usize,BitFieldVec,FuseLge3Shards>", all, func, usize, usize, BFV, [u64; 2], FuseLge3Shards);
    vf_variant!(ctx, "VFunc<usize,Box<[usize]>,FuseLge3NoShards,[u64;2]>", all, func, usize, usize, Box<[usize]>, [u64; 2], FuseLge3NoShards);
    vf_variant!(ctx, "VFunc<usize,BitFieldVec,FuseLge3NoShards,[u64;2]>", all, func, usize, usize, BFV, [u64; 2], FuseLge3NoShards);
    vf_variant!(ctx, "VFunc<usize,Box<[usize]>,FuseLge3NoShards,[u64;1]>", all, func, usize, usize, Box<[usize]>, [u64; 1], FuseLge3NoShards);
    vf_variant!(ctx, "VFunc<usize,BitFieldVec,FuseLge3NoShards,[u64;1]>", all, func, usize, usize, BFV, [u64; 1], FuseLge3NoShards);
    vf_variant!(ctx, "VFunc<usize,Box<[usize]>,FuseLge3FullSigs>", all, func, usize, usize, Box<[usize]>, [u64; 2], FuseLge3FullSigs);
    vf_variant!(ctx, "VFunc<usize,BitFieldVec,FuseLge3FullSigs>", all, func, usize, usize, BFV, [u64; 2], FuseLge3FullSigs);
    vf_variant!(ctx, "VFunc<String,Box<[u32]>,FuseLge3Shards>", all, func, string, u32, Box<[u32]>, [u64; 2], FuseLge3Shards);
    vf_variant!(ctx, "VFunc<String,BitFieldVec<u64>,FuseLge3NoShards,[u64;1]>", all, func, string, u64, BitFieldVec<u64>, [u64; 1], FuseLge3NoShards);
    // filters
    vf_variant!(ctx, "VFilter<u8,Box<[u8]>,FuseLge3Shards>", all, filter, usize, u8, Box<[u8]>, [u64; 2], FuseLge3Shards);
    vf_variant!(ctx, "VFilter<usize,BitFieldVec,FuseLge3Shards>", all, filter, usize, usize, BFV, [u64; 2], FuseLge3Shards, bits some_bits);
    vf_variant!(ctx, "VFilter<u16,Box<[u16]>,FuseLge3NoShards,[u64;2]>", all, filter, usize, u16, Box<[u16]>, [u64; 2], FuseLge3NoShards);
    vf_variant!(ctx, "VFilter<usize,BitFieldVec,FuseLge3NoShards,[u64;2]>", all, filter, usize, usize, BFV, [u64; 2], FuseLge3NoShards, bits some_bits);
    vf_variant!(ctx, "VFilter<u8,Box<[u8]>,FuseLge3NoShards,[u64;1]>", all, filter, usize, u8, Box<[u8]>, [u64; 1], FuseLge3NoShards);
    vf_variant!(ctx, "VFilter<usize,BitFieldVec,FuseLge3NoShards,[u64;1]>", all, filter, usize, usize, BFV, [u64; 1], FuseLge3NoShards, bits some_bits);
    vf_variant!(ctx, "VFilter<u32,Box<[u32]>,FuseLge3FullSigs>", all, filter, usize, u32, Box<[u32]>, [u64; 2], FuseLge3FullSigs);
    vf_variant!(ctx, "VFilter<usize,BitFieldVec,FuseLge3FullSigs>", all, filter, usize, usize, BFV, [u64; 2], FuseLge3FullSigs, bits some_bits);
    vf_variant!(ctx, "VFilter<String,Box<[u8]>,FuseLge3Shards>", all, filter, string, u8, Box<[u8]>, [u64; 2], FuseLge3Shards);
    // several shards: the shard parameters must survive the round trip
    vf_variant!(ctx, "VFunc<usize,BitFieldVec,FuseLge3Shards>", sharded, func, usize, usize, BFV, [u64; 2], FuseLge3Shards);
    vf_variant!(ctx, "VFunc<usize,Box<[usize]>,FuseLge3FullSigs>", sharded, func, usize, usize, Box<[usize]>, [u64; 2], FuseLge3FullSigs);
    vf_variant!(ctx, "VFilter<u8,Box<[u8]>,FuseLge3Shards>", sharded, filter, usize, u8, Box<[u8]>, [u64; 2], FuseLge3Shards);
    vf_variant!(ctx, "VFilter<usize,BitFieldVec,FuseLge3FullSigs>", sharded, filter, usize, usize, BFV, [u64; 2], FuseLge3FullSigs, bits some_bits);
}

fn main() {
    let mut ctx = Ctx::from_args("C15");
    ctx.set_hang_limit(300);
    if ctx.arg("selftest").is_some() {
        SELFTEST.store(true, std::sync::atomic::Ordering::Relaxed);
    }
    // Every round runs every (variant, stratum, mode) once; strata are
    // classes, so each round draws new lengths, contents and queries.
    let rounds = ctx.scale(1, 6, 60);
    for round in 0..rounds {
        bit_family(&mut ctx);
        bfv_family(&mut ctx);
        ef_family(&mut ctx);
        rcl_family(&mut ctx);
        vf_family(&mut ctx);
        if round > 0 && ctx.out_of_time() {
            break;
        }
    }
    let ab = ABANDONED.load(std::sync::atomic::Ordering::Relaxed);
    ctx.note("abandoned_because_original_panicked", &ab.to_string());
    ctx.finish();
}
