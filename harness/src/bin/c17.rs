//! C17 — a failed build reports an error; it never returns a wrong function
//! or hangs (fault enumeration).
//!
//! Oracle: the fault plan. Key and value lenders are `ProbeLender`s that
//! return a uniquely tagged `io::Error` at a planned (pass, position) or from
//! a planned `rewind`, and record every pass (number of `next` calls, items
//! served, how it ended) so that the evidence shows the fault point was
//! reached. Whenever the fault was delivered the build must return `Err` whose
//! chain contains the tag; `Ok` after a delivered fault is a violation (all
//! pairs are checked anyway to show what the returned function does). With a
//! duplicated key and `check_dups(true)` the build must return `Err` within 4
//! passes over the keys. Without `check_dups` nothing is judged about
//! duplicates (never generated). A fault-free or not-reached run that returns
//! `Ok` must map every pair correctly.
use dsi_progress_logger::no_logging;
use rand::rngs::SmallRng;
use rand::Rng;
use std::cell::Cell;
use std::fmt::Debug;
use sux::bits::BitFieldVec;
use sux::func::shard_edge::{FuseLge3FullSigs, FuseLge3NoShards, FuseLge3Shards};
use sux::func::VBuilder;
use suxmon::obs::*;

#[macro_use]
#[path = "common/vb.rs"]
mod vb;
use vb::*;

// ---------------------------------------------------------------------------
// plans

#[derive(Clone, Copy, Debug, PartialEq, Eq)]
enum Pos {
    First,
    Second,
    Middle,
    LastButOne,
    Last,
    /// the call that would have returned `None`
    AtEnd,
    /// every position 0..=len, one build each (small inputs only)
    All,
}

impl Pos {
    fn name(&self) -> &'static str {
        match self {
            Pos::First => "first",
            Pos::Second => "second",
            Pos::Middle => "middle",
            Pos::LastButOne => "last-but-one",
            Pos::Last => "last",
            Pos::AtEnd => "at-end",
            Pos::All => "every-position",
        }
    }
    /// positions in a stream of `len` items
    fn indices(&self, len: usize) -> Vec<usize> {
        match self {
            Pos::First => vec![0],
            Pos::Second => vec![1.min(len)],
            Pos::Middle => vec![len / 2],
            Pos::LastButOne => vec![len.saturating_sub(2)],
            Pos::Last => vec![len.saturating_sub(1)],
            Pos::AtEnd => vec![len],
            Pos::All => (0..=len).collect(),
        }
    }
}

#[derive(Clone, Copy, Debug, PartialEq, Eq)]
enum Where {
    Keys,
    Values,
    Both,
}

impl Where {
    fn name(&self) -> &'static str {
        match self {
            Where::Keys => "keys",
            Where::Values => "values",
            Where::Both => "both",
        }
    }
}

#[derive(Clone, Copy, Debug, PartialEq, Eq)]
enum FaultKind {
    /// no fault at all (duplicates only)
    NoFault,
    /// `next` fails during pass `pass` at the position class
    Item { pass: u32, pos: Pos },
    /// the `nth` rewind fails
    Rewind { nth: u32 },
}

#[derive(Clone, Copy, Debug, PartialEq, Eq)]
enum Retry {
    /// no retry pass is needed (fault in pass 1) or wanted
    None,
    /// one key is duplicated and check_dups(true): passes 2..4 are duplicate retries
    Dup,
    /// builder seeds are screened with fault-free runs until one needs enough passes
    Screened,
}

#[derive(Clone, Copy, Debug, PartialEq, Eq)]
enum DupShape {
    Adjacent,
    FirstLast,
    FarApart,
    /// m copies spread over the whole input
    Multi(usize),
    /// m adjacent copies at the end
    RunAtEnd(usize),
    /// one build per j in from..to: the n keys followed by key #j again. Over a whole sweep 0..n the
    /// duplicated pair takes every rank of the signature-sorted shard, in every attempt
    RankSweep { from: usize, to: usize },
}

impl DupShape {
    fn name(&self) -> String {
        match self {
            DupShape::Adjacent => "adjacent".into(),
            DupShape::FirstLast => "first+last".into(),
            DupShape::FarApart => "far-apart".into(),
            DupShape::Multi(m) => format!("x{}-spread", m),
            DupShape::RunAtEnd(m) => format!("x{}-run-at-end", m),
            DupShape::RankSweep { .. } => "rank-sweep".into(),
        }
    }
    fn extra(&self) -> usize {
        match *self {
            DupShape::Multi(m) | DupShape::RunAtEnd(m) => m - 1,
            DupShape::RankSweep { .. } => 1,
            _ => 1,
        }
    }
    /// The key sequence as indices into the n distinct keys.
    fn order(&self, n: usize) -> Vec<u32> {
        let mut o: Vec<u32> = (0..n as u32).collect();
        match *self {
            DupShape::Adjacent => {
                let i = n / 3;
                o.insert(i + 1, i as u32);
            }
            DupShape::FirstLast => o.push(0),
            DupShape::FarApart => {
                let i = n / 4;
                o.insert((3 * n / 4).max(i + 1), i as u32);
            }
            DupShape::Multi(m) => {
                let k = (n / 2) as u32;
                for j in 1..m {
                    let at = (j * o.len() / m).min(o.len());
                    o.insert(at, k);
                }
            }
            DupShape::RunAtEnd(m) => {
                for _ in 1..m {
                    o.push((n - 1) as u32);
                }
            }
            // served through ProbeLender::with_tail, one j at a time (the sequence shown is that of the first j)
            DupShape::RankSweep { from, .. } => o.push(from as u32),
        }
        o
    }
}

#[derive(Clone, Debug)]
struct Scn {
    n: usize,
    kk: usize,
    salt: u64,
    cfg: Cfg,
    wh: Where,
    fault: FaultKind,
    retry: Retry,
    dup: Option<DupShape>,
    /// passes over the keys allowed before `Err` in a duplicate run
    max_dup_passes: u32,
    group: &'static str,
}

impl Scn {
    fn stratum(&self) -> String {
        let f = match self.fault {
            FaultKind::NoFault => "no-fault".to_string(),
            FaultKind::Item { pass, pos } => format!("{}-next-pass{}-{}", self.wh.name(), pass, pos.name()),
            FaultKind::Rewind { nth } => format!("{}-rewind{}", self.wh.name(), nth),
        };
        let r = match (self.retry, self.dup) {
            (_, Some(d)) => format!("dup:{}", d.name()),
            (Retry::Screened, _) => "screened-seed".to_string(),
            _ => "plain".to_string(),
        };
        format!("{}|{}|{}|{}|{}", self.group, f, r, n_class(self.n), self.cfg.store())
    }
    fn val(&self, pos: usize, bits: u32) -> u64 {
        let m = if bits >= 64 { u64::MAX } else { (1u64 << bits) - 1 };
        bij64(pos as u64, self.salt ^ 0x7777) & m
    }
}

// ---------------------------------------------------------------------------
// key storages (as in c07, reduced)

struct KUsize {
    kind: IntKeys,
    salt: u64,
    n: usize,
}
impl KUsize {
    fn make(s: &Scn) -> Self {
        KUsize { kind: IntKeys::ALL[s.kk % 4], salt: s.salt, n: s.n }
    }
    fn src(&self) -> FnSrc<usize, impl Fn(usize) -> usize + '_> {
        FnSrc::new(self.n, move |i| self.kind.key(i, self.salt) as usize)
    }
    fn q(&self, i: usize) -> usize {
        self.kind.key(i, self.salt) as usize
    }
    fn show(&self, i: usize) -> String {
        format!("{}usize", self.q(i))
    }
    fn kind(&self) -> String {
        format!("usize:{}", self.kind.name())
    }
}
struct KU64 {
    kind: IntKeys,
    salt: u64,
    n: usize,
}
impl KU64 {
    fn make(s: &Scn) -> Self {
        KU64 { kind: IntKeys::ALL[s.kk % 4], salt: s.salt, n: s.n }
    }
    fn src(&self) -> FnSrc<u64, impl Fn(usize) -> u64 + '_> {
        FnSrc::new(self.n, move |i| self.kind.key(i, self.salt))
    }
    fn q(&self, i: usize) -> u64 {
        self.kind.key(i, self.salt)
    }
    fn show(&self, i: usize) -> String {
        format!("{}u64", self.q(i))
    }
    fn kind(&self) -> String {
        format!("u64:{}", self.kind.name())
    }
}
struct KStr {
    kind: StrKeys,
    v: Vec<String>,
}
impl KStr {
    fn make(s: &Scn) -> Self {
        let kind = StrKeys::ALL[s.kk % 4];
        KStr { kind, v: (0..s.n).map(|i| kind.key(i)).collect() }
    }
    fn src(&self) -> StrSrc<'_> {
        StrSrc(&self.v)
    }
    fn q(&self, i: usize) -> &str {
        self.v[i].as_str()
    }
    fn show(&self, i: usize) -> String {
        format!("{:?}", self.v[i])
    }
    fn kind(&self) -> String {
        format!("str:{}", self.kind.name())
    }
}
struct KString {
    kind: StrKeys,
    v: Vec<String>,
}
impl KString {
    fn make(s: &Scn) -> Self {
        let kind = StrKeys::ALL[s.kk % 4];
        KString { kind, v: (0..s.n).map(|i| kind.key(i)).collect() }
    }
    fn src(&self) -> SliceSrc<'_, String> {
        SliceSrc(&self.v)
    }
    fn q(&self, i: usize) -> &String {
        &self.v[i]
    }
    fn show(&self, i: usize) -> String {
        format!("{:?}", self.v[i])
    }
    fn kind(&self) -> String {
        format!("String:{}", self.kind.name())
    }
}

// ---------------------------------------------------------------------------
// the monitor

thread_local! {
    static BUILDS: Cell<u64> = const { Cell::new(0) };
    static FAULTS_DELIVERED: Cell<u64> = const { Cell::new(0) };
    static FAULTS_NOT_REACHED: Cell<u64> = const { Cell::new(0) };
    static DUP_ERRS: Cell<u64> = const { Cell::new(0) };
    static OK_CHECKED: Cell<u64> = const { Cell::new(0) };
    static SCREEN_MISSES: Cell<u64> = const { Cell::new(0) };
    static ERR_WITHOUT_CAUSE: Cell<u64> = const { Cell::new(0) };
}
fn bump(k: &'static std::thread::LocalKey<Cell<u64>>, by: u64) {
    k.with(|c| c.set(c.get() + by));
}

/// One build with concrete faults. `build(kf, vf, seed, max_rewinds, kst, vst)`.
struct Outcome<F> {
    res: Result<anyhow::Result<F>, String>,
    kst: Stats,
    vst: Stats,
    secs: f64,
}

fn progress(o_k: &Stats, o_v: &Stats, has_values: bool, secs: f64) -> String {
    if has_values {
        format!("key lender [{}] value lender [{}] {:.3}s", o_k.trace_string(), o_v.trace_string(), secs)
    } else {
        format!("key lender [{}] {:.3}s", o_k.trace_string(), secs)
    }
}

#[allow(clippy::too_many_arguments)]
fn drive<F, O: PartialEq + Debug>(
    c: &mut Case,
    s: &Scn,
    op: &'static str,
    has_values: bool,
    keykind: String,
    order: &Option<Vec<u32>>,
    build: impl Fn(Fault, Fault, u64, u32, Option<u32>, &Stats, &Stats) -> anyhow::Result<F>,
    get: impl Fn(&F, usize) -> O,
    want: impl Fn(usize) -> O,
    len: impl Fn(&F) -> usize,
    show: impl Fn(usize) -> String,
) {
    let n = s.n;
    let seq_len = order.as_ref().map(|o| o.len()).unwrap_or(n);
    let tag = c.seed;
    let base = format!(
        "{} on n={} distinct keys ({}; salt {}){} builder: {}",
        op,
        n,
        keykind,
        s.salt,
        match (&s.dup, order) {
            (Some(d), Some(o)) => format!(
                ", key sequence of {} items with a duplicated key ({}): positions {:?} all hold key #{}",
                o.len(),
                d.name(),
                dup_positions(o),
                dup_key(o)
            ),
            (Some(DupShape::RankSweep { from, to }), None) => format!(
                ", key sequence = the {} keys followed by key #j once more, one build for every j in {}..{}",
                n,
                from,
                (*to).min(n)
            ),
            _ => String::new(),
        },
        s.cfg.show(n)
    );
    c.describe(|| format!("{}; fault plan: {:?} in {} lender(s), retry passes forced by {:?}; tag {}", base, s.fault, s.wh.name(), s.retry, fault_tag(tag)));
    let dups = s.dup.is_some();
    let max_rewinds = if dups { s.max_dup_passes + 6 } else { effective_limit(n) };
    let tail = Cell::new(None::<u32>);
    let run = |kf: Fault, vf: Fault, seed: u64| -> Outcome<F> {
        let kst = Stats::new();
        let vst = Stats::new();
        let t0 = std::time::Instant::now();
        let res = catch(|| build(kf, vf, seed, max_rewinds, tail.get(), &kst, &vst));
        bump(&BUILDS, 1);
        Outcome { res, kst, vst, secs: t0.elapsed().as_secs_f64() }
    };
    // all pairs of an Ok result
    let check_ok = |c: &mut Case, f: &F, what: &str, ctxs: &str| -> u64 {
        let mut bad = 0u64;
        let mut first = String::new();
        let len_bad = len(f) != n;
        if len_bad {
            first.push_str(&format!(" len() = {} for {} keys;", len(f), n));
        }
        for i in 0..n {
            let got = get(f, i);
            let w = want(i);
            if got != w {
                if bad < 3 {
                    first.push_str(&format!(" key {} -> {:?}, expected {:?};", show(i), got, w));
                }
                bad += 1;
            }
        }
        c.tick(n as u64 + 1);
        if (bad > 0 || len_bad) && !what.is_empty() {
            c.fail(op, what, "", &format!("Ok(f) with {} wrong answers:{} {}", bad, first, ctxs));
        }
        bad
    };

    // 1. the builder seed: screened so that the fault-free run needs enough passes
    let need_passes = match s.fault {
        FaultKind::Item { pass, .. } => pass,
        FaultKind::Rewind { nth } => nth + 1,
        FaultKind::NoFault => 1,
    };
    let mut seed = s.cfg.seed;
    if s.retry == Retry::Screened {
        let mut found = false;
        for t in 0..60u64 {
            let sd = s.cfg.seed.wrapping_add(t);
            let o = run(Fault::None, Fault::None, sd);
            let ctxs = format!("(fault-free screening run, builder seed {}) {}; {}", sd, base, progress(&o.kst, &o.vst, has_values, o.secs));
            match &o.res {
                Err(p) => {
                    c.fail(op, "panic", p, &format!("panic in a fault-free run: {} {}", p, ctxs));
                    return;
                }
                Ok(Err(e)) => {
                    if o.kst.noprog.get() || o.vst.noprog.get() {
                        if !degraded() {
                            NOPROG_SEEN.store(true, std::sync::atomic::Ordering::Relaxed);
                            c.fail(op, "no-progress", "the build does not terminate: attempt bound exceeded", &format!("more than {} rewinds; {}", max_rewinds, ctxs));
                        }
                    } else {
                        // not promised by C17 (C07 judges it); counted
                        bump(&ERR_WITHOUT_CAUSE, 1);
                        let _ = e;
                    }
                    return;
                }
                Ok(Ok(f)) => {
                    check_ok(c, f, "mismatch", &ctxs);
                    bump(&OK_CHECKED, 1);
                    if o.kst.passes() >= need_passes {
                        seed = sd;
                        found = true;
                        break;
                    }
                }
            }
        }
        if !found {
            bump(&SCREEN_MISSES, 1);
            return;
        }
    }

    // 2. the faulty runs
    let positions: Vec<Option<usize>> = match (s.fault, s.dup) {
        (FaultKind::Item { pos, .. }, _) => pos.indices(seq_len).into_iter().map(Some).collect(),
        // duplicate-rank sweep: "position" = index of the key that is appended once more
        (FaultKind::NoFault, Some(DupShape::RankSweep { from, to })) => (from..to.min(n)).map(Some).collect(),
        _ => vec![None],
    };
    let sweep = matches!(s.dup, Some(DupShape::RankSweep { .. }));
    let mut delivered = 0u64;
    let mut first_trace = String::new();
    for p in positions {
        if sweep {
            tail.set(p.map(|j| j as u32));
        }
        let mk = |lender_len: usize, salt: usize| -> Fault {
            match s.fault {
                FaultKind::NoFault => Fault::None,
                FaultKind::Item { pass, .. } => Fault::Item { pass, idx: (p.unwrap() + salt).min(lender_len) },
                FaultKind::Rewind { nth } => Fault::Rewind { nth },
            }
        };
        // with "both", the value lender fails one position later than the key lender
        let kf = if s.wh != Where::Values { mk(seq_len, 0) } else { Fault::None };
        let vf = if s.wh != Where::Keys && has_values { mk(seq_len, if s.wh == Where::Both { 1 } else { 0 }) } else { Fault::None };
        let o = run(kf, vf, seed);
        let fired_k = o.kst.fired.get();
        let fired_v = o.vst.fired.get();
        let fired = fired_k.is_some() || fired_v.is_some();
        let ctxs = format!(
            "{}faults: keys {:?} values {:?} (delivered: keys {:?} values {:?}; lender calls after delivery: {}), builder seed {}; {}; {}",
            if sweep { format!("key sequence = the {} keys followed by key #{} ({}) again; ", n, p.unwrap(), show(p.unwrap())) } else { String::new() },
            kf,
            vf,
            fired_k,
            fired_v,
            o.kst.calls_after_fault.get() + o.vst.calls_after_fault.get(),
            seed,
            base,
            progress(&o.kst, &o.vst, has_values, o.secs)
        );
        c.tick(1);
        if first_trace.is_empty() {
            first_trace = format!(
                "first run of the plan: keys {:?} values {:?}, delivered at (pass, position or rewind number): keys {:?} values {:?}; result {}; {}",
                kf,
                vf,
                fired_k,
                fired_v,
                match &o.res {
                    Err(_) => "panic".to_string(),
                    Ok(Ok(_)) => "Ok".to_string(),
                    Ok(Err(e)) => format!("Err({:#})", e),
                },
                progress(&o.kst, &o.vst, has_values, o.secs)
            );
        }
        if fired {
            delivered += 1;
            bump(&FAULTS_DELIVERED, 1);
        } else if s.fault != FaultKind::NoFault {
            bump(&FAULTS_NOT_REACHED, 1);
        }
        match &o.res {
            Err(pm) => {
                c.fail(op, "panic", pm, &format!("panic: {}; {}", pm, ctxs));
            }
            Ok(Ok(f)) => {
                if fired {
                    let bad = check_ok(c, f, "", "");
                    c.fail(
                        op,
                        "ok-after-fault",
                        "Ok returned although the lender reported an I/O error",
                        &format!("the injected error {} was delivered but the build returned Ok (the returned function answers {} of {} supplied keys wrongly); {}", fault_tag(tag), bad, n, ctxs),
                    );
                } else if dups {
                    let bad = check_ok(c, f, "", "");
                    c.fail(
                        op,
                        "ok-on-duplicates",
                        "Ok returned for a key sequence with a duplicate although check_dups(true)",
                        &format!("check_dups(true) and a duplicated key, but the build returned Ok after {} passes ({} wrong answers on the distinct keys); {}", o.kst.passes(), bad, ctxs),
                    );
                } else {
                    check_ok(c, f, "mismatch", &ctxs);
                    bump(&OK_CHECKED, 1);
                }
            }
            Ok(Err(e)) => {
                let es = format!("{:#}", e);
                if o.kst.noprog.get() || o.vst.noprog.get() {
                    if dups {
                        c.fail(
                            op,
                            "no-progress",
                            "duplicate keys with check_dups: still retrying after the allowed passes",
                            &format!("the build was still rewinding after {} passes (allowed before Err: {}); {}", o.kst.passes(), s.max_dup_passes, ctxs),
                        );
                    } else if !degraded() {
                        NOPROG_SEEN.store(true, std::sync::atomic::Ordering::Relaxed);
                        c.fail(op, "no-progress", "the build does not terminate: attempt bound exceeded", &format!("more than {} rewinds; {}", max_rewinds, ctxs));
                    }
                } else if fired {
                    if !err_contains(e, &fault_tag(tag)) {
                        c.fail(
                            op,
                            "wrong-error",
                            "the returned error is not the injected one",
                            &format!("the injected error {} was delivered but the build returned a different error: {}; {}", fault_tag(tag), es, ctxs),
                        );
                    }
                } else if dups {
                    bump(&DUP_ERRS, 1);
                    let passes = o.kst.passes();
                    c.check(op, passes <= s.max_dup_passes, || {
                        format!("Err({}) only after {} passes over the keys (allowed: {}); {}", es, passes, s.max_dup_passes, ctxs)
                    });
                } else {
                    bump(&ERR_WITHOUT_CAUSE, 1);
                }
            }
        }
    }
    c.describe(|| {
        format!(
            "{}; fault plan: {:?} in {} lender(s), retry passes forced by {:?}; tag {}; builder seed used {}; {} of the planned fault points delivered; {}",
            base,
            s.fault,
            s.wh.name(),
            s.retry,
            fault_tag(tag),
            seed,
            delivered,
            first_trace
        )
    });
    // non-degenerate: at least one fault point was really reached, or a duplicate was refused
    if delivered > 0 || (s.fault == FaultKind::NoFault && dups) {
        c.nontrivial();
    }
}

fn dup_key(o: &[u32]) -> u32 {
    let mut seen = std::collections::HashSet::new();
    for &x in o {
        if !seen.insert(x) {
            return x;
        }
    }
    u32::MAX
}
fn dup_positions(o: &[u32]) -> Vec<usize> {
    let k = dup_key(o);
    let v: Vec<usize> = o.iter().enumerate().filter(|(_, &x)| x == k).map(|(i, _)| i).collect();
    if v.len() > 12 {
        v[..12].to_vec()
    } else {
        v
    }
}

macro_rules! backend {
    (bfv, $W:ty) => { BitFieldVec<$W> };
    (boxed, $W:ty) => { Box<[$W]> };
}

macro_rules! func_variant {
    ($fname:ident, $W:ty, $B:ident, $S:ty, $E:ty, $K:ident) => {
        fn $fname(c: &mut Case, s: &Scn) {
            let keys = $K::make(s);
            let sweep = matches!(s.dup, Some(DupShape::RankSweep { .. }));
            let order = if sweep { None } else { s.dup.map(|d| d.order(s.n)) };
            let seq_len = if sweep { s.n + 1 } else { order.as_ref().map(|o| o.len()).unwrap_or(s.n) };
            // values by position in the sequence; the oracle maps key index -> value of its first position
            let vals: Vec<$W> = (0..seq_len).map(|p| s.val(p, <$W>::BITS) as $W).collect();
            let tag = c.seed;
            drive(
                c,
                s,
                "try_build_func",
                true,
                keys.kind(),
                &order,
                |kf, vf, seed, maxr, tail, kst, vst| {
                    let mut kl = ProbeLender::new(keys.src(), kst).with_fault(kf, tag);
                    if let Some(o) = order.as_ref() {
                        kl = kl.with_order(o);
                    }
                    let kl = kl.with_tail(tail).with_max_rewinds(maxr);
                    let vl = ProbeLender::new(SliceSrc(&vals[..]), vst).with_fault(vf, tag).with_max_rewinds(maxr);
                    let mut cfg = s.cfg.clone();
                    cfg.seed = seed;
                    vb_configure!(VBuilder::<$W, backend!($B, $W), $S, $E>::default(), &cfg, s.n).try_build_func(kl, vl, no_logging![])
                },
                |f, i| f.get(keys.q(i)),
                |i| vals[i],
                |f| f.len(),
                |i| keys.show(i),
            );
        }
    };
}

macro_rules! filter_variant {
    ($fname:ident, $W:ty, boxed, $S:ty, $E:ty, $K:ident) => {
        filter_variant!(@gen $fname, $W, Box<[$W]>, $S, $E, $K, ());
    };
    ($fname:ident, $W:ty, bfv($bits:expr), $S:ty, $E:ty, $K:ident) => {
        filter_variant!(@gen $fname, $W, BitFieldVec<$W>, $S, $E, $K, ($bits,));
    };
    (@gen $fname:ident, $W:ty, $D:ty, $S:ty, $E:ty, $K:ident, ($($bits:expr,)?)) => {
        fn $fname(c: &mut Case, s: &Scn) {
            let keys = $K::make(s);
            let sweep = matches!(s.dup, Some(DupShape::RankSweep { .. }));
            let order = if sweep { None } else { s.dup.map(|d| d.order(s.n)) };
            let tag = c.seed;
            drive(
                c,
                s,
                "try_build_filter",
                false,
                keys.kind(),
                &order,
                |kf, _vf, seed, maxr, tail, kst, _vst| {
                    let mut kl = ProbeLender::new(keys.src(), kst).with_fault(kf, tag);
                    if let Some(o) = order.as_ref() {
                        kl = kl.with_order(o);
                    }
                    let kl = kl.with_tail(tail).with_max_rewinds(maxr);
                    let mut cfg = s.cfg.clone();
                    cfg.seed = seed;
                    vb_configure!(VBuilder::<$W, $D, $S, $E>::default(), &cfg, s.n).try_build_filter(kl, $($bits,)? no_logging![])
                },
                |f, i| f.contains(keys.q(i)),
                |_i| true,
                |f| f.len(),
                |i| keys.show(i),
            );
        }
    };
}

type S2 = [u64; 2];
type S1 = [u64; 1];

func_variant!(f_usize_bfv_shards_usize, usize, bfv, S2, FuseLge3Shards, KUsize);
func_variant!(f_u64_box_noshards64_str, u64, boxed, S1, FuseLge3NoShards, KStr);
func_variant!(f_u16_box_noshards128_string, u16, boxed, S2, FuseLge3NoShards, KString);
func_variant!(f_u32_bfv_fullsigs_u64, u32, bfv, S2, FuseLge3FullSigs, KU64);
filter_variant!(l_u8_box_shards_usize, u8, boxed, S2, FuseLge3Shards, KUsize);
filter_variant!(l_u16_bfv10_noshards64_str, u16, bfv(10), S1, FuseLge3NoShards, KStr);
filter_variant!(l_u64_bfv40_fullsigs_u64, u64, bfv(40), S2, FuseLge3FullSigs, KU64);

struct Variant {
    name: &'static str,
    run: fn(&mut Case, &Scn),
    func: bool,
    /// sharded logic: more than one shard from 100 000 keys on
    sharded: bool,
    int_keys: bool,
}

const VARIANTS: &[Variant] = &[
    Variant { name: "func:usize/BitFieldVec/sig128/FuseLge3Shards/key=usize", run: f_usize_bfv_shards_usize, func: true, sharded: true, int_keys: true },
    Variant { name: "func:u64/Box/sig64/FuseLge3NoShards/key=str", run: f_u64_box_noshards64_str, func: true, sharded: false, int_keys: false },
    Variant { name: "func:u16/Box/sig128/FuseLge3NoShards/key=String", run: f_u16_box_noshards128_string, func: true, sharded: false, int_keys: false },
    Variant { name: "func:u32/BitFieldVec/sig128/FuseLge3FullSigs/key=u64", run: f_u32_bfv_fullsigs_u64, func: true, sharded: true, int_keys: true },
    Variant { name: "filter:u8/Box/sig128/FuseLge3Shards/key=usize", run: l_u8_box_shards_usize, func: false, sharded: true, int_keys: true },
    Variant { name: "filter:u16/BitFieldVec(b=10)/sig64/FuseLge3NoShards/key=str", run: l_u16_bfv10_noshards64_str, func: false, sharded: false, int_keys: false },
    Variant { name: "filter:u64/BitFieldVec(b=40)/sig128/FuseLge3FullSigs/key=u64", run: l_u64_bfv40_fullsigs_u64, func: false, sharded: true, int_keys: true },
];

fn pick<T: Copy>(r: &mut SmallRng, xs: &[T]) -> T {
    xs[r.random_range(0..xs.len())]
}

fn base_cfg(r: &mut SmallRng, offline: bool, check_dups: bool) -> Cfg {
    Cfg {
        hint: pick(r, &[Hint::Absent, Hint::Exact, Hint::Tenth, Hint::Double]),
        threads: pick(r, &[None, Some(1), Some(3)]),
        offline,
        low_mem: pick(r, &[None, Some(false), Some(true)]),
        seed: r.random::<u64>() >> 8,
        log2_buckets: if offline { pick(r, &[Some(0), Some(2), Some(4)]) } else { pick(r, &[None, Some(0), Some(4)]) },
        eps: None,
        check_dups,
    }
}


// ---------------------------------------------------------------- the crate's own line lenders over a source that cannot seek

/// A readable source whose every seek fails (a pipe, a FIFO, stdin).
struct NoSeek<R>(R);
impl<R: std::io::Read> std::io::Read for NoSeek<R> {
    fn read(&mut self, buf: &mut [u8]) -> std::io::Result<usize> {
        self.0.read(buf)
    }
}
impl<R> std::io::Seek for NoSeek<R> {
    fn seek(&mut self, _pos: std::io::SeekFrom) -> std::io::Result<u64> {
        Err(std::io::Error::new(std::io::ErrorKind::Unsupported, "suxmon: this source cannot seek"))
    }
}

/// "cannot be rewound": the keys come from sux's LineLender / GzipLineLender /
/// ZstdLineLender over a source whose seek fails, and a duplicated key under
/// check_dups forces a second pass. The build must return an error, never Ok.
fn unseekable_case(c: &mut Case, fmt: usize, filter: bool, offline: bool, n: usize) {
    use std::io::{BufReader, Cursor, Write};
    use sux::utils::{FromIntoIterator, GzipLineLender, LineLender, ZstdLineLender};
    let tag: u32 = c.rng().random();
    let mut text = String::new();
    for i in 0..n {
        text.push_str(&format!("key-{:08x}-{}\n", tag, i));
    }
    let dup = c.rng().random_range(0..n);
    text.push_str(&format!("key-{:08x}-{}\n", tag, dup));
    let bytes: Vec<u8> = match fmt {
        0 => text.into_bytes(),
        1 => zstd::encode_all(text.as_bytes(), 3).expect("zstd"),
        _ => {
            let mut e = flate2::write::GzEncoder::new(Vec::new(), flate2::Compression::default());
            e.write_all(text.as_bytes()).unwrap();
            e.finish().unwrap()
        }
    };
    let what = format!("{} keys + key #{} repeated, {} line lender over a source whose seek fails, check_dups(true), {} {}", n, dup, ["plain", "zstd", "gzip"][fmt], if offline { "offline" } else { "online" }, if filter { "filter" } else { "function" });
    c.describe(|| what.clone());
    let seed: u64 = c.rng().random();
    macro_rules! go {
        ($l:expr) => {{
            if filter {
                VBuilder::<u8, Box<[u8]>>::default().seed(seed).offline(offline).check_dups(true).try_build_filter($l, no_logging![]).map(|f| f.len())
            } else {
                VBuilder::<usize, BitFieldVec<usize>>::default().seed(seed).offline(offline).check_dups(true).try_build_func($l, FromIntoIterator::from(0_usize..), no_logging![]).map(|f| f.len())
            }
        }};
    }
    let r: Result<anyhow::Result<usize>, String> = match fmt {
        0 => catch(|| go!(LineLender::new(BufReader::new(NoSeek(Cursor::new(bytes.clone())))))),
        1 => catch(|| {
            let l = ZstdLineLender::new(NoSeek(Cursor::new(bytes.clone())))?;
            go!(l)
        }),
        _ => catch(|| {
            let l = GzipLineLender::new(NoSeek(Cursor::new(bytes.clone())))?;
            go!(l)
        }),
    };
    c.tick(1);
    match r {
        Ok(Ok(len)) => c.fail(
            if filter { "try_build_filter" } else { "try_build_func" },
            "ok-after-failed-rewind",
            "Ok returned although the key source could not be rewound",
            &format!("the build returned Ok (len() = {}) for {}: the duplicate makes the first attempt fail and the keys cannot be replayed, so an error must be returned", len, what),
        ),
        Ok(Err(_)) => {}
        Err(m) => c.fail(if filter { "try_build_filter" } else { "try_build_func" }, "panic", &m, &format!("the build panicked for {}", what)),
    }
    c.nontrivial();
    c.set_cell(format!("unseekable|{}|{}|{}|n{}", ["plain", "zstd", "gzip"][fmt], if filter { "filter" } else { "func" }, if offline { "offline" } else { "online" }, n));
}


// ---------------------------------------------------------------- the crate's own line lenders over a reader that fails

/// A seekable in-memory source that returns an injected `io::Error` of a given
/// kind from `read` once `at` bytes of pass `pass` have been read (a pass
/// starts at every seek to offset 0).
struct FaultyRead {
    data: Vec<u8>,
    pos: usize,
    pass_no: u32,
    fail_pass: u32,
    fail_at: usize,
    kind: std::io::ErrorKind,
    delivered: std::rc::Rc<Cell<u32>>,
}
impl std::io::Read for FaultyRead {
    fn read(&mut self, buf: &mut [u8]) -> std::io::Result<usize> {
        if self.pass_no == self.fail_pass && self.pos >= self.fail_at {
            self.delivered.set(self.delivered.get() + 1);
            return Err(std::io::Error::new(self.kind, "suxmon-injected-read-fault"));
        }
        let mut n = buf.len().min(self.data.len() - self.pos);
        if self.pass_no == self.fail_pass {
            n = n.min(self.fail_at - self.pos);
        }
        buf[..n].copy_from_slice(&self.data[self.pos..self.pos + n]);
        self.pos += n;
        Ok(n)
    }
}
impl std::io::Seek for FaultyRead {
    fn seek(&mut self, p: std::io::SeekFrom) -> std::io::Result<u64> {
        match p {
            std::io::SeekFrom::Start(0) => {
                self.pos = 0;
                self.pass_no += 1;
                Ok(0)
            }
            std::io::SeekFrom::Current(0) => Ok(self.pos as u64),
            std::io::SeekFrom::Start(x) => {
                self.pos = (x as usize).min(self.data.len());
                Ok(self.pos as u64)
            }
            _ => Err(std::io::Error::new(std::io::ErrorKind::Unsupported, "suxmon: only absolute seeks")),
        }
    }
}

const READ_FAULT_KINDS: [(std::io::ErrorKind, &str); 6] = [
    (std::io::ErrorKind::UnexpectedEof, "UnexpectedEof"),
    (std::io::ErrorKind::Other, "Other"),
    (std::io::ErrorKind::InvalidData, "InvalidData"),
    (std::io::ErrorKind::TimedOut, "TimedOut"),
    (std::io::ErrorKind::BrokenPipe, "BrokenPipe"),
    (std::io::ErrorKind::PermissionDenied, "PermissionDenied"),
];

/// The keys come from sux's LineLender / ZstdLineLender / GzipLineLender over a
/// reader that reports an I/O error at some byte offset of some pass (retry
/// passes are forced by a duplicated key under check_dups), or over a stream
/// truncated in the middle: the build must return an error, never Ok.
fn faulty_reader_case(c: &mut Case, fmt: usize, kind_i: usize, pass: u32, frac: usize, filter: bool, truncate: bool, n: usize) {
    use std::io::{BufReader, Cursor, Write};
    use sux::utils::{FromIntoIterator, GzipLineLender, LineLender, ZstdLineLender};
    let tag: u32 = c.rng().random();
    let mut text = String::new();
    for i in 0..n {
        text.push_str(&format!("key-{:08x}-{}\n", tag, i));
    }
    if pass > 0 {
        // a duplicated key: the first attempts fail and further passes are needed
        let dup = c.rng().random_range(0..n);
        text.push_str(&format!("key-{:08x}-{}\n", tag, dup));
    }
    let mut bytes: Vec<u8> = match fmt {
        0 => text.into_bytes(),
        1 => zstd::encode_all(text.as_bytes(), 3).expect("zstd"),
        _ => {
            let mut e = flate2::write::GzEncoder::new(Vec::new(), flate2::Compression::default());
            e.write_all(text.as_bytes()).unwrap();
            e.finish().unwrap()
        }
    };
    let at = (bytes.len() * frac / 8).min(bytes.len().saturating_sub(1));
    let (kind, kname) = READ_FAULT_KINDS[kind_i];
    let delivered = std::rc::Rc::new(Cell::new(0u32));
    let what = if truncate {
        format!("{} keys, {} stream truncated after {} of {} bytes", n, ["plain", "zstd", "gzip"][fmt], at, bytes.len())
    } else {
        format!("{} keys{}, {} line lender over a reader failing with io::ErrorKind::{} after {} of {} bytes of pass {}, check_dups({}), {}", n, if pass > 0 { " + one repeated" } else { "" }, ["plain", "zstd", "gzip"][fmt], kname, at, bytes.len(), pass + 1, pass > 0, if filter { "filter" } else { "function" })
    };
    c.describe(|| what.clone());
    if truncate {
        bytes.truncate(at);
    }
    let seed: u64 = c.rng().random();
    let src = || FaultyRead { data: bytes.clone(), pos: 0, pass_no: 0, fail_pass: if truncate { u32::MAX } else { pass }, fail_at: at, kind, delivered: delivered.clone() };
    macro_rules! go {
        ($l:expr) => {{
            if filter {
                VBuilder::<u8, Box<[u8]>>::default().seed(seed).check_dups(pass > 0).try_build_filter($l, no_logging![]).map(|f| f.len())
            } else {
                VBuilder::<usize, BitFieldVec<usize>>::default().seed(seed).check_dups(pass > 0).try_build_func($l, FromIntoIterator::from(0_usize..), no_logging![]).map(|f| f.len())
            }
        }};
    }
    let r: Result<anyhow::Result<usize>, String> = match fmt {
        0 => catch(|| go!(LineLender::new(BufReader::with_capacity(512, src())))),
        1 => catch(|| {
            let l = ZstdLineLender::new(src())?;
            go!(l)
        }),
        _ => catch(|| {
            let l = GzipLineLender::new(src())?;
            go!(l)
        }),
    };
    c.tick(1);
    let reached = truncate || delivered.get() > 0;
    if !reached {
        // the planned fault point was never reached (e.g. an earlier pass already ended the
        // build): the fault clause has nothing to judge, but a repeated key under
        // check_dups can never end in Ok (e.g. a function over the keys of an empty retry pass)
        if pass > 0 {
            match r {
                Ok(Ok(len)) => c.fail(
                    if filter { "try_build_filter" } else { "try_build_func" },
                    "ok-with-duplicate",
                    "Ok returned although a key is repeated and check_dups is set",
                    &format!("the build returned Ok (len() = {}) for {} (the fault point was never reached)", len, what),
                ),
                Ok(Err(_)) => {}
                Err(m) => c.fail(if filter { "try_build_filter" } else { "try_build_func" }, "panic", &m, &format!("the build panicked for {}", what)),
            }
            c.nontrivial();
            c.set_cell(format!("duplicate-no-fault|{}|{}|n{}", ["plain", "zstd", "gzip"][fmt], if filter { "filter" } else { "func" }, n));
        }
        return;
    }
    // a plain stream cut in the middle is simply a shorter list of keys: only compressed streams are damaged by truncation
    if truncate && fmt == 0 {
        return;
    }
    match r {
        Ok(Ok(len)) => c.fail(
            if filter { "try_build_filter" } else { "try_build_func" },
            "ok-after-read-fault",
            "Ok returned although the key source reported an I/O error",
            &format!("the build returned Ok (len() = {}) for {}", len, what),
        ),
        Ok(Err(_)) => {}
        Err(m) => c.fail(if filter { "try_build_filter" } else { "try_build_func" }, "panic", &m, &format!("the build panicked for {}", what)),
    }
    c.nontrivial();
    c.set_cell(format!("read-fault|{}|{}|pass{}|{}|{}|n{}", ["plain", "zstd", "gzip"][fmt], if truncate { "truncated" } else { kname }, pass, frac, if filter { "filter" } else { "func" }, n));
}

fn main() {
    default_thread_stacks();
    let mut ctx = Ctx::from_args("C17");
    ctx.set_hang_limit(300);
    let debug = cfg!(debug_assertions);
    let thorough = ctx.thorough();
    let mut r = ctx.rng(17);
    let timing = timing_enabled();
    // 0. the crate's own line lenders over sources that cannot seek
    for fmt in 0..3usize {
        for (i, n) in [10usize, 100, 1000].into_iter().enumerate() {
            for filter in [false, true] {
                let offline = (i + fmt + filter as usize) % 2 == 1;
                let variant = format!("{}/{}", ["LineLender", "ZstdLineLender", "GzipLineLender"][fmt], if filter { "filter" } else { "func" });
                ctx.case(&variant, "cannot-rewind/unseekable-source", if filter { "try_build_filter" } else { "try_build_func" }, |c| unseekable_case(c, fmt, filter, offline, n));
            }
        }
    }
    // 0b. the crate's own line lenders over a reader that fails, and over truncated compressed streams
    for fmt in 0..3usize {
        for kind_i in 0..READ_FAULT_KINDS.len() {
            for pass in 0..3u32 {
                for frac in [0usize, 1, 4, 7] {
                    if (fmt + kind_i + pass as usize + frac) % 2 == 1 && kind_i > 0 {
                        continue; // half of the grid for the kinds other than UnexpectedEof
                    }
                    let filter = (kind_i + frac) % 2 == 1;
                    let n = [40usize, 300, 2000][(kind_i + pass as usize) % 3];
                    let variant = format!("{}/{}", ["LineLender", "ZstdLineLender", "GzipLineLender"][fmt], if filter { "filter" } else { "func" });
                    ctx.case(&variant, &format!("read-fault/{}/pass{}", READ_FAULT_KINDS[kind_i].1, pass + 1), if filter { "try_build_filter" } else { "try_build_func" }, |c| faulty_reader_case(c, fmt, kind_i, pass, frac, filter, false, n));
                }
            }
        }
        // a repeated key and no fault at all (the fault is planned for a pass that never comes)
        for (i, n) in [2usize, 40, 300, 2000].into_iter().enumerate() {
            for filter in [false, true] {
                let variant = format!("{}/{}", ["LineLender", "ZstdLineLender", "GzipLineLender"][fmt], if filter { "filter" } else { "func" });
                ctx.case(&variant, "duplicate/line-lender-no-fault", if filter { "try_build_filter" } else { "try_build_func" }, |c| faulty_reader_case(c, fmt, i % READ_FAULT_KINDS.len(), 1_000_000, 0, filter, false, n));
            }
        }
        for frac in [1usize, 3, 5, 7] {
            for filter in [false, true] {
                let variant = format!("{}/{}", ["LineLender", "ZstdLineLender", "GzipLineLender"][fmt], if filter { "filter" } else { "func" });
                ctx.case(&variant, "read-fault/truncated-stream", if filter { "try_build_filter" } else { "try_build_func" }, |c| faulty_reader_case(c, fmt, 0, 0, frac, filter, true, 3000));
            }
        }
    }
    let mut run = |ctx: &mut Ctx, v: usize, s: Scn| {
        let var = &VARIANTS[v];
        let op = if var.func { "try_build_func" } else { "try_build_filter" };
        let cell = format!("{}|{}", var.name, s.stratum());
        let t0 = cpu_secs();
        let runs = ctx.next_runs();
        ctx.case(var.name, &s.stratum(), op, |c| {
            c.set_cell(cell.clone());
            (var.run)(c, &s)
        });
        if runs && timing {
            eprintln!("TIME {:.4} {} {}", cpu_secs() - t0, var.name, s.stratum());
        }
    };
    let lenders = |v: usize| -> Vec<Where> {
        if VARIANTS[v].func {
            vec![Where::Keys, Where::Values, Where::Both]
        } else {
            vec![Where::Keys]
        }
    };
    let mk = |r: &mut SmallRng, group: &'static str, n: usize, cfg: Cfg, wh: Where, fault: FaultKind, retry: Retry, dup: Option<DupShape>| Scn {
        n,
        kk: r.random_range(0..12),
        salt: r.random::<u64>() >> 1,
        cfg,
        wh,
        fault,
        retry,
        dup,
        max_dup_passes: 4,
        group,
    };

    // every position of a retry pass is enumerated on inputs of this size (pass 1: up to 300 in both tiers)
    let all_n: usize = if thorough { 300 } else { 100 };

    // 1. pass 1: every position (n <= 300) and the edge positions (larger n), each lender
    let small_ns: &[usize] = &[1, 2, 3, 10, 100, 300];
    let big_ns: Vec<usize> = if debug { vec![1000, 20_000, 100_000] } else if thorough { vec![1000, 20_000, 100_000, 150_000, 400_000] } else { vec![1000, 20_000, 100_000, 150_000] };
    for v in 0..VARIANTS.len() {
        for &n in small_ns {
            for wh in lenders(v) {
                // quick tier: the 301 positions of the largest small input are enumerated for the key lender only
                if !thorough && n == 300 && wh != Where::Keys {
                    continue;
                }
                for offline in [false, true] {
                    if offline && n != 10 && !(n == 300 && thorough) {
                        continue;
                    }
                    let cfg = base_cfg(&mut r, offline, false);
                    let s = mk(&mut r, "pass1", n, cfg, wh, FaultKind::Item { pass: 1, pos: Pos::All }, Retry::None, None);
                    run(&mut ctx, v, s);
                }
            }
        }
        for &n in big_ns.iter() {
            if !VARIANTS[v].int_keys && n > 100_000 {
                continue;
            }
            for wh in lenders(v) {
                for pos in [Pos::First, Pos::Second, Pos::Middle, Pos::LastButOne, Pos::Last, Pos::AtEnd] {
                    if n >= 100_000 && wh == Where::Both && pos != Pos::Middle {
                        continue;
                    }
                    let offline = n <= 20_000 && matches!(pos, Pos::Middle | Pos::Last);
                    let cfg = base_cfg(&mut r, offline, false);
                    let s = mk(&mut r, "pass1", n, cfg, wh, FaultKind::Item { pass: 1, pos }, Retry::None, None);
                    run(&mut ctx, v, s);
                }
            }
        }
    }

    // 2. retry passes forced by a duplicated key under check_dups(true): faults in passes 2, 3, 4 and in every rewind
    for v in 0..VARIANTS.len() {
        for &n in &[10usize, all_n, 5_000, 60_000] {
            for wh in lenders(v) {
                for pass in 2..=4u32 {
                    let poss: &[Pos] = if n <= 300 { &[Pos::All] } else { &[Pos::First, Pos::Middle, Pos::Last, Pos::AtEnd] };
                    for &pos in poss {
                        if n == 60_000 && (pos == Pos::AtEnd || wh == Where::Both) {
                            continue;
                        }
                        let offline = (pass as usize + n) % 3 == 0 && n <= 5_000;
                        let cfg = base_cfg(&mut r, offline, true);
                        let dup = pick(&mut r, &[DupShape::Adjacent, DupShape::FirstLast, DupShape::FarApart, DupShape::Multi(3)]);
                        let s = mk(&mut r, "retry-pass", n, cfg, wh, FaultKind::Item { pass, pos }, Retry::Dup, Some(dup));
                        run(&mut ctx, v, s);
                    }
                }
                for nth in 1..=3u32 {
                    if n == 60_000 && nth != 2 {
                        continue;
                    }
                    let cfg = base_cfg(&mut r, nth == 2 && n <= 5_000, true);
                    let dup = pick(&mut r, &[DupShape::Adjacent, DupShape::FirstLast, DupShape::FarApart]);
                    let s = mk(&mut r, "rewind", n, cfg, wh, FaultKind::Rewind { nth }, Retry::Dup, Some(dup));
                    run(&mut ctx, v, s);
                }
            }
        }
    }

    // 3. retry passes forced by screened builder seeds (key counts whose first attempts almost always fail,
    //    see notes/C07-defects.md): faults in passes 2, 3, 4 and in every rewind, no duplicates involved
    for v in 0..VARIANTS.len() {
        for &n in &[105usize, 198, 340] {
            for wh in lenders(v) {
                for pass in 2..=4u32 {
                    let poss: &[Pos] = if n == 105 && (thorough || pass == 2) { &[Pos::All] } else { &[Pos::First, Pos::Middle, Pos::Last, Pos::AtEnd] };
                    for &pos in poss {
                        let cfg = base_cfg(&mut r, pass == 3 && n == 198, false);
                        let s = mk(&mut r, "retry-pass", n, cfg, wh, FaultKind::Item { pass, pos }, Retry::Screened, None);
                        run(&mut ctx, v, s);
                    }
                }
                for nth in 1..=3u32 {
                    let cfg = base_cfg(&mut r, nth == 3 && n == 340, false);
                    let s = mk(&mut r, "rewind", n, cfg, wh, FaultKind::Rewind { nth }, Retry::Screened, None);
                    run(&mut ctx, v, s);
                }
            }
        }
    }
    //    ... and, thorough release builds only, by an over-full shard (MaxShardTooBig) at a 16-shard size
    if thorough && !debug {
        for v in (0..VARIANTS.len()).filter(|&v| VARIANTS[v].sharded) {
            for wh in lenders(v) {
                if wh == Where::Both {
                    continue;
                }
                let cfg = Cfg { hint: Hint::Absent, check_dups: false, seed: r.random::<u64>() >> 8, ..Cfg::default() };
                let s = mk(&mut r, "retry-pass", 800_000, cfg.clone(), wh, FaultKind::Item { pass: 2, pos: Pos::Middle }, Retry::Screened, None);
                run(&mut ctx, v, s);
                let s = mk(&mut r, "rewind", 800_000, cfg, wh, FaultKind::Rewind { nth: 1 }, Retry::Screened, None);
                run(&mut ctx, v, s);
            }
        }
    }

    // 4. duplicates without faults: placement x multiplicity x size x store, functions and filters
    {
        let shapes = [
            DupShape::Adjacent,
            DupShape::FirstLast,
            DupShape::FarApart,
            DupShape::Multi(2),
            DupShape::Multi(3),
            DupShape::Multi(5),
            DupShape::Multi(10),
            DupShape::RunAtEnd(2),
            DupShape::RunAtEnd(10),
        ];
        // (tiny key sets too: with at most 4 keys the fuse graph has a single sort key)
        let mut sizes: Vec<usize> = vec![1, 2, 3, 4, 5, 10, 11, 100, 101, 1000, 10_000, 99_999];
        if !debug || thorough {
            sizes.push(100_000);
        }
        for v in 0..VARIANTS.len() {
            for &n in sizes.iter() {
                // a sharded logic has two shards from 100 000 keys on: other shards may fail first (an unsolvable shard reported before the duplicate costs a pass that does not count towards the four duplicate reports): allow 60 passes
                for (si, &shape) in shapes.iter().enumerate() {
                    let multi = VARIANTS[v].sharded && n + shape.extra() >= 100_000;
                    if n >= 99_999 && si % 3 != v % 3 {
                        continue;
                    }
                    for offline in [false, true] {
                        if offline && (n > 10_000 || (si + n) % 2 == 0) {
                            continue;
                        }
                        let mut cfg = base_cfg(&mut r, offline, true);
                        if multi {
                            cfg.threads = pick(&mut r, &[Some(1), Some(2), Some(8)]);
                        }
                        let mut s = mk(&mut r, "duplicates", n, cfg, Where::Keys, FaultKind::NoFault, Retry::None, Some(shape));
                        if multi {
                            s.max_dup_passes = 60;
                        }
                        run(&mut ctx, v, s);
                    }
                }
            }
        }
        // a key repeated so often that its shard exceeds the balance bound of a sharded
        // build (more than 1 % above the average): the error must still be reported
        if !debug {
            for v in (0..VARIANTS.len()).filter(|&v| VARIANTS[v].int_keys && VARIANTS[v].sharded) {
                // (the last two: hardly any distinct key, so that most shards are empty, with fewer threads than shards)
                for &(n, m) in &[(200_000usize, 3000usize), (200_000, 700), (400_000, 1500), (1, 150_000), (3, 250_000)] {
                    let mut cfg = base_cfg(&mut r, false, true);
                    cfg.threads = if n <= 3 { pick(&mut r, &[Some(1), Some(2)]) } else { pick(&mut r, &[Some(1), Some(4), Some(16)]) };
                    let mut s = mk(&mut r, "duplicates", n, cfg, Where::Keys, FaultKind::NoFault, Retry::None, Some(DupShape::Multi(m)));
                    s.max_dup_passes = 60;
                    run(&mut ctx, v, s);
                }
            }
        }
        if thorough && !debug {
            for v in (0..VARIANTS.len()).filter(|&v| VARIANTS[v].int_keys) {
                for &n in &[200_000usize, 650_000, 1_000_000] {
                    for &shape in &[DupShape::FarApart, DupShape::Multi(10)] {
                        let mut cfg = base_cfg(&mut r, false, true);
                        cfg.threads = pick(&mut r, &[Some(1), Some(4), Some(16)]);
                        let mut s = mk(&mut r, "duplicates", n, cfg, Where::Keys, FaultKind::NoFault, Retry::None, Some(shape));
                        s.max_dup_passes = 60;
                        run(&mut ctx, v, s);
                    }
                }
            }
        }
    }

    // 4b. the duplicated pair at every rank of the signature-sorted shard (duplicate detection compares
    //     neighbours after sorting: a comparison that skips some ranks, e.g. block boundaries, misses it there)
    for &(v, n) in &[(0usize, 4200usize), (5usize, 2100usize)] {
        let mut from = 0;
        while from < n {
            let to = (from + 300).min(n);
            let cfg = Cfg { check_dups: true, seed: r.random::<u64>() >> 8, ..Cfg::default() };
            let s = mk(&mut r, "duplicates", n, cfg, Where::Keys, FaultKind::NoFault, Retry::None, Some(DupShape::RankSweep { from, to }));
            run(&mut ctx, v, s);
            from = to;
        }
    }

    // 4c. more shards than solver threads and a duplicate: the attempt fails while the feeder thread still
    //     has shards to hand out (a build that never returns is a hang violation)
    for v in (0..VARIANTS.len()).filter(|&v| VARIANTS[v].sharded) {
        // (few cases: on a tree where this deadlocks every one of them costs the whole hang limit)
        for &(n, t, shape) in &[(100_000usize, 1usize, DupShape::FarApart), (200_000, 2, DupShape::Multi(4)), (400_000, 3, DupShape::Adjacent)] {
            if n > 200_000 && (debug || !thorough) {
                continue;
            }
            {
                let cfg = Cfg { check_dups: true, threads: Some(t), seed: r.random::<u64>() >> 8, hint: pick(&mut r, &[Hint::Absent, Hint::Exact, Hint::Tenth]), ..Cfg::default() };
                let mut s = mk(&mut r, "duplicates-more-shards-than-threads", n, cfg, Where::Keys, FaultKind::NoFault, Retry::None, Some(shape));
                s.max_dup_passes = 60;
                run(&mut ctx, v, s);
            }
        }
    }

    // 5. random fault plans on top
    let rounds = ctx.scale(5, 3_000, 100_000);
    for _ in 0..rounds {
        let v = r.random_range(0..VARIANTS.len());
        let var = &VARIANTS[v];
        let wh = pick(&mut r, &lenders(v));
        let retry = pick(&mut r, &[Retry::None, Retry::Dup, Retry::Dup, Retry::Screened]);
        let n = match retry {
            Retry::Screened => pick(&mut r, &[104usize, 105, 106, 109, 126, 155, 198, 210, 240, 254, 300, 340]),
            _ => match r.random_range(0..10) {
                0..=5 => r.random_range(2..=400),
                6..=8 => r.random_range(401..=20_000),
                _ => r.random_range(20_001..=if var.int_keys { 99_000 } else { 50_000 }),
            },
        };
        let n = if retry == Retry::Dup { n.max(2) } else { n };
        let pass = if retry == Retry::None { 1 } else { r.random_range(1..=4u32) };
        let pos = if n <= 60 && r.random_range(0..3) == 0 { Pos::All } else { pick(&mut r, &[Pos::First, Pos::Second, Pos::Middle, Pos::LastButOne, Pos::Last, Pos::AtEnd]) };
        let fault = if retry != Retry::None && r.random_range(0..4) == 0 { FaultKind::Rewind { nth: r.random_range(1..=3u32) } } else { FaultKind::Item { pass, pos } };
        let offline = n <= 20_000 && r.random_range(0..4) == 0;
        let dup = if retry == Retry::Dup {
            Some(pick(&mut r, &[DupShape::Adjacent, DupShape::FirstLast, DupShape::FarApart, DupShape::Multi(2), DupShape::Multi(4), DupShape::RunAtEnd(3)]))
        } else {
            None
        };
        let cfg = base_cfg(&mut r, offline, retry == Retry::Dup);
        let s = mk(&mut r, "random", n, cfg, wh, fault, retry, dup);
        run(&mut ctx, v, s);
        if ctx.out_of_time() {
            break;
        }
    }

    let counters = format!(
        "{{\"builds\":{},\"faults_delivered\":{},\"planned_faults_not_reached\":{},\"duplicate_runs_refused_with_err\":{},\"ok_results_fully_checked\":{},\"screening_found_no_retrying_seed\":{},\"err_without_fault_or_duplicate\":{}}}",
        BUILDS.with(|c| c.get()),
        FAULTS_DELIVERED.with(|c| c.get()),
        FAULTS_NOT_REACHED.with(|c| c.get()),
        DUP_ERRS.with(|c| c.get()),
        OK_CHECKED.with(|c| c.get()),
        SCREEN_MISSES.with(|c| c.get()),
        ERR_WITHOUT_CAUSE.with(|c| c.get())
    );
    ctx.note("c17_counters", &counters);
    ctx.finish();
}
