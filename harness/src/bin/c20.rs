//! C20 — rewinding an input lender replays exactly the same items.
//!
//! Oracle: the expected item list, computed by the harness from the raw input
//! (line lenders: the text split at `\n`, one `\r` removed before a `\n`, a
//! final unterminated line kept as it is, no phantom empty last line;
//! `FromIntoIterator`: the collected iterator; `take(m)`: the first m expected
//! items). A *history* is a list of poll counts: the lender is polled that
//! many times (stopping at `None`), rewound, ... and finally read to the end.
//! Every item of every pass is copied into an owned value as it is lent and
//! compared with the expected list: op `first_pass` judges the pass before any
//! rewind (pass 1 = the input's lines), op `pass_after_rewind` the later ones
//! (pass k = pass 1), op `rewind` an error or panic of `rewind()` itself.
//!
//! `lender::Take` re-takes the *remaining* count when rewound (DESIGN.md 7,
//! item 16): histories that poll a `Take` before rewinding it run in cases of
//! their own (stratum suffix `/polled-before-rewind`), apart from those that
//! rewind an untouched `Take` (`/no-poll-before-rewind`).
use lender::Lender;
use rand::rngs::SmallRng;
use rand::Rng;
use std::fmt::Debug;
use std::fs::File;
use std::io::{BufReader, Cursor, Write};
use std::sync::atomic::{AtomicUsize, Ordering};
use std::sync::Arc;
use sux::utils::{FromIntoIterator, GzipLineLender, LineLender, RewindableIoLender, ZstdLineLender};
use suxmon::obs::*;

// ---------------------------------------------------------------- model

/// The lines a line lender must yield for `text`.
fn model_lines(text: &str) -> Vec<String> {
    let mut out = Vec::new();
    let mut rest = text;
    while !rest.is_empty() {
        match rest.find('\n') {
            Some(p) => {
                let mut line = &rest[..p];
                if line.ends_with('\r') {
                    line = &line[..line.len() - 1];
                }
                out.push(line.to_string());
                rest = &rest[p + 1..];
            }
            None => {
                out.push(rest.to_string());
                rest = "";
            }
        }
    }
    out
}

fn show_text(t: &str) -> String {
    if t.len() <= 400 {
        format!("{:?}", t)
    } else {
        let mut a = 200;
        while !t.is_char_boundary(a) {
            a -= 1;
        }
        let mut b = t.len() - 100;
        while !t.is_char_boundary(b) {
            b += 1;
        }
        format!("{:?}…({} bytes, {} newlines, hash {:016x})…{:?}", &t[..a], t.len(), t.matches('\n').count(), hash_str(t), &t[b..])
    }
}

// ---------------------------------------------------------------- driver

/// The count `m` of the `take(m)` wrapped around the lender under test (usize::MAX: none).
static TAKE_M: std::sync::atomic::AtomicUsize = std::sync::atomic::AtomicUsize::new(usize::MAX);

/// Runs one history on a fresh lender. Returns false after the first
/// violation (the lender's state is then unknown).
fn drive<T, L>(c: &mut Case, mk: &dyn Fn() -> Result<L, String>, expected: &[T::Owned], hist: &[usize], what: &dyn Fn() -> String) -> bool
where
    T: ?Sized + ToOwned,
    T::Owned: PartialEq + Debug,
    L: RewindableIoLender<T>,
{
    let n = expected.len();
    let mut l = match catch(mk) {
        Ok(Ok(l)) => l,
        Ok(Err(e)) => {
            c.fail("open", "error", &e, &format!("constructing the lender failed: {}; {}", e, what()));
            return false;
        }
        Err(m) => {
            c.fail("open", "panic", &m, &format!("constructing the lender panicked; {}", what()));
            return false;
        }
    };
    // Known finding K02 is specific: a rewound `lender::Take` re-takes the count that was
    // left (each poll, the one answered `None` by the wrapped lender included, uses one
    // up). A short pass that lends any other number of items is a different violation.
    let take_m = TAKE_M.load(std::sync::atomic::Ordering::Relaxed);
    let mut take_left = take_m;
    for p in 0..=hist.len() {
        let polls = if p < hist.len() { hist[p] } else { usize::MAX };
        let op = if p == 0 { "first_pass" } else { "pass_after_rewind" };
        let here = |i: usize| format!("pass {} (history: poll {:?} then rewind each time, then read to the end), item #{}; {}", p + 1, hist, i, what());
        let mut i = 0usize;
        let mut polled = 0usize;
        let mut ended = false;
        let r = catch(|| {
            while polled < polls {
                polled += 1;
                let item: Option<Result<&T, L::Error>> = l.next();
                match item {
                    None => {
                        ended = true;
                        break;
                    }
                    Some(Err(e)) => return Err(("error", format!("the lender returned an error: {}", e), String::new())),
                    Some(Ok(x)) => {
                        let x: T::Owned = x.to_owned();
                        if i >= n {
                            return Err(("mismatch", "more items than expected".to_string(), format!("extra item {}", trunc(&format!("{:?}", x), 200))));
                        }
                        if x != expected[i] {
                            return Err(("mismatch", "different item".to_string(), format!("got {} expected {}", trunc(&format!("{:?}", x), 300), trunc(&format!("{:?}", expected[i]), 300))));
                        }
                        i += 1;
                    }
                }
            }
            Ok(())
        });
        c.tick(i as u64 + 1);
        match r {
            Err(m) => {
                c.fail(op, "panic", &m, &format!("next() panicked at {}", here(i)));
                return false;
            }
            Ok(Err((kind, msg, d))) => {
                c.fail(op, kind, &msg, &format!("{}: {} at {}", msg, d, here(i)));
                return false;
            }
            Ok(Ok(())) => {
                if ended && i != n {
                    let msg = if take_m != usize::MAX && i != n.min(take_left) {
                        "a short pass whose length is not the one the known behaviour of lender::Take predicts"
                    } else if i == 0 {
                        "no items at all"
                    } else {
                        "fewer items than expected"
                    };
                    c.fail(op, "mismatch", msg, &format!("{}: the pass ended after {} of {} items at {}", msg, i, n, here(i)));
                    return false;
                }
            }
        }
        take_left -= polled.min(take_left);
        if p < hist.len() {
            l = match catch(|| l.rewind()) {
                Ok(Ok(l)) => l,
                Ok(Err(e)) => {
                    c.fail("rewind", "error", &format!("rewind() returned an error: {}", e), &format!("rewind() #{} returned Err({}) after {} items of {}", p + 1, e, i, here(i)));
                    return false;
                }
                Err(m) => {
                    c.fail("rewind", "panic", &m, &format!("rewind() #{} panicked after {} items of {}", p + 1, i, here(i)));
                    return false;
                }
            };
        }
    }
    true
}

/// Like `drive`, but the items of every pass are consumed through the skipping
/// methods of `Lender` (`nth`, `advance_by`) with steps drawn from `steps`: a pass
/// after a rewind must lend, at every position reached this way, the item the
/// first pass has there.
fn drive_skipping<T, L>(c: &mut Case, mk: &dyn Fn() -> Result<L, String>, expected: &[T::Owned], hist: &[usize], steps: &[usize], what: &dyn Fn() -> String) -> bool
where
    T: ?Sized + ToOwned,
    T::Owned: PartialEq + Debug,
    L: RewindableIoLender<T>,
{
    let n = expected.len();
    let Ok(Ok(mut l)) = catch(mk) else { return false }; // `drive` reports construction failures
    let mut si = 0usize;
    for p in 0..=hist.len() {
        let polls = if p < hist.len() { hist[p] } else { usize::MAX };
        let mut i = 0usize; // items of this pass consumed so far
        let r = catch(|| -> Result<(), (String, String)> {
            while i < polls {
                let k = steps[si % steps.len()].min(polls - i - 1).min(n + 2);
                si += 1;
                let use_advance = si % 3 == 0;
                let item: Option<Result<&T, L::Error>> = if use_advance {
                    match l.advance_by(k) {
                        Ok(()) => l.next(),
                        Err(rem) => {
                            // fewer than k items were left: exactly k - rem were skipped
                            let skipped = k - rem.get();
                            if i + skipped != n {
                                return Err(("mismatch".into(), format!("advance_by({}) after {} items of a pass of {} reports {} items skipped", k, i, n, skipped)));
                            }
                            return Ok(());
                        }
                    }
                } else {
                    l.nth(k)
                };
                match item {
                    None => {
                        if i + k < n {
                            return Err(("mismatch".into(), format!("{}({}) after {} items lends nothing although the pass has {} items", if use_advance { "advance_by+next" } else { "nth" }, k, i, n)));
                        }
                        return Ok(());
                    }
                    Some(Err(e)) => return Err(("error".into(), format!("the lender returned an error: {}", e))),
                    Some(Ok(x)) => {
                        let x: T::Owned = x.to_owned();
                        if i + k >= n {
                            return Err(("mismatch".into(), format!("{}({}) after {} items lends {} although the pass has only {} items", if use_advance { "advance_by+next" } else { "nth" }, k, i, trunc(&format!("{:?}", x), 200), n)));
                        }
                        if x != expected[i + k] {
                            return Err((
                                "mismatch".into(),
                                format!("{}({}) after {} items lends {} where the first pass has item #{} = {}", if use_advance { "advance_by+next" } else { "nth" }, k, i, trunc(&format!("{:?}", x), 200), i + k, trunc(&format!("{:?}", expected[i + k]), 200)),
                            ));
                        }
                        i += k + 1;
                    }
                }
            }
            Ok(())
        });
        c.tick(i as u64 + 1);
        let here = || format!("pass {} (history: consume {:?} items with nth/advance_by then rewind each time, then to the end); {}", p + 1, hist, what());
        match r {
            Err(m) => {
                c.fail("pass_with_skips", "panic", &m, &format!("panicked in {}", here()));
                return false;
            }
            Ok(Err((kind, d))) => {
                c.fail("pass_with_skips", &kind, if kind == "mismatch" { "a pass consumed with nth/advance_by differs from the first pass" } else { "error" }, &format!("{} in {}", d, here()));
                return false;
            }
            Ok(Ok(())) => {}
        }
        if p < hist.len() {
            l = match catch(|| l.rewind()) {
                Ok(Ok(l)) => l,
                _ => return false, // `drive` reports rewind failures
            };
        }
    }
    true
}

fn run_hists<T, L>(c: &mut Case, mk: &dyn Fn() -> Result<L, String>, expected: &[T::Owned], hists: &[Vec<usize>], what: &dyn Fn() -> String)
where
    T: ?Sized + ToOwned,
    T::Owned: PartialEq + Debug,
    L: RewindableIoLender<T>,
{
    if hists.is_empty() {
        return;
    }
    // Reference first pass on a fresh lender, judged against the model under
    // op `first_pass`. If it differs, the histories are judged against what
    // the first pass really yields (the property compares pass k with pass
    // 1), so that a wrong first pass is not reported again as a rewind
    // failure. Errors and panics are left to `drive`, which meets them too.
    let reference: Option<Vec<T::Owned>> = catch(|| {
        let mut l = mk().ok()?;
        let mut v = Vec::new();
        loop {
            let item: Option<Result<&T, L::Error>> = l.next();
            match item {
                None => break,
                Some(Err(_)) => return None,
                Some(Ok(x)) => v.push(x.to_owned()),
            }
            if v.len() > expected.len() + 1000 {
                break;
            }
        }
        Some(v)
    })
    .ok()
    .flatten();
    let exp: &[T::Owned] = match &reference {
        Some(r) if r.as_slice() != expected => {
            let at = r.iter().zip(expected.iter()).position(|(a, b)| a != b).unwrap_or(r.len().min(expected.len()));
            let msg = if at < r.len() && at < expected.len() {
                "different item"
            } else if r.len() < expected.len() {
                "fewer items than expected"
            } else {
                "more items than expected"
            };
            c.fail(
                "first_pass",
                "mismatch",
                msg,
                &format!(
                    "{}: a fresh lender read to the end yields {} items, the input has {}; first difference at item #{}: got {} expected {}; {}",
                    msg,
                    r.len(),
                    expected.len(),
                    at,
                    trunc(&format!("{:?}", r.get(at)), 300),
                    trunc(&format!("{:?}", expected.get(at)), 300),
                    what()
                ),
            );
            r.as_slice()
        }
        _ => expected,
    };
    c.tick(exp.len() as u64 + 1);
    for h in hists {
        drive::<T, L>(c, mk, exp, h, what);
    }
    // the same histories consumed with nth / advance_by (not over Take: K02 changes what is left)
    if TAKE_M.load(std::sync::atomic::Ordering::Relaxed) == usize::MAX {
        let n = exp.len();
        let step_sets: [&[usize]; 3] = [&[0, 1, 2, 0, 7], &[3, 0, 64, 1], &[n / 3 + 1, 0, 1000, 2]];
        for (j, h) in hists.iter().enumerate() {
            if j % 2 == 0 || hists.len() <= 3 {
                drive_skipping::<T, L>(c, mk, exp, h, step_sets[j % 3], what);
            }
        }
    }
}

/// The deterministic histories for a lender expected to yield `n` items.
fn histories(n: usize, big: bool) -> Vec<Vec<usize>> {
    if big {
        return vec![vec![n / 2], vec![n + 1, 1], vec![0, n]];
    }
    let base = [0, 1, n / 2, n.saturating_sub(1), n, n + 1];
    let mut h: Vec<Vec<usize>> = base.iter().map(|&c| vec![c]).collect();
    h.push(vec![0, 0, 0]);
    h.push(vec![n, n]);
    h.push(vec![1, n / 2, n + 1]);
    h.push(vec![n + 1, 0, n.saturating_sub(1), 1]);
    h.push(vec![n / 2; 4]);
    h.push(vec![n + 1; 3]);
    h.push(vec![n.saturating_sub(1), n, n + 1, n + 2]);
    h.sort();
    h.dedup();
    h
}

#[derive(Clone, Copy, PartialEq, Eq, Debug)]
enum PollClass {
    /// every history
    All,
    /// only histories that never poll before a rewind
    NoPoll,
    /// only histories that poll at least once before some rewind
    Polled,
}

fn filter_hists(h: Vec<Vec<usize>>, pc: PollClass) -> Vec<Vec<usize>> {
    h.into_iter()
        .filter(|x| match pc {
            PollClass::All => true,
            PollClass::NoPoll => x.iter().all(|&c| c == 0),
            PollClass::Polled => x.iter().any(|&c| c > 0),
        })
        .collect()
}

// ---------------------------------------------------------------- inputs

fn named_inputs(thorough: bool) -> Vec<(&'static str, String)> {
    let mut v: Vec<(&'static str, String)> = vec![
        ("empty", "".into()),
        ("single-newline", "\n".into()),
        ("single-line-no-final-newline", "abc".into()),
        ("single-line", "abc\n".into()),
        ("no-final-newline", "one\ntwo\nthree".into()),
        ("final-newline", "one\ntwo\nthree\n".into()),
        ("crlf", "one\r\ntwo\r\nthree\r\n".into()),
        ("crlf-no-final-newline", "one\r\ntwo\r\nthree".into()),
        ("mixed-terminators", "a\nb\r\nc\nd\r\n\r\ne".into()),
        ("lone-cr", "a\rb\nc\r\r\n\rd\n\r\ne\r".into()),
        ("empty-lines", "\n\n\nx\n\n\n".into()),
        ("only-crlf-lines", "\r\n\r\n\r\n".into()),
        ("unicode", "é€𝄞\nñandú\r\n\u{10FFFF}\n日本語\nlast€".into()),
        ("whitespace-lines", " \n\t\n  x  \n \r\n".into()),
        // a byte-order mark is part of the first line: it is lent as it is, on every pass
        ("leading-bom", "\u{feff}alpha\nbeta\r\ngamma".into()),
        ("bom-only-and-inner-bom", "\u{feff}\nx\u{feff}y\n\u{feff}".into()),
        // multi-byte characters around the 8192-byte buffer boundary
        ("multibyte-at-buffer-boundary", format!("{}é{}\n{}€\n{}𝄞tail", "a".repeat(8191), "b".repeat(10), "c".repeat(8190 - 11), "d".repeat(8189 + 8192 - 3))),
    ];
    // 300 short lines (several BufReader refills with tiny buffers)
    let mut s = String::new();
    for i in 0..300 {
        s.push_str(&format!("key{}", i * 7919 % 1000));
        s.push_str(if i % 3 == 0 { "\r\n" } else { "\n" });
    }
    v.push(("300-lines", s));
    // lines around the BufReader capacity (8192) and the line buffer's initial capacity (128)
    let mut s = String::new();
    for l in [127usize, 128, 129, 8191, 8192, 8193, 1, 0, 16384, 5] {
        s.push_str(&"x".repeat(l));
        s.push('\n');
    }
    v.push(("buffer-boundary-lines", s));
    let _ = thorough;
    v
}

fn big_inputs(thorough: bool) -> Vec<(&'static str, String)> {
    let mut v = Vec::new();
    // one line of 1 MB between two short ones, no final newline
    let mut s = String::from("first\n");
    s.push_str(&"abcdefghij".repeat(100_000));
    s.push_str("\nlast");
    v.push(("1MB-line", s));
    // 10^5 lines
    let mut s = String::with_capacity(1_200_000);
    let nl = if thorough { 1_000_000 } else { 100_000 };
    for i in 0..nl {
        s.push_str(&format!("{:x}", (i as u64).wrapping_mul(0x9E37_79B9_7F4A_7C15)));
        s.push_str(if i % 5 == 0 { "\r\n" } else { "\n" });
    }
    v.push(("1e5-lines", s));
    v
}

fn random_text(rng: &mut SmallRng) -> String {
    let nlines = match rng.random_range(0..6) {
        0 => rng.random_range(0..=3),
        1 => rng.random_range(0..=400),
        _ => rng.random_range(0..=40),
    };
    let alpha: Vec<char> = "abcxyz 0189\t-_é€𝄞".chars().collect();
    let mut s = String::new();
    for i in 0..nlines {
        let len = match rng.random_range(0..12) {
            0 => 0,
            1 => rng.random_range(100..400),
            2 => rng.random_range(8000..8400),
            _ => rng.random_range(0..20),
        };
        for _ in 0..len {
            if rng.random_range(0..40) == 0 {
                s.push('\r');
            } else {
                s.push(alpha[rng.random_range(0..alpha.len())]);
            }
        }
        let last = i + 1 == nlines;
        match rng.random_range(0..8) {
            0..=3 => s.push('\n'),
            4..=5 => s.push_str("\r\n"),
            6 => s.push_str("\r\r\n"),
            _ => {
                if !last {
                    s.push('\n')
                }
            }
        }
    }
    s
}

// ---------------------------------------------------------------- encoders

#[derive(Clone, Copy, Debug, PartialEq, Eq)]
enum Comp {
    /// one frame / one member
    Single,
    /// one frame / member written in pieces with a flush after each piece
    /// (zstd: several blocks; gzip: several deflate blocks)
    Flushed,
    /// zstd: several concatenated frames
    MultiFrame,
    /// compression level 0/1 (gzip level 0 = stored blocks)
    Fast,
}

impl Comp {
    fn name(&self) -> &'static str {
        match self {
            Comp::Single => "single",
            Comp::Flushed => "flushed-blocks",
            // zstd: frames; gzip: members
            Comp::MultiFrame => "multi-frame",
            Comp::Fast => "level-min",
        }
    }
}

/// Cut points (byte offsets, any position — also inside a line or a
/// character) splitting `len` bytes into `pieces` pieces.
fn cuts(len: usize, pieces: usize) -> Vec<usize> {
    let mut v: Vec<usize> = (1..pieces).map(|i| len * i / pieces).collect();
    v.push(len);
    v.dedup();
    v
}

fn zstd_bytes(data: &[u8], comp: Comp) -> Vec<u8> {
    match comp {
        Comp::Single => zstd::encode_all(data, 3).expect("zstd encode"),
        Comp::Fast => zstd::encode_all(data, 1).expect("zstd encode"),
        Comp::Flushed => {
            let mut e = zstd::Encoder::new(Vec::new(), 3).expect("zstd encoder");
            let mut from = 0;
            for to in cuts(data.len(), 4) {
                e.write_all(&data[from..to]).expect("zstd write");
                e.flush().expect("zstd flush");
                from = to;
            }
            e.finish().expect("zstd finish")
        }
        Comp::MultiFrame => {
            let mut out = Vec::new();
            let mut from = 0;
            for to in cuts(data.len(), 3) {
                out.extend(zstd::encode_all(&data[from..to], 3).expect("zstd encode"));
                from = to;
            }
            if data.is_empty() {
                out.extend(zstd::encode_all(data, 3).expect("zstd encode"));
            }
            out
        }
    }
}

fn gzip_member(data: &[u8], level: u32) -> Vec<u8> {
    let mut e = flate2::write::GzEncoder::new(Vec::new(), flate2::Compression::new(level));
    e.write_all(data).expect("gzip write");
    e.finish().expect("gzip finish")
}

fn gzip_bytes(data: &[u8], comp: Comp) -> Vec<u8> {
    match comp {
        Comp::Single => gzip_member(data, 6),
        Comp::Fast => gzip_member(data, 0),
        Comp::Flushed => {
            let mut e = flate2::write::GzEncoder::new(Vec::new(), flate2::Compression::new(6));
            let mut from = 0;
            for to in cuts(data.len(), 4) {
                e.write_all(&data[from..to]).expect("gzip write");
                e.flush().expect("gzip flush");
                from = to;
            }
            e.finish().expect("gzip finish")
        }
        Comp::MultiFrame => {
            // several members, as produced by `cat a.gz b.gz`
            let mut out = Vec::new();
            let mut from = 0;
            for to in cuts(data.len(), 3) {
                out.extend(gzip_member(&data[from..to], 6));
                from = to;
            }
            if data.is_empty() {
                out.extend(gzip_member(data, 6));
            }
            out
        }
    }
}

// ---------------------------------------------------------------- lender kinds

#[derive(Clone, Copy, Debug, PartialEq, Eq)]
enum Src {
    Cursor,
    /// BufReader with a 3-byte buffer over a Cursor (plain line lender only)
    TinyBuf,
    Path,
    File,
}

impl Src {
    fn name(&self) -> &'static str {
        match self {
            Src::Cursor => "Cursor",
            Src::TinyBuf => "BufReader3<Cursor>",
            Src::Path => "from_path",
            Src::File => "from_file",
        }
    }
}

#[derive(Clone, Copy, Debug, PartialEq, Eq)]
enum Fmt {
    Plain,
    Zstd(Comp),
    Gzip(Comp),
}

fn kind_name(fmt: Fmt, src: Src, take: bool) -> String {
    let base = match fmt {
        Fmt::Plain => format!("LineLender/{}", src.name()),
        Fmt::Zstd(c) => format!("ZstdLineLender/{}/{}", src.name(), c.name()),
        Fmt::Gzip(c) => format!("GzipLineLender/{}/{}", src.name(), if c == Comp::MultiFrame { "multi-member" } else { c.name() }),
    };
    if take {
        format!("Take<{}>", base)
    } else {
        base
    }
}

/// Runs `hists` on the line lender of the given format/source over `text`,
/// optionally wrapped in `take(m)`.
fn run_line_lender(c: &mut Case, fmt: Fmt, src: Src, text: &str, take: Option<usize>, hists: &[Vec<usize>]) {
    let lines = model_lines(text);
    let bytes: Vec<u8> = match fmt {
        Fmt::Plain => text.as_bytes().to_vec(),
        Fmt::Zstd(comp) => zstd_bytes(text.as_bytes(), comp),
        Fmt::Gzip(comp) => gzip_bytes(text.as_bytes(), comp),
    };
    // the file lives until the end of the case
    let tmp = if matches!(src, Src::Path | Src::File) {
        let mut f = tempfile::NamedTempFile::new().expect("temp file");
        f.write_all(&bytes).expect("write temp file");
        f.flush().expect("flush temp file");
        Some(f)
    } else {
        None
    };
    let path = tmp.as_ref().map(|f| f.path().to_path_buf());
    let name = kind_name(fmt, src, take.is_some());
    let what = || {
        format!(
            "lender={}{} over {} input bytes ({} encoded), {} expected lines; input text={}",
            name,
            take.map(|m| format!(".take({})", m)).unwrap_or_default(),
            text.len(),
            bytes.len(),
            lines.len(),
            show_text(text)
        )
    };
    let es = |e: std::io::Error| e.to_string();
    macro_rules! go {
        ($mk:expr) => {{
            let mk = $mk;
            match take {
                None => run_hists::<str, _>(c, &mk, &lines, hists, &what),
                Some(m) => {
                    TAKE_M.store(m, std::sync::atomic::Ordering::Relaxed);
                    run_hists::<str, _>(c, &|| mk().map(|l| l.take(m)), &lines[..m.min(lines.len())], hists, &what);
                    TAKE_M.store(usize::MAX, std::sync::atomic::Ordering::Relaxed);
                }
            }
        }};
    }
    match (fmt, src) {
        (Fmt::Plain, Src::Cursor) => go!(|| Ok(LineLender::new(Cursor::new(bytes.clone())))),
        (Fmt::Plain, Src::TinyBuf) => go!(|| Ok(LineLender::new(BufReader::with_capacity(3, Cursor::new(bytes.clone()))))),
        (Fmt::Plain, Src::Path) => go!(|| LineLender::from_path(path.as_ref().unwrap()).map_err(es)),
        (Fmt::Plain, Src::File) => go!(|| File::open(path.as_ref().unwrap()).map(LineLender::from_file).map_err(es)),
        (Fmt::Zstd(_), Src::Cursor | Src::TinyBuf) => go!(|| ZstdLineLender::new(Cursor::new(bytes.clone())).map_err(es)),
        (Fmt::Zstd(_), Src::Path) => go!(|| ZstdLineLender::from_path(path.as_ref().unwrap()).map_err(es)),
        (Fmt::Zstd(_), Src::File) => go!(|| File::open(path.as_ref().unwrap()).and_then(ZstdLineLender::from_file).map_err(es)),
        (Fmt::Gzip(_), Src::Cursor | Src::TinyBuf) => go!(|| GzipLineLender::new(Cursor::new(bytes.clone())).map_err(es)),
        (Fmt::Gzip(_), Src::Path) => go!(|| GzipLineLender::from_path(path.as_ref().unwrap()).map_err(es)),
        (Fmt::Gzip(_), Src::File) => go!(|| File::open(path.as_ref().unwrap()).and_then(GzipLineLender::from_file).map_err(es)),
    }
}

fn all_line_kinds(small: bool) -> Vec<(Fmt, Src)> {
    let mut v = vec![(Fmt::Plain, Src::Cursor), (Fmt::Plain, Src::TinyBuf)];
    if small {
        return v;
    }
    v.push((Fmt::Plain, Src::Path));
    v.push((Fmt::Plain, Src::File));
    for comp in [Comp::Single, Comp::Flushed, Comp::MultiFrame, Comp::Fast] {
        for src in [Src::Cursor, Src::Path, Src::File] {
            v.push((Fmt::Zstd(comp), src));
        }
    }
    // multi-member gzip has a stratum of its own (section 3)
    for comp in [Comp::Single, Comp::Flushed, Comp::Fast] {
        for src in [Src::Cursor, Src::Path, Src::File] {
            v.push((Fmt::Gzip(comp), src));
        }
    }
    v
}

fn take_class(m: usize, n: usize) -> &'static str {
    if m == 0 {
        "take(0)"
    } else if m == 1 {
        "take(1)"
    } else if m + 1 == n {
        "take(n-1)"
    } else if m == n {
        "take(n)"
    } else if m > n {
        "take(n+5)"
    } else {
        "take(1<m<n-1)"
    }
}

// ---------------------------------------------------------------- FromIntoIterator

#[derive(Clone, Copy, Debug, PartialEq, Eq)]
enum Fii {
    Range,
    StepBy,
    VecU64,
    VecString,
    Chars,
    VecDequeRefs,
}

impl Fii {
    const ALL: [Fii; 6] = [Fii::Range, Fii::StepBy, Fii::VecU64, Fii::VecString, Fii::Chars, Fii::VecDequeRefs];
    fn name(&self) -> &'static str {
        match self {
            Fii::Range => "FromIntoIterator<Range<usize>>",
            Fii::StepBy => "FromIntoIterator<StepBy<Range<usize>>>",
            Fii::VecU64 => "FromIntoIterator<Vec<u64>>",
            Fii::VecString => "FromIntoIterator<Vec<String>>",
            Fii::Chars => "FromIntoIterator<Chars>",
            Fii::VecDequeRefs => "FromIntoIterator<VecDeque<u8>>",
        }
    }
}

fn run_fii(c: &mut Case, kind: Fii, n: usize, take: Option<usize>, pc: PollClass) {
    let seed: u64 = c.rng().random();
    let name = format!("{}{}", kind.name(), take.map(|m| format!(".take({})", m)).unwrap_or_default());
    macro_rules! go {
        ($t:ty, $mk:expr, $exp:expr, $descr:expr) => {{
            let mk = $mk;
            let exp: Vec<<$t as ToOwned>::Owned> = $exp;
            let d: String = $descr;
            let what = || format!("lender={} over {} ({} items)", name, d, exp.len());
            match take {
                None => {
                    let h = filter_hists(histories(exp.len(), false), pc);
                    run_hists::<$t, _>(c, &mk, &exp, &h, &what)
                }
                Some(m) => {
                    let e = &exp[..m.min(exp.len())];
                    let h = filter_hists(histories(e.len(), false), pc);
                    TAKE_M.store(m, std::sync::atomic::Ordering::Relaxed);
                    run_hists::<$t, _>(c, &|| mk().map(|l| l.take(m)), e, &h, &what);
                    TAKE_M.store(usize::MAX, std::sync::atomic::Ordering::Relaxed);
                }
            }
        }};
    }
    match kind {
        Fii::Range => go!(usize, || Ok(FromIntoIterator::from(5..5 + n)), (5..5 + n).collect(), format!("{}..{}", 5, 5 + n)),
        Fii::StepBy => go!(usize, || Ok(FromIntoIterator::from((0..3 * n).step_by(3))), (0..3 * n).step_by(3).collect(), format!("(0..{}).step_by(3)", 3 * n)),
        Fii::VecU64 => {
            let v: Vec<u64> = (0..n as u64).map(|i| mix(seed, i)).collect();
            go!(u64, || Ok(FromIntoIterator::from(v.clone())), v.clone(), format!("vec of mix({}, i) for i in 0..{}", seed, n))
        }
        Fii::VecString => {
            let v: Vec<String> = (0..n as u64).map(|i| format!("k{:x}", mix(seed, i) % 1000)).collect();
            go!(String, || Ok(FromIntoIterator::from(v.clone())), v.clone(), format!("vec of format!(\"k{{:x}}\", mix({}, i) % 1000) for i in 0..{}", seed, n))
        }
        Fii::Chars => {
            let alpha: Vec<char> = "aé€𝄞\n\r z".chars().collect();
            let s: String = (0..n as u64).map(|i| alpha[(mix(seed, i) % alpha.len() as u64) as usize]).collect();
            go!(char, || Ok(FromIntoIterator::from(s.chars())), s.chars().collect(), format!("{:?}.chars()", trunc(&s, 200)))
        }
        Fii::VecDequeRefs => {
            let v: std::collections::VecDeque<u8> = (0..n as u64).map(|i| mix(seed, i) as u8).collect();
            go!(u8, || Ok(FromIntoIterator::from(v.clone())), v.iter().copied().collect(), format!("VecDeque of (mix({}, i) as u8) for i in 0..{}", seed, n))
        }
    }
}

// ---------------------------------------------------------------- builder level

/// Wrapper counting rewinds and the items lent in each pass.
struct Counting<L> {
    inner: L,
    /// items lent in the passes so far (one entry per pass)
    passes: Arc<std::sync::Mutex<Vec<usize>>>,
    rewinds: Arc<AtomicUsize>,
}

impl<L> Counting<L> {
    fn new(inner: L) -> (Self, Arc<std::sync::Mutex<Vec<usize>>>, Arc<AtomicUsize>) {
        let passes = Arc::new(std::sync::Mutex::new(vec![0usize]));
        let rewinds = Arc::new(AtomicUsize::new(0));
        (
            Counting {
                inner,
                passes: passes.clone(),
                rewinds: rewinds.clone(),
            },
            passes,
            rewinds,
        )
    }
}

impl<'lend, L: Lender> lender::Lending<'lend> for Counting<L> {
    type Lend = lender::Lend<'lend, L>;
}

impl<L: Lender> Lender for Counting<L> {
    fn next(&mut self) -> Option<lender::Lend<'_, Self>> {
        let r = self.inner.next();
        if r.is_some() {
            *self.passes.lock().unwrap().last_mut().unwrap() += 1;
        }
        r
    }
}

impl<T: ?Sized, L: RewindableIoLender<T>> RewindableIoLender<T> for Counting<L> {
    type Error = L::Error;
    fn rewind(self) -> Result<Self, Self::Error> {
        let Counting { inner, passes, rewinds } = self;
        rewinds.fetch_add(1, Ordering::SeqCst);
        passes.lock().unwrap().push(0);
        inner.rewind().map(|inner| Counting { inner, passes, rewinds })
    }
}

type Func = sux::func::VFunc<str, usize, sux::bits::BitFieldVec<usize>>;

fn build_func(keys: impl RewindableIoLender<str>, n: usize, seed: u64) -> anyhow::Result<Func> {
    use dsi_progress_logger::no_logging;
    sux::func::VBuilder::<usize, sux::bits::BitFieldVec<usize>>::default()
        .seed(seed)
        .max_num_threads(2)
        .expected_num_keys(n)
        .try_build_func(keys, FromIntoIterator::from(0_usize..), no_logging![])
}

/// Looks for a builder seed whose first attempt fails on `text`'s keys (the
/// fault-free reference lender is a plain `LineLender` over a `Cursor`,
/// wrapped in `Counting`): returns (seed, rewinds).
fn find_retrying_seed(text: &str, n: usize, from: u64, tries: u64) -> Option<(u64, usize)> {
    for seed in from..from + tries {
        let (l, _passes, rewinds) = Counting::new(LineLender::new(Cursor::new(text.as_bytes().to_vec())));
        let r = catch(|| build_func(l, n, seed));
        let rw = rewinds.load(Ordering::SeqCst);
        if rw >= 1 && matches!(r, Ok(Ok(_))) {
            return Some((seed, rw));
        }
    }
    None
}

fn builder_case(c: &mut Case, fmt: Fmt, src: Src, take: bool, n: usize) {
    // distinct keys
    let tag: u32 = c.rng().random();
    let keys: Vec<String> = (0..n).map(|i| format!("key-{:08x}-{}", tag, i)).collect();
    let mut text = String::new();
    for (i, k) in keys.iter().enumerate() {
        text.push_str(k);
        text.push_str(if i % 4 == 1 { "\r\n" } else { "\n" });
    }
    let from: u64 = c.rng().random_range(0..1 << 40);
    let Some((seed, ref_rewinds)) = find_retrying_seed(&text, n, from, 3000) else {
        // nothing to judge: no seed of this batch needs a second attempt
        c.describe(|| format!("no retrying seed among {}..{} for {} keys tagged {:08x}", from, from + 3000, n, tag));
        c.set_cell(format!("builder|{}|no-retrying-seed", kind_name(fmt, src, take)));
        return;
    };
    let bytes: Vec<u8> = match fmt {
        Fmt::Plain => text.as_bytes().to_vec(),
        Fmt::Zstd(comp) => zstd_bytes(text.as_bytes(), comp),
        Fmt::Gzip(comp) => gzip_bytes(text.as_bytes(), comp),
    };
    let tmp = if matches!(src, Src::Path | Src::File) {
        let mut f = tempfile::NamedTempFile::new().expect("temp file");
        f.write_all(&bytes).expect("write temp file");
        f.flush().expect("flush temp file");
        Some(f)
    } else {
        None
    };
    let path = tmp.as_ref().map(|f| f.path().to_path_buf());
    let name = kind_name(fmt, src, take);
    let what = format!(
        "VBuilder::<usize, BitFieldVec<usize>>::default().seed({}).max_num_threads(2).expected_num_keys({}).try_build_func(keys, 0.., ..) with keys={}{} over the {} lines \"key-{:08x}-<i>\" (i in 0..{}, every 4th line CRLF); the same keys and seed over a plain LineLender<Cursor> needed {} rewind(s)",
        seed,
        n,
        name,
        if take { format!(" [.take({})]", n) } else { String::new() },
        n,
        tag,
        n,
        ref_rewinds
    );
    let es = |e: std::io::Error| e.to_string();
    // builds with the given lender, then judges
    macro_rules! go {
        ($mk:expr) => {{
            let l = match $mk {
                Ok(l) => l,
                Err(e) => {
                    c.fail("open", "error", &e, &format!("constructing the lender failed: {}; {}", e, what));
                    return;
                }
            };
            if take {
                let (l, passes, rewinds) = Counting::new(l.take(n));
                let r = catch(|| build_func(l, n, seed));
                (r, passes, rewinds)
            } else {
                let (l, passes, rewinds) = Counting::new(l);
                let r = catch(|| build_func(l, n, seed));
                (r, passes, rewinds)
            }
        }};
    }
    let (r, passes, rewinds) = match (fmt, src) {
        (Fmt::Plain, Src::Cursor) => go!(Ok::<_, String>(LineLender::new(Cursor::new(bytes.clone())))),
        (Fmt::Plain, Src::TinyBuf) => go!(Ok::<_, String>(LineLender::new(BufReader::with_capacity(3, Cursor::new(bytes.clone()))))),
        (Fmt::Plain, Src::Path) => go!(LineLender::from_path(path.as_ref().unwrap()).map_err(es)),
        (Fmt::Plain, Src::File) => go!(File::open(path.as_ref().unwrap()).map(LineLender::from_file).map_err(es)),
        (Fmt::Zstd(_), Src::Cursor | Src::TinyBuf) => go!(ZstdLineLender::new(Cursor::new(bytes.clone())).map_err(es)),
        (Fmt::Zstd(_), Src::Path) => go!(ZstdLineLender::from_path(path.as_ref().unwrap()).map_err(es)),
        (Fmt::Zstd(_), Src::File) => go!(File::open(path.as_ref().unwrap()).and_then(ZstdLineLender::from_file).map_err(es)),
        (Fmt::Gzip(_), Src::Cursor | Src::TinyBuf) => go!(GzipLineLender::new(Cursor::new(bytes.clone())).map_err(es)),
        (Fmt::Gzip(_), Src::Path) => go!(GzipLineLender::from_path(path.as_ref().unwrap()).map_err(es)),
        (Fmt::Gzip(_), Src::File) => go!(File::open(path.as_ref().unwrap()).and_then(GzipLineLender::from_file).map_err(es)),
    };
    let rw = rewinds.load(Ordering::SeqCst);
    let per_pass = passes.lock().unwrap().clone();
    c.tick(1);
    // every pass the builder made must have been lent all n keys
    if let Some((pi, &cnt)) = per_pass.iter().enumerate().find(|(_, &cnt)| cnt != n) {
        let op = if pi == 0 { "first_pass" } else { "pass_after_rewind" };
        c.fail(
            op,
            "mismatch",
            if cnt == 0 { "no items at all" } else { "fewer items than expected" },
            &format!("pass {} of the build was lent {} keys instead of {} (items per pass: {:?}); {}", pi + 1, cnt, n, per_pass, what),
        );
    }
    match r {
        Err(m) => c.fail("build_after_rewind", "panic", &m, &format!("the build panicked after {} rewind(s), items per pass {:?}; {}", rw, per_pass, what)),
        Ok(Err(e)) => c.fail(
            "build_after_rewind",
            "error",
            &format!("build failed: {}", e),
            &format!("the build returned Err({:#}) after {} rewind(s), items per pass {:?}; {}", e, rw, per_pass, what),
        ),
        Ok(Ok(f)) => {
            let mut wrong = 0;
            let mut first = None;
            for (i, k) in keys.iter().enumerate() {
                let got = catch(|| f.get(k.as_str()));
                if got != Ok(i) {
                    wrong += 1;
                    if first.is_none() {
                        first = Some((i, got));
                    }
                }
            }
            c.tick(n as u64);
            if wrong > 0 || f.len() != n {
                c.fail(
                    "build_after_rewind",
                    "mismatch",
                    "function built after a rewind does not map the keys",
                    &format!("{} of {} keys mapped wrongly (first: key #{:?}), len()={}; {} rewind(s), items per pass {:?}; {}", wrong, n, first, f.len(), rw, per_pass, what),
                );
            }
        }
    }
    if rw >= 1 {
        c.nontrivial();
    }
    c.set_cell(format!("builder|{}|n={}|{}", name, n, if rw >= 1 { "retried" } else { "no-retry" }));
    c.describe(|| what.clone());
}

// ---------------------------------------------------------------- main


// ---------------------------------------------------------------- sources that cannot seek

/// A readable source whose every seek fails (a pipe, a FIFO, stdin).
struct NoSeek<R>(R);
impl<R: std::io::Read> std::io::Read for NoSeek<R> {
    fn read(&mut self, buf: &mut [u8]) -> std::io::Result<usize> {
        self.0.read(buf)
    }
}
impl<R> std::io::Seek for NoSeek<R> {
    fn seek(&mut self, _pos: std::io::SeekFrom) -> std::io::Result<u64> {
        Err(std::io::Error::new(std::io::ErrorKind::Unsupported, "suxmon: this source cannot seek"))
    }
}

/// Polls `polls` items, then rewinds. A source that cannot seek cannot be
/// replayed: `rewind()` must report the error (held), or — if it returns Ok —
/// the next pass must still be the complete first pass (anything else means
/// the failure was swallowed).
fn unseekable_lender_case<L: RewindableIoLender<str>>(c: &mut Case, kind: &str, mk: &dyn Fn() -> Result<L, String>, expected: &[String], polls: usize, what: &dyn Fn() -> String) {
    let mut l = match catch(mk) {
        Ok(Ok(l)) => l,
        // a constructor may refuse such a source: nothing to judge
        Ok(Err(_)) | Err(_) => return,
    };
    let mut got = 0usize;
    let r = catch(|| {
        while got < polls {
            match l.next() {
                None => break,
                Some(Err(_)) => break,
                Some(Ok(x)) => {
                    let _ = x.to_owned();
                    got += 1;
                }
            }
        }
    });
    if r.is_err() {
        return; // a panic while reading an odd source is not this property's business
    }
    c.tick(1);
    match catch(|| l.rewind()) {
        Err(_) | Ok(Err(_)) => {} // the failure is reported: held
        Ok(Ok(mut l2)) => {
            let mut items: Vec<String> = Vec::new();
            let mut err = None;
            let r = catch(|| loop {
                match l2.next() {
                    None => break,
                    Some(Err(e)) => {
                        err = Some(format!("{}", e));
                        break;
                    }
                    Some(Ok(x)) => items.push(x.to_owned()),
                }
            });
            if r.is_ok() && err.is_none() && items != expected {
                c.fail(
                    "rewind_unseekable",
                    "mismatch",
                    "rewind() of a source that cannot seek returned Ok but the next pass is not the first pass",
                    &format!("{}: {} items polled, then rewind() returned Ok although every seek of the source fails; the next pass yields {} of {} items (first: {:?}); {}", kind, got, items.len(), expected.len(), items.first(), what()),
                );
            }
        }
    }
}

/// A build that has to retry (duplicate key, check_dups) over a line lender
/// whose source cannot seek must return an error: never Ok.
fn unseekable_builder_case(c: &mut Case, fmt: usize, n: usize) {
    use dsi_progress_logger::no_logging;
    let tag: u32 = c.rng().random();
    let mut text = String::new();
    for i in 0..n {
        text.push_str(&format!("key-{:08x}-{}\n", tag, i));
    }
    // the first key again: a duplicate, so the first attempt fails and a rewind is needed
    let dup = c.rng().random_range(0..n);
    text.push_str(&format!("key-{:08x}-{}\n", tag, dup));
    let bytes = match fmt {
        0 => text.as_bytes().to_vec(),
        1 => zstd_bytes(text.as_bytes(), Comp::Single),
        _ => gzip_bytes(text.as_bytes(), Comp::Single),
    };
    let what = format!("{} keys + key #{} repeated, {} source that cannot seek, check_dups(true)", n, dup, ["plain", "zstd", "gzip"][fmt]);
    c.describe(|| what.clone());
    let seed: u64 = c.rng().random();
    let build = |keys: &mut dyn FnMut() -> anyhow::Result<usize>| keys();
    let _ = build;
    let r: Result<anyhow::Result<usize>, String> = match fmt {
        0 => catch(|| {
            sux::func::VBuilder::<usize, Box<[usize]>>::default().seed(seed).check_dups(true).try_build_func(LineLender::new(BufReader::new(NoSeek(Cursor::new(bytes.clone())))), FromIntoIterator::from(0_usize..), no_logging![]).map(|f| f.len())
        }),
        1 => catch(|| {
            let l = ZstdLineLender::new(NoSeek(Cursor::new(bytes.clone())))?;
            sux::func::VBuilder::<usize, Box<[usize]>>::default().seed(seed).check_dups(true).try_build_func(l, FromIntoIterator::from(0_usize..), no_logging![]).map(|f| f.len())
        }),
        _ => catch(|| {
            let l = GzipLineLender::new(NoSeek(Cursor::new(bytes.clone())))?;
            sux::func::VBuilder::<usize, Box<[usize]>>::default().seed(seed).check_dups(true).try_build_func(l, FromIntoIterator::from(0_usize..), no_logging![]).map(|f| f.len())
        }),
    };
    c.tick(1);
    if let Ok(Ok(len)) = r {
        c.fail(
            "build_unseekable",
            "ok-after-failed-rewind",
            "try_build_func returned Ok although its key source could not be rewound",
            &format!("try_build_func returned Ok (function over {} keys) for {}: the first attempt must fail on the duplicate and the input cannot be replayed", len, what),
        );
    }
    c.nontrivial();
}

// ---------------------------------------------------------------- error items

/// One item of a pass over raw bytes: a line, or the kind of the error lent in its place.
type RawItem = Result<String, String>;

/// What a line lender lends over `raw`: the bytes up to each LF are validated as a
/// whole; an invalid UTF-8 line is lent as an error (and skipped), a valid one
/// without its LF / CRLF.
fn model_raw_items(raw: &[u8]) -> Vec<RawItem> {
    let mut v = Vec::new();
    let mut rest = raw;
    while !rest.is_empty() {
        let end = rest.iter().position(|&b| b == b'\n').map(|p| p + 1).unwrap_or(rest.len());
        let (line, tail) = rest.split_at(end);
        rest = tail;
        match std::str::from_utf8(line) {
            Ok(s) => {
                let s = s.strip_suffix('\n').map(|s| s.strip_suffix('\r').unwrap_or(s)).unwrap_or(s);
                v.push(Ok(s.to_string()));
            }
            Err(_) => v.push(Err("InvalidData".to_string())),
        }
    }
    v
}

fn raw_inputs() -> Vec<(&'static str, Vec<u8>)> {
    let mut v: Vec<(&'static str, Vec<u8>)> = vec![
        ("invalid-middle-line", b"alpha\nbr\xffvo\ncharlie\ndelta".to_vec()),
        ("invalid-first-line", b"\xff\xfe\nok\nlast\n".to_vec()),
        ("invalid-last-line-no-newline", b"a\nb\n\xc3".to_vec()),
        ("only-invalid", b"\x80".to_vec()),
        ("invalid-crlf-lines", b"x\r\n\xf0\x9f\r\ny\r\n".to_vec()),
        ("several-invalid-lines", b"\xff\n\xff\nmid\n\xff\nz".to_vec()),
        ("truncated-multibyte-then-valid", b"caf\xc3\n\xa9\nplain\n".to_vec()),
    ];
    let mut long = Vec::new();
    for i in 0..300 {
        if i % 7 == 3 {
            long.extend_from_slice(format!("bad{}\u{0}", i).as_bytes());
            long.push(0xf8);
            long.push(b'\n');
        } else {
            long.extend_from_slice(format!("line number {}\n", i).as_bytes());
        }
    }
    v.push(("long-every-7th-invalid", long));
    let mut edge = vec![b'a'; 8191];
    edge.extend_from_slice(b"\xff\nafter the boundary\n");
    edge.extend_from_slice(&vec![b'b'; 8192 - 20]);
    edge.extend_from_slice(b"\xe2\x82\nend");
    v.push(("invalid-at-buffer-boundary", edge));
    v
}

/// Histories over a lender whose passes contain error items: every pass must lend
/// the item sequence of the first pass (errors included, compared by kind).
fn run_raw_hists<L>(c: &mut Case, mk: &dyn Fn() -> Result<L, String>, model: &[RawItem], hists: &[Vec<usize>], what: &dyn Fn() -> String)
where
    L: RewindableIoLender<str, Error = std::io::Error>,
{
    let cap = model.len() + 1000;
    let take_items = |l: &mut L, polls: usize| -> (Vec<RawItem>, bool) {
        let mut v = Vec::new();
        let mut ended = false;
        while v.len() < polls {
            let item: Option<Result<&str, std::io::Error>> = l.next();
            match item {
                None => {
                    ended = true;
                    break;
                }
                Some(Ok(x)) => v.push(Ok(x.to_owned())),
                Some(Err(e)) => v.push(Err(format!("{:?}", e.kind()))),
            }
        }
        (v, ended)
    };
    let first: Vec<RawItem> = match catch(|| mk().map(|mut l| take_items(&mut l, cap).0)) {
        Ok(Ok(v)) => v,
        Ok(Err(e)) => {
            c.fail("first_pass", "error", "cannot create the lender", &format!("{}; {}", e, what()));
            return;
        }
        Err(m) => {
            c.fail("first_pass", "panic", &m, &format!("first pass panicked; {}", what()));
            return;
        }
    };
    c.check("first_pass", first == model, || format!("a fresh lender lends {} items {}, the input has {} items {}; {}", first.len(), trunc(&format!("{:?}", first), 400), model.len(), trunc(&format!("{:?}", model), 400), what()));
    for hist in hists {
        let r = catch(|| -> Result<(), (String, String)> {
            let mut l = mk().map_err(|e| ("error".to_string(), e))?;
            for (p, &polls) in hist.iter().enumerate() {
                let (got, _) = take_items(&mut l, polls);
                if got[..] != first[..got.len().min(first.len())] || got.len() > first.len() {
                    return Err(("mismatch".into(), format!("pass {} (after {} rewinds) lends {} where the first pass lends {}", p + 1, p, trunc(&format!("{:?}", got), 400), trunc(&format!("{:?}", &first[..got.len().min(first.len())]), 400))));
                }
                l = l.rewind().map_err(|e| ("error".to_string(), format!("rewind() #{} returned Err({})", p + 1, e)))?;
            }
            let (got, ended) = take_items(&mut l, cap);
            if got != first || !ended {
                let at = got.iter().zip(first.iter()).position(|(a, b)| a != b).unwrap_or(got.len().min(first.len()));
                return Err(("mismatch".into(), format!("the pass after {} rewinds lends {} items, the first pass {}; first difference at item #{}: got {} first pass {}", hist.len(), got.len(), first.len(), at, trunc(&format!("{:?}", got.get(at)), 200), trunc(&format!("{:?}", first.get(at)), 200))));
            }
            Ok(())
        });
        c.tick(first.len() as u64 + 1);
        match r {
            Ok(Ok(())) => {}
            Ok(Err((kind, d))) => c.fail("histories_with_error_items", &kind, if kind == "mismatch" { "a pass after a rewind differs from the first pass" } else { "error" }, &format!("{}; history: poll {:?} then rewind each time, then read to the end; {}", d, hist, what())),
            Err(m) => c.fail("histories_with_error_items", "panic", &m, &format!("panicked; history {:?}; {}", hist, what())),
        }
    }
}

fn raw_lender_case(c: &mut Case, fmt: usize, src: Src, raw: &[u8]) {
    let model = model_raw_items(raw);
    let n = model.len();
    let bytes: Vec<u8> = match fmt {
        0 => raw.to_vec(),
        1 => zstd_bytes(raw, Comp::Single),
        _ => gzip_bytes(raw, Comp::Single),
    };
    let tmp = if matches!(src, Src::Path | Src::File) {
        let mut f = tempfile::NamedTempFile::new().expect("temp file");
        f.write_all(&bytes).expect("write temp file");
        f.flush().expect("flush temp file");
        Some(f)
    } else {
        None
    };
    let path = tmp.as_ref().map(|f| f.path().to_path_buf());
    let hists = histories(n, false);
    let what = || format!("{} over {} raw bytes {:?} ({} items, {} of them errors)", ["LineLender", "ZstdLineLender", "GzipLineLender"][fmt], raw.len(), trunc(&String::from_utf8_lossy(raw), 120), n, model.iter().filter(|x| x.is_err()).count());
    let es = |e: std::io::Error| e.to_string();
    match (fmt, src) {
        (0, Src::Cursor) => run_raw_hists(c, &|| Ok(LineLender::new(Cursor::new(bytes.clone()))), &model, &hists, &what),
        (0, Src::TinyBuf) => run_raw_hists(c, &|| Ok(LineLender::new(BufReader::with_capacity(3, Cursor::new(bytes.clone())))), &model, &hists, &what),
        (0, Src::Path) => run_raw_hists(c, &|| LineLender::from_path(path.as_ref().unwrap()).map_err(es), &model, &hists, &what),
        (0, Src::File) => run_raw_hists(c, &|| File::open(path.as_ref().unwrap()).map(LineLender::from_file).map_err(es), &model, &hists, &what),
        (1, Src::Path) => run_raw_hists(c, &|| ZstdLineLender::from_path(path.as_ref().unwrap()).map_err(es), &model, &hists, &what),
        (1, _) => run_raw_hists(c, &|| ZstdLineLender::new(Cursor::new(bytes.clone())).map_err(es), &model, &hists, &what),
        (_, Src::Path) => run_raw_hists(c, &|| GzipLineLender::from_path(path.as_ref().unwrap()).map_err(es), &model, &hists, &what),
        (_, _) => run_raw_hists(c, &|| GzipLineLender::new(Cursor::new(bytes.clone())).map_err(es), &model, &hists, &what),
    }
    if n >= 2 {
        c.nontrivial();
    }
    c.describe(|| what());
}

fn main() {
    let mut ctx = Ctx::from_args("C20");
    ctx.set_hang_limit(180);
    let small = ctx.small;
    let kinds = all_line_kinds(small);
    let inputs = named_inputs(ctx.thorough());

    // 0. sources that cannot seek: a failed rewind must not be swallowed
    for (iname, text) in &inputs {
        let expected = model_lines(text);
        let n = expected.len();
        for fmt in 0..3usize {
            if small && fmt != 0 {
                continue; // zstd is C code: not under Miri
            }
            let kind = ["LineLender/unseekable", "ZstdLineLender/unseekable", "GzipLineLender/unseekable"][fmt];
            ctx.case(kind, iname, "rewind_unseekable", |c| {
                let bytes = match fmt {
                    0 => text.as_bytes().to_vec(),
                    1 => zstd_bytes(text.as_bytes(), Comp::Single),
                    _ => gzip_bytes(text.as_bytes(), Comp::Single),
                };
                for polls in [0usize, 1, n / 2, n, n + 1] {
                    let what = || format!("input {:?} ({} lines), {} polls before the rewind", iname, n, polls);
                    match fmt {
                        0 => unseekable_lender_case(c, kind, &|| Ok(LineLender::new(BufReader::new(NoSeek(Cursor::new(bytes.clone()))))), &expected, polls, &what),
                        1 => unseekable_lender_case(c, kind, &|| ZstdLineLender::new(NoSeek(Cursor::new(bytes.clone()))).map_err(|e| e.to_string()), &expected, polls, &what),
                        _ => unseekable_lender_case(c, kind, &|| GzipLineLender::new(NoSeek(Cursor::new(bytes.clone()))).map_err(|e| e.to_string()), &expected, polls, &what),
                    }
                }
                if n >= 2 {
                    c.nontrivial();
                }
                c.describe(|| format!("{} over {}", kind, show_text(text)));
            });
        }
    }
    if !small {
        for fmt in 0..3usize {
            for n in [10usize, 100, 1000] {
                let kind = ["VBuilder+LineLender/unseekable", "VBuilder+ZstdLineLender/unseekable", "VBuilder+GzipLineLender/unseekable"][fmt];
                ctx.case(kind, &format!("forced-retry/n{}", n), "build_unseekable", |c| unseekable_builder_case(c, fmt, n));
            }
        }
    }

    // 0b. passes that contain error items (invalid UTF-8 lines): the items of every
    //     pass, errors included, are those of the first pass
    for (iname, raw) in raw_inputs() {
        for fmt in 0..3usize {
            if small && fmt != 0 {
                continue;
            }
            for src in [Src::Cursor, Src::TinyBuf, Src::Path, Src::File] {
                if (fmt != 0 && src == Src::TinyBuf) || (small && src != Src::Cursor) {
                    continue;
                }
                let kind = format!("{}/{}", ["LineLender", "ZstdLineLender", "GzipLineLender"][fmt], src.name());
                ctx.case(&kind, &format!("error-items/{}", iname), "histories_with_error_items", |c| raw_lender_case(c, fmt, src, &raw));
            }
        }
    }

    // 1. every line lender kind x every named input: all histories, without
    //    take; then take(m) for the five classes of m, split by poll class
    for &(fmt, src) in &kinds {
        for (iname, text) in &inputs {
            let n = model_lines(text).len();
            ctx.case(&kind_name(fmt, src, false), iname, "histories", |c| {
                let h = histories(n, false);
                run_line_lender(c, fmt, src, text, None, &h);
                if n >= 2 {
                    c.nontrivial();
                }
                c.describe(|| format!("text={} histories={:?}", show_text(text), h));
            });
            let mut ms = vec![0, 1, n.saturating_sub(1), n, n + 5];
            ms.dedup();
            for &m in &ms {
                for pc in [PollClass::NoPoll, PollClass::Polled] {
                    let stratum = format!("take/{}", if pc == PollClass::NoPoll { "no-poll-before-rewind" } else { "polled-before-rewind" });
                    ctx.case(&kind_name(fmt, src, true), &stratum, "histories", |c| {
                        let h = filter_hists(histories(m.min(n), false), pc);
                        run_line_lender(c, fmt, src, text, Some(m), &h);
                        if m.min(n) >= 2 {
                            c.nontrivial();
                        }
                        c.set_cell(format!("{}|{}|{}|{}", kind_name(fmt, src, true), iname, take_class(m, n), stratum));
                        c.describe(|| format!("take({}) text={} histories={:?}", m, show_text(text), h));
                    });
                }
            }
        }
    }

    // 2. FromIntoIterator over ranges / vectors / strings
    for kind in Fii::ALL {
        for n in [0usize, 1, 2, 7, 100] {
            ctx.case(kind.name(), &format!("n={}", n), "histories", |c| {
                run_fii(c, kind, n, None, PollClass::All);
                if n >= 2 {
                    c.nontrivial();
                }
                c.describe(|| format!("{} with {} items, histories={:?}", kind.name(), n, histories(n, false)));
            });
            let mut ms = vec![0, 1, n.saturating_sub(1), n, n + 5];
            ms.dedup();
            for &m in &ms {
                for pc in [PollClass::NoPoll, PollClass::Polled] {
                    let stratum = format!("take/{}", if pc == PollClass::NoPoll { "no-poll-before-rewind" } else { "polled-before-rewind" });
                    ctx.case(&format!("Take<{}>", kind.name()), &stratum, "histories", |c| {
                        run_fii(c, kind, n, Some(m), pc);
                        if m.min(n) >= 2 {
                            c.nontrivial();
                        }
                        c.set_cell(format!("Take<{}>|n={}|{}|{}", kind.name(), n, take_class(m, n), stratum));
                        c.describe(|| format!("{} with {} items .take({}), histories={:?}", kind.name(), n, m, filter_hists(histories(m.min(n), false), pc)));
                    });
                }
            }
        }
    }

    // 3. multi-member gzip streams (`cat a.gz b.gz`): a stratum of its own
    if !small {
        for src in [Src::Cursor, Src::Path, Src::File] {
            for (iname, text) in &inputs {
                let n = model_lines(text).len();
                ctx.case(&kind_name(Fmt::Gzip(Comp::MultiFrame), src, false), "gzip-multi-member", "histories", |c| {
                    let h = histories(n, false);
                    run_line_lender(c, Fmt::Gzip(Comp::MultiFrame), src, text, None, &h);
                    if n >= 2 {
                        c.nontrivial();
                    }
                    c.set_cell(format!("{}|gzip-multi-member|{}", kind_name(Fmt::Gzip(Comp::MultiFrame), src, false), iname));
                    c.describe(|| format!("text={} cut into 3 gzip members; histories={:?}", show_text(text), h));
                });
            }
        }
    }

    // 4. big inputs (1 MB line, 10^5 lines; 10^6 in thorough), few histories
    if !small {
        let bigs = big_inputs(ctx.thorough());
        for &(fmt, src) in &kinds {
            if src == Src::TinyBuf {
                continue;
            }
            for (iname, text) in &bigs {
                let n = model_lines(text).len();
                ctx.case(&kind_name(fmt, src, false), iname, "histories", |c| {
                    let h = histories(n, true);
                    run_line_lender(c, fmt, src, text, None, &h);
                    c.nontrivial();
                    c.describe(|| format!("text={} histories={:?}", show_text(text), h));
                });
                ctx.case(&kind_name(fmt, src, true), "take/polled-before-rewind", "histories", |c| {
                    let h = vec![vec![n / 2], vec![n, 1]];
                    run_line_lender(c, fmt, src, text, Some(n - 1), &h);
                    c.nontrivial();
                    c.set_cell(format!("{}|{}|take(n-1)|take/polled-before-rewind", kind_name(fmt, src, true), iname));
                    c.describe(|| format!("take({}) text={} histories={:?}", n - 1, show_text(text), h));
                });
            }
        }
    }

    // 5. the builder-level consequence: a build whose first attempt fails
    //    must be lent all the keys again
    if !small {
        let reps = ctx.scale(1, 2, 9);
        for rep in 0..reps {
            for &(fmt, src) in &kinds {
                if src == Src::TinyBuf {
                    continue;
                }
                for take in [false, true] {
                    let n = [40usize, 200, 1000][rep % 3];
                    let variant = format!("VBuilder+{}", kind_name(fmt, src, take));
                    // (a Take is consumed by the first attempt, hence "polled")
                    ctx.case(&variant, if take { "forced-retry/take/polled-before-rewind" } else { "forced-retry" }, "build_after_rewind", |c| builder_case(c, fmt, src, take, n));
                }
            }
        }
    }

    // 6. random rounds: random text, kind, take and history
    let rounds = ctx.scale(20, 12_000, 300_000);
    for r in 0..rounds {
        let (fmt, src) = kinds[r % kinds.len()];
        let mut g = ctx.rng(r as u64);
        let take_mode = g.random_range(0..4); // 0,1: none; 2: untouched take; 3: polled take
        let (variant, stratum) = match take_mode {
            0 | 1 => (kind_name(fmt, src, false), "random".to_string()),
            2 => (kind_name(fmt, src, true), "take/no-poll-before-rewind".to_string()),
            _ => (kind_name(fmt, src, true), "take/polled-before-rewind".to_string()),
        };
        ctx.case(&variant, &stratum, "histories", |c| {
            let text = random_text(c.rng());
            let n = model_lines(&text).len();
            let take = match take_mode {
                0 | 1 => None,
                _ => Some(match c.rng().random_range(0..6) {
                    0 => 0,
                    1 => 1,
                    2 => n.saturating_sub(1),
                    3 => n,
                    4 => n + 5,
                    _ => c.rng().random_range(0..=n + 2),
                }),
            };
            let en = take.map(|m| m.min(n)).unwrap_or(n);
            let mut hists: Vec<Vec<usize>> = Vec::new();
            for _ in 0..4 {
                let len = c.rng().random_range(1..=4);
                let h: Vec<usize> = (0..len)
                    .map(|_| {
                        if take_mode == 2 {
                            0
                        } else {
                            match c.rng().random_range(0..8) {
                                0 => 0,
                                1 => 1,
                                2 => en / 2,
                                3 => en.saturating_sub(1),
                                4 => en,
                                5 => en + 1,
                                _ => c.rng().random_range(0..=en + 2),
                            }
                        }
                    })
                    .collect();
                if take_mode == 3 && h.iter().all(|&x| x == 0) {
                    continue;
                }
                hists.push(h);
            }
            run_line_lender(c, fmt, src, &text, take, &hists);
            if en >= 2 && !hists.is_empty() {
                c.nontrivial();
            }
            c.set_cell(format!("rand:{:016x}", hash_str(&format!("{}|{:?}|{:?}|{:?}", kind_name(fmt, src, take.is_some()), take, hists, hash_str(&text)))));
            c.describe(|| format!("take={:?} text={} histories={:?}", take, show_text(&text), hists));
        });
        if ctx.out_of_time() {
            break;
        }
    }
    ctx.finish();
}
