//! C11 — every structure stays within its documented space overhead.
//!
//! Observed: `mem_dbg::MemSize::mem_size(SizeFlags::default())` minus
//! `size_of_val` of the struct itself (the "few words" of the statement), i.e.
//! the heap part; for rank/select structures the heap part of the wrapped
//! structure is subtracted too, giving the *extra* space.
//!
//! Oracle: bounds written here from the documentation / the property
//! statement — nothing is computed by calling sux. The additive constants
//! ("a few words or blocks") allowed on top of the stated factors are:
//!
//! * `BitVec`: `ceil(len/64)` words **+ 1 word**; `BitFieldVec<W>`:
//!   `ceil(len*width/W::BITS)` words **+ 1 word** (covers the documented
//!   one-word minimum of `new`) **+ 1 padding word** for `new_unaligned`.
//!   Vectors made by `new`/`with_value`/`new_unaligned` are also measured with
//!   `SizeFlags::CAPACITY` (their capacity is exact).
//! * rank structures: `ratio * words * 8` bytes **+ 2 counter blocks**
//!   (`Rank9`: 16-byte blocks, one is the sentinel; `RankSmall`: 12/8/8/8/16-
//!   byte blocks) **+ 8 bytes per started 2^32 bits** (`RankSmall` upper counts).
//! * `Select9` over its `Rank9`: `0.375 * words * 8` bytes **+ 64 bytes**.
//! * Elias–Fano without selection: `n * (2 + max(0, lg(u/n)))` bits
//!   **+ 3 words** (one bit for `n + (u >> l) + 1`, word rounding of the two
//!   arrays, one-word minimum of the lower-bits array).
//! * functions / filters with b-bit values: `cells * b` bits **+ 3 words**
//!   (word rounding, padding word of the bit-field back-end) with
//!   `cells <= ceil(C(n) * n) + k * shards(n) * seg(n) + 16`, `C(n) = 1.23`
//!   below 100 000 keys and `1.135` from there on; `seg(n)` is the documented
//!   segment size (`2^floor(0.85 ln m)` for shards of `m` keys solved by lazy
//!   Gaussian elimination, `2^floor(ln n / ln 3.33 + 2.25)` for peelable fuse
//!   graphs, at most 2^18 without shards), `shards(n)` the documented number
//!   of shards (`2^floor(lg(n / 50 000))` up to 800 000 keys for the sharded
//!   logics, 1 otherwise up to 2*10^7 keys). `k = 1` segment per shard pays for
//!   rounding the shard's graph to whole segments; when there are several
//!   shards `k = 2`: the second segment pays for the builder's documented
//!   tolerance (a seed is accepted if the largest shard is within 1 % of the
//!   average, so a shard of average size m may take 1.125 * 1.01 * m cells,
//!   i.e. 0.00125 * m <= 125 cells more than 1.135 * m — less than one
//!   512-cell segment for every shard size of that regime).
//!   The `+ 16` cells pay for the three-segment minimum on 0..2 keys and the
//!   inner ceiling.
use mem_dbg::{MemSize, SizeFlags};
use rand::rngs::SmallRng;
use rand::{Rng, RngCore};
use sux::bits::{BitFieldVec, BitVec};
use sux::dict::{EliasFanoBuilder, EliasFanoConcurrentBuilder};
use sux::func::shard_edge::{FuseLge3FullSigs, FuseLge3NoShards, FuseLge3Shards};
use sux::func::VBuilder;
use sux::rank_sel::{Rank9, RankSmall, Select9};
use sux::traits::BitFieldSliceMut;
use sux::utils::FromIntoIterator;
use suxmon::gen::*;
use suxmon::obs::*;

fn heap<T: MemSize>(x: &T) -> usize {
    x.mem_size(SizeFlags::default()) - std::mem::size_of_val(x)
}

fn heap_cap<T: MemSize>(x: &T) -> usize {
    x.mem_size(SizeFlags::CAPACITY) - std::mem::size_of_val(x)
}

// ---------------------------------------------------------------------------
// bit vectors and bit-field vectors

const BV_CTORS: &[&str] = &["new", "with_value", "collect", "push", "extend", "resize-grow", "with_capacity+push", "extend-batches", "mixed-growth", "macro"];

fn bitvec_case(c: &mut Case, ctor: &str, lens: &[usize]) {
    let mut shown = Vec::new();
    for &len in lens {
        let r = catch(|| -> (usize, Option<usize>) {
            match ctor {
                "new" => {
                    let b = BitVec::new(len);
                    (heap(&b), Some(heap_cap(&b)))
                }
                "with_value" => {
                    let b = BitVec::with_value(len, len % 2 == 0);
                    (heap(&b), Some(heap_cap(&b)))
                }
                "collect" => {
                    let b: BitVec = (0..len).map(|i| i % 3 == 0).collect();
                    (heap(&b), None)
                }
                "push" => {
                    let mut b = BitVec::new(0);
                    for i in 0..len {
                        b.push(i % 5 == 0);
                    }
                    (heap(&b), None)
                }
                "extend" => {
                    let mut b = BitVec::new(len / 3);
                    b.extend((0..len - len / 3).map(|i| i % 2 == 0));
                    (heap(&b), None)
                }
                "resize-grow" => {
                    let mut b = BitVec::new(len / 2);
                    b.resize(len, true);
                    (heap(&b), None)
                }
                "with_capacity+push" => {
                    let mut b = BitVec::with_capacity(len);
                    for i in 0..len {
                        b.push(i % 7 == 0);
                    }
                    (heap(&b), None)
                }
                "extend-batches" => {
                    // grown by many small extensions at lengths that are not word-aligned
                    let mut b = BitVec::new(len % 37);
                    let mut k = 0usize;
                    while b.len() < len {
                        let batch = (1 + (k * 7) % 69).min(len - b.len());
                        b.extend((0..batch).map(|i| (i + k) % 3 == 0));
                        k += 1;
                    }
                    (heap(&b), None)
                }
                "mixed-growth" => {
                    // pushes, extensions, growing resizes and collect interleaved
                    let mut b: BitVec = (0..len % 11).map(|i| i % 2 == 0).collect();
                    let mut k = 0usize;
                    while b.len() < len {
                        let left = len - b.len();
                        match k % 4 {
                            0 => b.push(k % 3 == 0),
                            1 => b.extend((0..(1 + (k * 5) % 40).min(left)).map(|i| i % 2 == 1)),
                            2 => {
                                let nl = b.len() + (1 + (k * 3) % 130).min(left);
                                b.resize(nl, k % 2 == 0)
                            }
                            _ => b.extend(std::iter::repeat(true).take(1.min(left))),
                        }
                        k += 1;
                    }
                    (heap(&b), None)
                }
                _ => {
                    let b = if len % 2 == 0 { sux::bit_vec![false; len] } else { sux::bit_vec![true; len] };
                    (heap(&b), None)
                }
            }
        });
        let Ok((h, hc)) = r else { continue };
        let bound = (len.div_ceil(64) + 1) * 8;
        c.check("mem_size", h <= bound, || format!("BitVec built by {} with len {}: heap part of mem_size(default) = {} bytes > ceil(len/64)+1 words = {} bytes", ctor, len, h, bound));
        if let Some(hc) = hc {
            c.check("mem_size_capacity", hc <= bound, || format!("BitVec::{}({}): heap part of mem_size(CAPACITY) = {} bytes > ceil(len/64)+1 words = {} bytes", ctor, len, hc, bound));
        }
        if len > 128 {
            c.nontrivial();
        }
        shown.push(len);
    }
    c.describe(|| format!("ctor={} lens={:?}", ctor, shown));
}

const BFV_CTORS: &[&str] = &["new", "new_unaligned", "push", "with_capacity+push", "resize-grow", "extend", "extend-batches", "from_slice", "macro", "rejected-ops"];

macro_rules! bfv_size {
    ($c:ident, $W:ty, $wname:expr, $ctor:expr, $pairs:expr) => {{
        let bits = <$W>::BITS as usize;
        let wbytes = bits / 8;
        for &(width, len) in $pairs {
            let width: usize = width.min(bits);
            let maxv: $W = if width == 0 { 0 } else { <$W>::MAX >> (bits - width) };
            let r = catch(|| -> (usize, Option<usize>, usize) {
                match $ctor {
                    "new" => {
                        let v = BitFieldVec::<$W>::new(width, len);
                        (heap(&v), Some(heap_cap(&v)), 0)
                    }
                    "new_unaligned" => {
                        let v = BitFieldVec::<$W>::new_unaligned(width, len);
                        (heap(&v), Some(heap_cap(&v)), 1)
                    }
                    "push" => {
                        let mut v = BitFieldVec::<$W>::new(width, 0);
                        for i in 0..len {
                            v.push(if i % 2 == 0 { maxv } else { 0 });
                        }
                        (heap(&v), None, 0)
                    }
                    "with_capacity+push" => {
                        let mut v = BitFieldVec::<$W>::with_capacity(width, len);
                        for _ in 0..len {
                            v.push(maxv);
                        }
                        (heap(&v), None, 0)
                    }
                    "resize-grow" => {
                        let mut v = BitFieldVec::<$W>::new(width, len / 2);
                        v.resize(len, maxv);
                        (heap(&v), None, 0)
                    }
                    "extend" => {
                        let mut v = BitFieldVec::<$W>::new(width, len / 4);
                        v.extend((0..len - len / 4).map(|_| maxv));
                        (heap(&v), None, 0)
                    }
                    "extend-batches" => {
                        // grown by many small extensions, pushes and growing resizes
                        let mut v = BitFieldVec::<$W>::new(width, len % 5);
                        let mut k = 0usize;
                        while sux::traits::BitFieldSliceCore::<$W>::len(&v) < len {
                            let left = len - sux::traits::BitFieldSliceCore::<$W>::len(&v);
                            match k % 3 {
                                0 => v.extend((0..(1 + (k * 7) % 23).min(left)).map(|_| maxv)),
                                1 => v.push(0),
                                _ => {
                                    let nl = sux::traits::BitFieldSliceCore::<$W>::len(&v) + (1 + (k * 3) % 17).min(left);
                                    v.resize(nl, maxv)
                                }
                            }
                            k += 1;
                        }
                        (heap(&v), None, 0)
                    }
                    "rejected-ops" => {
                        // operations rejected by a panic (a value that does not fit, an index out of
                        // range) leave the vector as it was: its size too
                        let mut v = BitFieldVec::<$W>::new(width, len);
                        if width < bits {
                            let big: $W = <$W>::MAX;
                            let _ = catch(|| v.resize(len + 1_000_000, big));
                            let _ = catch(|| v.push(big));
                            let _ = catch(|| v.extend([big, big, big]));
                            if len > 0 {
                                let _ = catch(|| v.set(0, big));
                            }
                        }
                        let _ = catch(|| v.set(len + 1_000_000, 0));
                        let _ = catch(|| sux::traits::BitFieldSlice::<$W>::get(&v, len + 1_000_000));
                        assert_eq!(sux::traits::BitFieldSliceCore::<$W>::len(&v), len, "harness: a rejected operation changed the length");
                        (heap(&v), None, 0)
                    }
                    "from_slice" => {
                        // the source holds the all-ones value of `width` bits, so the
                        // documented "minimum width sufficient to hold all values" is
                        // `width` (not exercised for width 0 / empty sources, where the
                        // width chosen for the value 0 is C05's business, not a size matter)
                        if width == 0 || len == 0 {
                            return (0, None, 0);
                        }
                        let mut s = BitFieldVec::<$W>::new(width, len);
                        if len > 0 {
                            s.set(len - 1, maxv);
                        }
                        let v = BitFieldVec::<$W>::from_slice(&s).expect("from_slice");
                        (heap(&v), None, 0)
                    }
                    _ => (0, None, 0),
                }
            });
            let Ok((h, hc, pad)) = r else { continue };
            let bound = ((len * width).div_ceil(bits) + 1 + pad) * wbytes;
            $c.check("mem_size", h <= bound, || {
                format!("BitFieldVec<{}> built by {} with width {} len {}: heap part of mem_size(default) = {} bytes > ceil(len*width/{})+1{} words = {} bytes", $wname, $ctor, width, len, h, bits, if pad == 1 { "+1 (padding)" } else { "" }, bound)
            });
            if let Some(hc) = hc {
                $c.check("mem_size_capacity", hc <= bound, || {
                    format!("BitFieldVec::<{}>::{}({}, {}): heap part of mem_size(CAPACITY) = {} bytes > bound {} bytes", $wname, $ctor, width, len, hc, bound)
                });
            }
            if len * width > 2 * bits {
                $c.nontrivial();
            }
        }
    }};
}

fn bfv_pairs(rng: &mut SmallRng, bits: usize, k: usize, maxlen: usize) -> Vec<(usize, usize)> {
    let mut v: Vec<(usize, usize)> = vec![(0, 0), (0, 10), (1, 0), (bits, 0), (1, 1), (bits, 1), (1, bits), (1, bits + 1), (bits, 7), (bits - 1, bits), (bits - 1, bits + 1), (3, 0)];
    for _ in 0..k {
        let w = match rng.random_range(0..6) {
            0 => 0,
            1 => bits,
            _ => rng.random_range(1..=bits),
        };
        let len = if w > 0 && rng.random_bool(0.3) {
            // element count ending exactly at / next to a word boundary
            ((bits * rng.random_range(1..40usize)) / w + rng.random_range(0..2usize)).min(maxlen)
        } else {
            rng.random_range(0..maxlen)
        };
        v.push((w, len));
    }
    v
}

fn vectors(ctx: &mut Ctx) {
    let reps = ctx.scale(1, 3, 20);
    for _ in 0..reps {
        for &ctor in BV_CTORS {
            ctx.case("BitVec", ctor, "mem_size", |c| {
                let mut lens: Vec<usize> = LEN_EDGES.to_vec();
                for _ in 0..40 {
                    lens.push(c.rng().random_range(0..20_000));
                }
                lens.push(c.rng().random_range(100_000..2_000_000));
                bitvec_case(c, ctor, &lens);
            });
        }
        for &ctor in BFV_CTORS {
            if ctor == "macro" {
                ctx.case("BitFieldVec<usize>", ctor, "mem_size", |c| {
                    for _ in 0..60 {
                        let w = c.rng().random_range(0..=64usize);
                        let n = c.rng().random_range(0..3000usize);
                        let v = if w == 64 { usize::MAX } else { (1usize << w) - 1 };
                        let Ok(h) = catch(|| {
                            let b = if n % 2 == 0 { sux::bit_field_vec![w; n; v] } else { sux::bit_field_vec![w => v; n] };
                            heap(&b)
                        }) else {
                            continue;
                        };
                        let bound = ((n * w).div_ceil(64) + 1) * 8;
                        c.check("mem_size", h <= bound, || format!("bit_field_vec![{}; {}; {}]: heap part of mem_size(default) = {} bytes > bound {} bytes", w, n, v, h, bound));
                        if n * w > 128 {
                            c.nontrivial();
                        }
                    }
                    let b = sux::bit_field_vec![5; 1, 2, 3, 4, 5, 6, 7, 8, 9, 10, 11, 12, 13];
                    let h = heap(&b);
                    c.check("mem_size", h <= 16, || format!("bit_field_vec![5; 1..=13]: heap {} bytes > 2 words", h));
                    let e = sux::bit_field_vec![13];
                    let h = heap(&e);
                    c.check("mem_size", h <= 8, || format!("bit_field_vec![13]: heap {} bytes > 1 word", h));
                    c.describe(|| "60 random (w, n) for the macro forms".into());
                });
                continue;
            }
            macro_rules! one {
                ($W:ty, $wname:expr) => {
                    ctx.case(concat!("BitFieldVec<", $wname, ">"), ctor, "mem_size", |c| {
                        let pairs = bfv_pairs(c.rng(), <$W>::BITS as usize, 60, 6000);
                        bfv_size!(c, $W, $wname, ctor, &pairs);
                        c.describe(|| format!("ctor={} (width,len)={:?}", ctor, pairs));
                    });
                };
            }
            one!(usize, "usize");
            one!(u64, "u64");
            one!(u32, "u32");
            one!(u16, "u16");
            one!(u8, "u8");
            one!(u128, "u128");
        }
    }
}

// ---------------------------------------------------------------------------
// rank structures and Select9

fn rank_lens(ctx: &Ctx) -> Vec<(&'static str, Vec<usize>)> {
    let mut v = vec![
        ("tiny", vec![0usize, 1, 63, 64, 65]),
        ("block-edge", vec![511, 512, 513, 1023, 1024, 1025, 8191, 8192, 8193]),
        ("10^3", vec![1000]),
        ("10^5+1", vec![100_001]),
        ("10^6", vec![1_000_000]),
    ];
    if ctx.thorough() {
        v.push(("2^24", vec![1 << 24, (1 << 24) + 1]));
    }
    v
}

const DENS: &[(&str, f64)] = &[("zeros", 0.0), ("sparse", 0.01), ("half", 0.5), ("dense", 0.99), ("ones", 1.0)];

fn make_bits(rng: &mut SmallRng, len: usize, d: f64) -> BitVec<Vec<usize>> {
    // word-wise generation: contents do not matter beyond the density class
    let words = len.div_ceil(64);
    let mut w: Vec<usize> = (0..words)
        .map(|_| {
            if d <= 0.0 {
                0
            } else if d >= 1.0 {
                !0
            } else if d < 0.1 {
                (rng.next_u64() & rng.next_u64() & rng.next_u64() & rng.next_u64() & rng.next_u64() & rng.next_u64()) as usize
            } else if d > 0.9 {
                (rng.next_u64() | rng.next_u64() | rng.next_u64() | rng.next_u64() | rng.next_u64() | rng.next_u64()) as usize
            } else {
                rng.next_u64() as usize
            }
        })
        .collect();
    if len % 64 != 0 {
        let l = w.len() - 1;
        w[l] &= (1usize << (len % 64)) - 1;
    }
    unsafe { BitVec::from_raw_parts(w, len) }
}

/// `$ratio`: nominal fraction; `$block`: bytes of one counter block.
macro_rules! rank_case {
    ($ctx:ident, $name:expr, $ratio:expr, $block:expr, $upper:expr, |$bv:ident| $ctor:expr) => {
        for (lname, lens) in rank_lens(&$ctx) {
            for &(dname, d) in DENS {
                $ctx.case($name, &format!("{}/{}", lname, dname), "mem_size", |c| {
                    let mut lens = lens.clone();
                    if lname == "10^3" || lname == "10^5+1" {
                        let l0 = lens[0];
                        lens.push(c.rng().random_range(l0 / 2..l0 * 2));
                    }
                    for &len in &lens {
                        let $bv = make_bits(c.rng(), len, d);
                        let hb = heap(&$bv);
                        let Ok(h) = catch(move || {
                            let r = $ctor;
                            heap(&r)
                        }) else {
                            continue;
                        };
                        let words = len.div_ceil(64);
                        let extra = h.saturating_sub(hb);
                        let uppers = if $upper { len.div_ceil(1usize << 32) * 8 } else { 0 };
                        let bound = ($ratio * (words * 8) as f64).ceil() as usize + 2 * $block + uppers;
                        c.check("mem_size", h >= hb && extra <= bound, || {
                            format!("{} over {} bits ({} words, density class {}): extra heap {} bytes (total heap {} - bit vector {}) > {} * words * 8 + 2 blocks of {} bytes{} = {} bytes", $name, len, words, dname, extra, h, hb, $ratio, $block, if $upper { " + 8 per 2^32 bits" } else { "" }, bound)
                        });
                        if len > 1024 {
                            c.nontrivial();
                        }
                    }
                    c.describe(|| format!("lens={:?} density={}", lens, dname));
                });
            }
        }
    };
}

fn ranks(ctx: &mut Ctx) {
    rank_case!(ctx, "Rank9", 0.25, 16, false, |bv| Rank9::new(bv));
    rank_case!(ctx, "RankSmall<2,9>", 0.1875, 12, true, |bv| RankSmall::<2, 9, _, _, _>::new(bv));
    rank_case!(ctx, "RankSmall<1,9>", 0.125, 8, true, |bv| RankSmall::<1, 9, _, _, _>::new(bv));
    rank_case!(ctx, "RankSmall<1,10>", 0.0625, 8, true, |bv| RankSmall::<1, 10, _, _, _>::new(bv));
    rank_case!(ctx, "RankSmall<1,11>", 0.03125, 8, true, |bv| RankSmall::<1, 11, _, _, _>::new(bv));
    rank_case!(ctx, "RankSmall<3,13>", 0.015625, 16, true, |bv| RankSmall::<3, 13, _, _, _>::new(bv));
    // the same five variants as the documentation names them: through the rank_small! macro
    rank_case!(ctx, "rank_small![0]", 0.1875, 12, true, |bv| sux::rank_small![0; bv]);
    rank_case!(ctx, "rank_small![1]", 0.125, 8, true, |bv| sux::rank_small![1; bv]);
    rank_case!(ctx, "rank_small![2]", 0.0625, 8, true, |bv| sux::rank_small![2; bv]);
    rank_case!(ctx, "rank_small![3]", 0.03125, 8, true, |bv| sux::rank_small![3; bv]);
    rank_case!(ctx, "rank_small![4]", 0.015625, 16, true, |bv| sux::rank_small![4; bv]);
    // Select9 over its Rank9
    for (lname, lens) in rank_lens(ctx) {
        for &(dname, d) in DENS {
            ctx.case("Select9", &format!("{}/{}", lname, dname), "mem_size", |c| {
                for &len in &lens {
                    let bv = make_bits(c.rng(), len, d);
                    let Ok((hr, hs)) = catch(move || {
                        let r = Rank9::new(bv);
                        let hr = heap(&r);
                        let s = Select9::new(r);
                        (hr, heap(&s))
                    }) else {
                        continue;
                    };
                    let words = len.div_ceil(64);
                    let extra = hs.saturating_sub(hr);
                    let bound = (0.375 * (words * 8) as f64).ceil() as usize + 64;
                    c.check("mem_size", hs >= hr && extra <= bound, || {
                        format!("Select9 over {} bits ({} words, density class {}): extra heap over its Rank9 {} bytes (total {} - Rank9 {}) > 0.375 * words * 8 + 64 = {} bytes", len, words, dname, extra, hs, hr, bound)
                    });
                    if len > 1024 {
                        c.nontrivial();
                    }
                }
                c.describe(|| format!("lens={:?} density={}", lens, dname));
            });
        }
    }
    // more than one 2^32-bit superblock (thorough, one variant: 512 MiB of zeros)
    if ctx.thorough() && !ctx.small {
        ctx.case("RankSmall<1,11>", "2^32+/zeros", "mem_size", |c| {
            let len = (1usize << 32) + 1000;
            let bv = BitVec::new(len);
            let hb = heap(&bv);
            let Ok(h) = catch(move || heap(&RankSmall::<1, 11, _, _, _>::new(bv))) else { return };
            let words = len.div_ceil(64);
            let bound = (0.03125 * (words * 8) as f64).ceil() as usize + 2 * 8 + 2 * 8;
            c.check("mem_size", h >= hb && h - hb <= bound, || format!("RankSmall<1,11> over 2^32+1000 zero bits: extra heap {} bytes > {} bytes", h - hb, bound));
            c.nontrivial();
            c.describe(|| "len=2^32+1000 all zeros".into());
        });
    }
}

// ---------------------------------------------------------------------------
// Elias–Fano

fn ef_bound_bits(n: usize, u: usize) -> usize {
    if n == 0 {
        return 3 * 64;
    }
    let lg = (u as f64 / n as f64).log2().max(0.0);
    (n as f64 * (2.0 + lg)).ceil() as usize + 3 * 64
}

/// Builds (pushing `n` monotone values `floor(i*u/n)`-like) and returns the heap bits.
fn ef_heap_bits(n: usize, u: usize, concurrent: bool) -> Result<usize, String> {
    catch(|| {
        let val = |i: usize| -> usize {
            if n <= 1 {
                u
            } else {
                ((i as u128 * u as u128) / (n as u128 - 1)) as usize
            }
        };
        if concurrent {
            let b = EliasFanoConcurrentBuilder::new(n, u);
            for i in 0..n {
                unsafe { b.set(i, val(i)) };
            }
            heap(&b.build()) * 8
        } else {
            let mut b = EliasFanoBuilder::new(n, u);
            for i in 0..n {
                unsafe { b.push_unchecked(val(i)) };
            }
            heap(&b.build()) * 8
        }
    })
}

const EF_CLASSES: &[&str] = &[
    "n=0",
    "n=1",
    "u<n",
    "u=n",
    "u/n in (1,2)",
    "u/n in (2,3)",
    "u/n in (3,4)",
    "u/n just below 2^k",
    "u/n = 2^k",
    "u/n just above 2^k",
    "u/n in (2^k,2^(k+1))",
    "u near 2^64",
    "random",
];

fn log_uniform(rng: &mut SmallRng, lo: usize, hi: usize) -> usize {
    let a = (lo as f64).ln();
    let b = (hi as f64).ln();
    let x = a + (b - a) * rng.random::<f64>();
    (x.exp() as usize).clamp(lo, hi)
}

fn ef_pair(rng: &mut SmallRng, class: &str, nmax: usize) -> (usize, usize) {
    let n = log_uniform(rng, 2, nmax);
    let frac = |rng: &mut SmallRng, lo: f64, hi: f64| lo + (hi - lo) * rng.random::<f64>();
    match class {
        "n=0" => (0, if rng.random_bool(0.3) { 0 } else { log_uniform(rng, 1, 1 << 40) }),
        "n=1" => (1, if rng.random_bool(0.2) { usize::MAX - rng.random_range(0..2usize) } else { log_uniform(rng, 1, 1 << 60) - 1 }),
        "u<n" => (n, rng.random_range(0..n)),
        "u=n" => (n, n),
        "u/n in (1,2)" => (n, (n as f64 * frac(rng, 1.02, 1.98)) as usize),
        "u/n in (2,3)" => (n, (n as f64 * frac(rng, 2.02, 2.98)) as usize),
        "u/n in (3,4)" => (n, (n as f64 * frac(rng, 3.02, 3.98)) as usize),
        "u/n just below 2^k" => {
            let k = rng.random_range(1..30u32);
            (n, (n << k) - 1 - rng.random_range(0..(n / 8).max(1)))
        }
        "u/n = 2^k" => (n, n << rng.random_range(0..30u32)),
        "u/n just above 2^k" => {
            let k = rng.random_range(0..30u32);
            (n, (n << k) + 1 + rng.random_range(0..(n / 8).max(1)))
        }
        "u/n in (2^k,2^(k+1))" => {
            let k = rng.random_range(2..30u32);
            (n, (n as f64 * (1u64 << k) as f64 * frac(rng, 1.05, 1.95)) as usize)
        }
        "u near 2^64" => (n, usize::MAX - rng.random_range(0..1000usize)),
        _ => (n, log_uniform(rng, 1, 1 << 50)),
    }
}

fn elias_fano(ctx: &mut Ctx) {
    // the regression seen by an independent party: n = 100 000, u = 110 000
    ctx.case("EliasFano", "u/n in (1,2)", "mem_size", |c| {
        for &(n, u) in &[(100_000usize, 110_000usize), (100_000, 150_000), (100_000, 199_999), (10_000, 35_000), (100_000, 350_000), (1_000_000, 3_900_000)] {
            for conc in [false, true] {
                let Ok(bits) = ef_heap_bits(n, u, conc) else { continue };
                let bound = ef_bound_bits(n, u);
                c.check("mem_size", bits <= bound, || format!("EliasFano{} n={} u={}: heap {} bits > n*(2+max(0,lg(u/n))) + 3 words = {} bits", if conc { " (concurrent builder)" } else { "" }, n, u, bits, bound));
            }
        }
        c.nontrivial();
        c.describe(|| "fixed pairs (100000,110000) (100000,150000) (100000,199999) (10000,35000) (100000,350000) (1000000,3900000)".into());
    });
}

fn elias_fano_round(ctx: &mut Ctx) {
    let big = !cfg!(debug_assertions);
    let per_case = ctx.scale(5, 60, 100);
    {
        for &class in EF_CLASSES {
            for conc in [false, true] {
                let variant = if conc { "EliasFano(concurrent)" } else { "EliasFano" };
                ctx.case(variant, class, "mem_size", |c| {
                    // a few large n in every case, the rest small (debug builds: small only)
                    let mut worst: (f64, usize, usize) = (f64::MIN, 0, 0);
                    let mut big_seen = false;
                    for k in 0..per_case {
                        let nmax = if k < 3 && big { 2_000_000 } else if k < 10 { 200_000 } else { 5_000 };
                        let (n, u) = ef_pair(c.rng(), class, if cfg!(debug_assertions) { nmax.min(20_000) } else { nmax });
                        let Ok(bits) = ef_heap_bits(n, u, conc) else { continue };
                        let bound = ef_bound_bits(n, u);
                        c.check("mem_size", bits <= bound, || format!("{} n={} u={} (class {}): heap {} bits > n*(2+max(0,lg(u/n))) + 3 words = {} bits", variant, n, u, class, bits, bound));
                        let slack = bits as f64 - bound as f64;
                        if slack > worst.0 {
                            worst = (slack, n, u);
                        }
                        big_seen |= n >= 10_000;
                    }
                    if big_seen {
                        c.nontrivial();
                    }
                    c.describe(|| format!("{} pairs of class {}; closest to the bound: n={} u={} (heap - bound = {} bits)", per_case, class, worst.1, worst.2, worst.0));
                });
            }
        }
    }
}

// ---------------------------------------------------------------------------
// functions and filters

#[derive(Clone, Copy, PartialEq, Debug)]
enum Logic {
    Shards,
    FullSigs,
    NoShards2,
    NoShards1,
}

impl Logic {
    fn name(&self) -> &'static str {
        match self {
            Logic::Shards => "FuseLge3Shards",
            Logic::FullSigs => "FuseLge3FullSigs",
            Logic::NoShards2 => "FuseLge3NoShards,[u64;2]",
            Logic::NoShards1 => "FuseLge3NoShards,[u64;1]",
        }
    }
    fn sharded(&self) -> bool {
        matches!(self, Logic::Shards | Logic::FullSigs)
    }
}

/// Documented number of shards (shard_edge.rs: below 800 000 keys shards are
/// "as big as possible within 2 * 50 000 keys"; above, no shard is smaller
/// than 10^7 keys).
fn doc_shards(logic: Logic, n: usize) -> usize {
    if !logic.sharded() {
        1
    } else if n <= 800_000 {
        1usize << (n / 50_000).max(1).ilog2()
    } else {
        assert!(n < 20_000_000, "harness: key counts of 2*10^7 and more are not modelled");
        1
    }
}

/// Documented segment size (upper envelope over the admissible largest shard).
fn doc_seg(logic: Logic, n: usize) -> usize {
    let lin = |m: usize| -> u32 { (0.85 * (m.max(1) as f64).ln()).floor().max(1.0) as u32 };
    let fuse = |m: usize| -> u32 { ((m.max(1) as f64).ln() / 3.33f64.ln() + 2.25).floor() as u32 };
    let log2 = if logic.sharded() {
        if n <= 800_000 {
            let shards = doc_shards(logic, n);
            // largest shard: at most 1 % above the average (builder's acceptance rule)
            let m = if shards == 1 { n } else { (1.01 * n as f64 / shards as f64).floor() as usize };
            lin(m)
        } else {
            fuse(n)
        }
    } else if n <= 100_000 {
        lin(n)
    } else {
        fuse(n).min(18)
    };
    1usize << log2
}

fn bound_cells(logic: Logic, n: usize) -> usize {
    let c = if n < 100_000 { 1.23 } else { 1.135 };
    let shards = doc_shards(logic, n);
    let k = if shards == 1 { 1 } else { 2 };
    (c * n as f64).ceil() as usize + k * shards * doc_seg(logic, n) + 16
}

fn distinct_keys(rng: &mut SmallRng, n: usize) -> Vec<usize> {
    // an arithmetic progression with random start and odd stride: distinct without sorting
    let start = rng.next_u64() as usize;
    let stride = (rng.next_u64() as usize) | 1;
    (0..n).map(|i| start.wrapping_add(i.wrapping_mul(stride))).collect()
}

/// Heap bytes of a function with `b`-bit values over `n` keys.
macro_rules! build_heap {
    (func_box, $W:ty, $S:ty, $E:ty, $keys:expr, $b:expr) => {{
        let keys = $keys;
        let n = keys.len();
        catch(|| {
            VBuilder::<$W, Box<[$W]>, $S, $E>::default()
                .expected_num_keys(n)
                .try_build_func(FromIntoIterator::from(keys), FromIntoIterator::from((0..n).map(|i| i as $W)), dsi_progress_logger::no_logging![])
                .map(|f| heap(&f))
        })
    }};
    (func_bfv, $W:ty, $S:ty, $E:ty, $keys:expr, $b:expr) => {{
        let keys = $keys;
        let n = keys.len();
        let b: usize = $b;
        let maxv: usize = if b == 64 { usize::MAX } else { (1usize << b) - 1 };
        catch(|| {
            VBuilder::<usize, BitFieldVec<usize>, $S, $E>::default()
                .expected_num_keys(n)
                .try_build_func(FromIntoIterator::from(keys), FromIntoIterator::from((0..n).map(move |i| if i == 0 { maxv } else { i & maxv })), dsi_progress_logger::no_logging![])
                .map(|f| heap(&f))
        })
    }};
    (filter_box, $W:ty, $S:ty, $E:ty, $keys:expr, $b:expr) => {{
        let keys = $keys;
        let n = keys.len();
        catch(|| VBuilder::<$W, Box<[$W]>, $S, $E>::default().expected_num_keys(n).try_build_filter(FromIntoIterator::from(keys), dsi_progress_logger::no_logging![]).map(|f| heap(&f)))
    }};
    (filter_bfv, $W:ty, $S:ty, $E:ty, $keys:expr, $b:expr) => {{
        let keys = $keys;
        let n = keys.len();
        let b: usize = $b;
        catch(|| VBuilder::<usize, BitFieldVec<usize>, $S, $E>::default().expected_num_keys(n).try_build_filter(FromIntoIterator::from(keys), b, dsi_progress_logger::no_logging![]).map(|f| heap(&f)))
    }};
}

/// Kinds of structure: (name, b) pairs per logic are instantiated below.
#[derive(Clone, Copy, Debug)]
enum Kind {
    FuncBox64,
    FuncBox8,
    FuncBfv(usize),
    FilterBox8,
    FilterBfv(usize),
}

impl Kind {
    fn b(&self) -> usize {
        match *self {
            Kind::FuncBox64 => 64,
            Kind::FuncBox8 | Kind::FilterBox8 => 8,
            Kind::FuncBfv(b) | Kind::FilterBfv(b) => b,
        }
    }
    fn name(&self) -> String {
        match *self {
            Kind::FuncBox64 => "VFunc<Box<[usize]>>".into(),
            Kind::FuncBox8 => "VFunc<Box<[u8]>>".into(),
            Kind::FuncBfv(_) => "VFunc<BitFieldVec>".into(),
            Kind::FilterBox8 => "VFilter<Box<[u8]>>".into(),
            Kind::FilterBfv(_) => "VFilter<BitFieldVec>".into(),
        }
    }
}

fn build_one(logic: Logic, kind: Kind, keys: Vec<usize>) -> Result<anyhow::Result<usize>, String> {
    macro_rules! with_logic {
        ($mode:ident, $W:ty, $b:expr) => {
            match logic {
                Logic::Shards => build_heap!($mode, $W, [u64; 2], FuseLge3Shards, keys, $b),
                Logic::FullSigs => build_heap!($mode, $W, [u64; 2], FuseLge3FullSigs, keys, $b),
                Logic::NoShards2 => build_heap!($mode, $W, [u64; 2], FuseLge3NoShards, keys, $b),
                Logic::NoShards1 => build_heap!($mode, $W, [u64; 1], FuseLge3NoShards, keys, $b),
            }
        };
    }
    match kind {
        Kind::FuncBox64 => with_logic!(func_box, usize, 64),
        Kind::FuncBox8 => with_logic!(func_box, u8, 8),
        Kind::FuncBfv(b) => with_logic!(func_bfv, usize, b),
        Kind::FilterBox8 => with_logic!(filter_box, u8, 8),
        Kind::FilterBfv(b) => with_logic!(filter_bfv, usize, b),
    }
}

/// One (logic, kind, n) observation.
fn vf_check(c: &mut Case, logic: Logic, kind: Kind, n: usize) {
    let keys = distinct_keys(c.rng(), n);
    let b = kind.b();
    let r = build_one(logic, kind, keys);
    let Ok(Ok(h)) = r else {
        // a failed or panicking build is C07/C17's business
        return;
    };
    let cells = bound_cells(logic, n);
    let bound_bits = cells * b + 3 * 64;
    let bits = h * 8;
    // Known finding K01 is specific: between 100001 and 800000 keys the unsharded
    // logic sizes its graph with c = 0.168 + ln ln 300000 / ln ln (n + 200000)
    // rounded up to a segment. Anything above *that* is a different violation and
    // is reported under an operation of its own, which K01 does not cover.
    if !logic.sharded() && n > 100_000 && n <= 800_000 {
        let ck = 0.168 + 300000f64.ln().ln() / (n as f64 + 200000.).ln().ln();
        let known_cells = (ck * n as f64).ceil() as usize + doc_seg(logic, n) + 16;
        let known_bits = known_cells * b + 3 * 64;
        c.check("mem_size_above_known_excess", bits <= known_bits, || {
            format!(
                "{} with {} over {} keys, {}-bit values: heap {} bits = {:.4} n b (about {} cells), above even the excess recorded as K01 ({} cells = ceil({:.4} n) + one segment of {} + 16)",
                kind.name(),
                logic.name(),
                n,
                b,
                bits,
                bits as f64 / (n.max(1) * b) as f64,
                bits / b,
                known_cells,
                ck,
                doc_seg(logic, n)
            )
        });
    }
    c.check("mem_size", bits <= bound_bits, || {
        format!(
            "{} with {} over {} keys, {}-bit values: heap {} bits = {:.4} n b (about {} cells) > bound {} bits = ({} cells: ceil({} n) + {} shard(s) x {} segment(s) of {} + 16) x b + 3 words",
            kind.name(),
            logic.name(),
            n,
            b,
            bits,
            bits as f64 / (n.max(1) * b) as f64,
            bits / b,
            bound_bits,
            cells,
            if n < 100_000 { 1.23 } else { 1.135 },
            doc_shards(logic, n),
            if doc_shards(logic, n) == 1 { 1 } else { 2 },
            doc_seg(logic, n)
        )
    });
}

fn size_class(n: usize) -> &'static str {
    match n {
        0..=2 => "n<=2",
        3..=100 => "3..100",
        101..=99_999 => "101..99999",
        100_000 => "n=100000",
        100_001..=199_999 => "100001..199999",
        200_000..=399_999 => "200000..399999",
        400_000..=800_000 => "400000..800000",
        _ => "above 800000",
    }
}

fn functions(ctx: &mut Ctx) {
    if ctx.small {
        return; // VBuilder cannot run under Miri
    }
    let logics = [Logic::Shards, Logic::FullSigs, Logic::NoShards2, Logic::NoShards1];
    let dbg = cfg!(debug_assertions);
    // 1. tiny key counts: rounding dominates; every kind, widths {1, 8, 13, 64}
    for logic in logics {
        for kind in [Kind::FuncBox64, Kind::FuncBox8, Kind::FuncBfv(1), Kind::FuncBfv(13), Kind::FuncBfv(64), Kind::FilterBox8, Kind::FilterBfv(1), Kind::FilterBfv(13), Kind::FilterBfv(64)] {
            ctx.case(&format!("{},{}", kind.name(), logic.name()), "0..=300 step 7", "mem_size", |c| {
                for n in (0..=300).step_by(7) {
                    vf_check(c, logic, kind, n);
                }
                for n in [1usize, 2, 3, 99, 100, 101] {
                    vf_check(c, logic, kind, n);
                }
                c.nontrivial();
                c.describe(|| "key counts 0,7,..,294 and 1,2,3,99,100,101; keys = arithmetic progression".into());
            });
        }
    }
    // 2. regime switches and sharded sizes. The sizes at which the unsharded
    //    logic is known to exceed 1.135 n (DESIGN.md section 7 item 18) sit in
    //    strata of their own.
    let mut sizes: Vec<usize> = vec![1_000, 10_000, 99_999, 100_000, 100_001, 150_000, 200_000, 400_000, 800_000];
    if ctx.thorough() {
        sizes.extend_from_slice(&[50_001, 199_999, 300_000, 800_001, 1_500_000, 12_000_000]);
    }
    for logic in logics {
        for &n in &sizes {
            // values of 1, 8, 13 and 64 bits, as functions and as filters
            let kinds: Vec<Kind> = if n <= 10_000 {
                vec![Kind::FuncBox64, Kind::FuncBox8, Kind::FuncBfv(1), Kind::FuncBfv(13), Kind::FuncBfv(64), Kind::FilterBox8, Kind::FilterBfv(1), Kind::FilterBfv(13), Kind::FilterBfv(64)]
            } else if n <= 150_000 {
                vec![Kind::FuncBox8, Kind::FuncBfv(13), Kind::FuncBfv(64), Kind::FilterBox8, Kind::FilterBfv(1)]
            } else if n <= 800_000 {
                // the number of cells does not depend on the kind: three kinds are enough at size
                vec![Kind::FuncBox8, Kind::FuncBfv(13), Kind::FilterBfv(1)]
            } else {
                vec![Kind::FuncBfv(13), Kind::FilterBox8]
            };
            for kind in kinds {
                let stratum = format!("{}{}", size_class(n), if !logic.sharded() && n > 100_000 && n <= 800_000 { " (unsharded fuse, documented c > 1.135)" } else { "" });
                ctx.case(&format!("{},{}", kind.name(), logic.name()), &stratum, "mem_size", |c| {
                    // debug builds are too slow for lazy Gaussian elimination at size
                    if dbg && n > 100_001 {
                        return;
                    }
                    vf_check(c, logic, kind, n);
                    c.nontrivial();
                    c.describe(|| format!("n={} keys = arithmetic progression with random start/stride", n));
                });
            }
        }
    }
}

/// Random key counts (log-uniform), random kinds and widths.
fn functions_round(ctx: &mut Ctx) {
    if ctx.small {
        return;
    }
    let logics = [Logic::Shards, Logic::FullSigs, Logic::NoShards2, Logic::NoShards1];
    let dbg = cfg!(debug_assertions);
    {
        for logic in logics {
            for big in [false, true] {
                let variant = format!("VFunc/VFilter (random kind),{}", logic.name());
                // the stratum must not depend on the per-case generator: two
                // classes of key counts, and the known-excess zone apart
                let stratum = if !big {
                    "random n in 3..99999".to_string()
                } else if logic.sharded() {
                    "random n in 100000..800000".to_string()
                } else {
                    "random n in 100000..800000 (unsharded fuse, documented c > 1.135)".to_string()
                };
                ctx.case(&variant, &stratum, "mem_size", |c| {
                    let reps = if big { 1 } else { 6 };
                    let mut desc = Vec::new();
                    for _ in 0..reps {
                        let n = if big { log_uniform(c.rng(), 100_000, if dbg { 100_000 } else { 800_000 }) } else { log_uniform(c.rng(), 3, if dbg { 20_000 } else { 99_999 }) };
                        let b = [1usize, 2, 8, 13, 31, 64][c.rng().random_range(0..6)];
                        let kind = match c.rng().random_range(0..5) {
                            0 => Kind::FuncBox64,
                            1 => Kind::FuncBox8,
                            2 => Kind::FuncBfv(b),
                            3 => Kind::FilterBox8,
                            _ => Kind::FilterBfv(b),
                        };
                        vf_check(c, logic, kind, n);
                        desc.push(format!("{:?} n={}", kind, n));
                    }
                    c.nontrivial();
                    c.describe(|| desc.join("; "));
                });
            }
        }
    }
}

fn main() {
    let mut ctx = Ctx::from_args("C11");
    ctx.set_hang_limit(900);
    // deterministic strata first
    vectors(&mut ctx);
    ranks(&mut ctx);
    elias_fano(&mut ctx);
    functions(&mut ctx);
    // random rounds on top (the only place where the time budget is consulted)
    let rounds = ctx.scale(1, 10, 100);
    for round in 0..rounds {
        elias_fano_round(&mut ctx);
        functions_round(&mut ctx);
        if round > 0 && ctx.out_of_time() {
            break;
        }
    }
    ctx.finish();
}
