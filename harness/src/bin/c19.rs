//! C19 — the GF(2) solvers return a satisfying assignment exactly when one
//! exists.
//!
//! Oracle (independent of the crate): the system is written as dense bit rows
//! and reduced by plain Gauss–Jordan elimination on the coefficient columns
//! with the constant words carried along; it is solvable iff every row whose
//! coefficient part vanished has a zero constant, i.e. iff
//! rank(A) = rank([A|c_j]) for every bit j of the constant words. On a sample
//! of systems (all the cheap ones) the ranks are also computed literally, one
//! augmented matrix per bit, and the two decisions must agree. Returned
//! assignments are evaluated with the harness's own evaluator against the
//! equations as generated (the solvers mutate the system they are given) and
//! with the crate's `check` on a pristine copy of the system.
//!
//! Only systems within the property's precondition are generated: every
//! equation has a non-empty, strictly increasing variable list below the
//! declared number of variables.
use rand::rngs::SmallRng;
use rand::seq::SliceRandom;
use rand::Rng;
use std::fmt::Debug;
use sux::traits::Word;
use sux::utils::{Modulo2Equation, Modulo2System};
use suxmon::obs::*;

// ---------------------------------------------------------------- word types

trait MW: Word + Debug + Copy + PartialEq {
    const NAME: &'static str;
    const NBITS: u32;
    fn from128(x: u128) -> Self;
    fn to128(self) -> u128;
}
macro_rules! mw {
    ($($t:ty),*) => {$(
        impl MW for $t {
            const NAME: &'static str = stringify!($t);
            const NBITS: u32 = <$t>::BITS;
            fn from128(x: u128) -> Self { x as $t }
            fn to128(self) -> u128 { self as u128 }
        }
    )*};
}
mw!(u8, u16, u32, u64, u128, usize);

fn mask(bits: u32) -> u128 {
    if bits == 128 {
        u128::MAX
    } else {
        (1u128 << bits) - 1
    }
}

// ---------------------------------------------------------------- model

#[derive(Clone, Debug)]
struct Sys {
    n: usize,
    /// (strictly increasing variables, constant)
    eqs: Vec<(Vec<u32>, u128)>,
}

fn show_sys(s: &Sys, w: &str) -> String {
    let mut o = format!("W={} num_vars={} equations({})=[", w, s.n, s.eqs.len());
    for (i, (v, c)) in s.eqs.iter().enumerate() {
        if i > 0 {
            o.push_str("; ");
        }
        o.push_str(&format!("{:?}={:#x}", v, c));
    }
    o.push(']');
    o
}

fn precondition_ok(s: &Sys) -> bool {
    s.eqs.iter().all(|(v, _)| !v.is_empty() && v.windows(2).all(|w| w[0] < w[1]) && (*v.last().unwrap() as usize) < s.n)
}

/// The harness's own evaluator: index of the first equation not satisfied.
fn first_violated(s: &Sys, sol: &[u128]) -> Option<usize> {
    s.eqs.iter().position(|(v, c)| {
        let mut x = 0u128;
        for &i in v {
            x ^= sol[i as usize];
        }
        x != *c
    })
}

// ---------------------------------------------------------------- oracle

/// Plain Gauss–Jordan on dense rows `(coefficient words, constant word)`:
/// solvable iff every row whose coefficients vanish has constant 0 (for all
/// bits of the constant at once). Also returns rank(A).
fn solvable_dense(s: &Sys) -> (bool, usize) {
    let words = s.n.div_ceil(64).max(1);
    let mut rows: Vec<(Vec<u64>, u128)> = s
        .eqs
        .iter()
        .map(|(v, c)| {
            let mut r = vec![0u64; words];
            for &i in v {
                r[i as usize / 64] ^= 1u64 << (i % 64);
            }
            (r, *c)
        })
        .collect();
    let m = rows.len();
    let mut rank = 0usize;
    for col in 0..s.n {
        let (wi, bi) = (col / 64, col % 64);
        let Some(p) = (rank..m).find(|&i| rows[i].0[wi] >> bi & 1 == 1) else { continue };
        rows.swap(rank, p);
        let (pr, pc) = (rows[rank].0.clone(), rows[rank].1);
        for (i, row) in rows.iter_mut().enumerate() {
            if i != rank && row.0[wi] >> bi & 1 == 1 {
                for (a, b) in row.0.iter_mut().zip(pr.iter()) {
                    *a ^= *b;
                }
                row.1 ^= pc;
            }
        }
        rank += 1;
        if rank == m {
            break;
        }
    }
    (rows[rank..].iter().all(|(_, c)| *c == 0), rank)
}

/// Rank over GF(2) of a dense matrix given as rows of `ncols` booleans packed
/// in u64 words (plain forward elimination).
fn rank_gf2(mut rows: Vec<Vec<u64>>, ncols: usize) -> usize {
    let m = rows.len();
    let mut rank = 0;
    for col in 0..ncols {
        if rank == m {
            break;
        }
        let (wi, bi) = (col / 64, col % 64);
        let Some(p) = (rank..m).find(|&i| rows[i][wi] >> bi & 1 == 1) else { continue };
        rows.swap(rank, p);
        let pr = rows[rank].clone();
        for row in rows.iter_mut().skip(rank + 1) {
            if row[wi] >> bi & 1 == 1 {
                for (a, b) in row.iter_mut().zip(pr.iter()) {
                    *a ^= *b;
                }
            }
        }
        rank += 1;
    }
    rank
}

/// The literal statement: rank(A) == rank([A|c_j]) for every bit j.
fn solvable_by_ranks(s: &Sys, bits: u32) -> bool {
    let words = (s.n + 1).div_ceil(64);
    let a: Vec<Vec<u64>> = s
        .eqs
        .iter()
        .map(|(v, _)| {
            let mut r = vec![0u64; words];
            for &i in v {
                r[i as usize / 64] ^= 1u64 << (i % 64);
            }
            r
        })
        .collect();
    let ra = rank_gf2(a.clone(), s.n);
    for j in 0..bits {
        let mut aug = a.clone();
        let mut any = false;
        for (row, (_, c)) in aug.iter_mut().zip(s.eqs.iter()) {
            if c >> j & 1 == 1 {
                row[s.n / 64] ^= 1u64 << (s.n % 64);
                any = true;
            }
        }
        if any && rank_gf2(aug, s.n + 1) != ra {
            return false;
        }
    }
    true
}

// ---------------------------------------------------------------- generators

#[derive(Clone, Copy, Debug, PartialEq, Eq)]
enum Shape {
    Mixed1to8,
    Exactly3,
    RepeatedRows,
    DependentRows,
    ContradictoryCopy,
    ContradictorySum,
    Planted,
    PlantedOverdetermined,
    UnusedVariables,
    Homogeneous,
    Chain,
    ChainContradiction,
    DenseCore,
    Singletons,
    WideRows,
    OneBitContradiction,
    NestedPrefixes,
}

impl Shape {
    const ALL: [Shape; 17] = [
        Shape::Mixed1to8,
        Shape::Exactly3,
        Shape::RepeatedRows,
        Shape::DependentRows,
        Shape::ContradictoryCopy,
        Shape::ContradictorySum,
        Shape::Planted,
        Shape::PlantedOverdetermined,
        Shape::UnusedVariables,
        Shape::Homogeneous,
        Shape::Chain,
        Shape::ChainContradiction,
        Shape::DenseCore,
        Shape::Singletons,
        Shape::WideRows,
        Shape::OneBitContradiction,
        Shape::NestedPrefixes,
    ];
    fn name(&self) -> &'static str {
        match self {
            Shape::Mixed1to8 => "sizes-1..8",
            Shape::Exactly3 => "size-3",
            Shape::RepeatedRows => "repeated-rows",
            Shape::DependentRows => "dependent-rows",
            Shape::ContradictoryCopy => "contradictory-copy",
            Shape::ContradictorySum => "contradictory-sum",
            Shape::Planted => "planted-solution",
            Shape::PlantedOverdetermined => "planted-overdetermined",
            Shape::UnusedVariables => "unused-variables",
            Shape::Homogeneous => "all-constants-zero",
            Shape::Chain => "single-variable-chain",
            Shape::ChainContradiction => "chain-with-contradiction",
            Shape::DenseCore => "dense-core",
            Shape::Singletons => "singletons",
            Shape::WideRows => "wide-rows",
            Shape::OneBitContradiction => "one-bit-contradiction",
            Shape::NestedPrefixes => "nested-variable-sets",
        }
    }
}

fn rand_const(rng: &mut SmallRng, bits: u32) -> u128 {
    let m = mask(bits);
    match rng.random_range(0..12) {
        0 => 0,
        1 => m,
        2 => 1,
        3 => 1u128 << (bits - 1),
        4 => 1u128 << rng.random_range(0..bits),
        _ => rng.random::<u128>() & m,
    }
}

/// `size` distinct variables below `n`, increasing.
fn rand_vars(rng: &mut SmallRng, n: usize, size: usize) -> Vec<u32> {
    let size = size.clamp(1, n);
    let mut v: Vec<u32> = rand::seq::index::sample(rng, n, size).into_iter().map(|x| x as u32).collect();
    v.sort_unstable();
    v
}

/// Symmetric difference of two increasing lists.
fn xor_vars(a: &[u32], b: &[u32]) -> Vec<u32> {
    let (mut i, mut j) = (0, 0);
    let mut o = Vec::new();
    while i < a.len() && j < b.len() {
        if a[i] < b[j] {
            o.push(a[i]);
            i += 1;
        } else if a[i] > b[j] {
            o.push(b[j]);
            j += 1;
        } else {
            i += 1;
            j += 1;
        }
    }
    o.extend_from_slice(&a[i..]);
    o.extend_from_slice(&b[j..]);
    o
}

/// XOR of a random non-empty subset of the equations (None if the variable
/// part cancels completely).
fn random_combination(rng: &mut SmallRng, eqs: &[(Vec<u32>, u128)]) -> Option<(Vec<u32>, u128)> {
    if eqs.is_empty() {
        return None;
    }
    let k = 1 + rng.random_range(0..eqs.len().min(6));
    let mut v: Vec<u32> = vec![];
    let mut c = 0u128;
    for idx in rand::seq::index::sample(rng, eqs.len(), k) {
        v = xor_vars(&v, &eqs[idx].0);
        c ^= eqs[idx].1;
    }
    if v.is_empty() {
        None
    } else {
        Some((v, c))
    }
}

fn plant(rng: &mut SmallRng, n: usize, bits: u32, eqs: &mut [(Vec<u32>, u128)]) {
    let sol: Vec<u128> = (0..n).map(|_| rng.random::<u128>() & mask(bits)).collect();
    for (v, c) in eqs.iter_mut() {
        *c = v.iter().fold(0u128, |a, &i| a ^ sol[i as usize]);
    }
}

fn gen_system(rng: &mut SmallRng, shape: Shape, n: usize, m: usize, bits: u32) -> Sys {
    assert!(n >= 1 || m == 0);
    let mut eqs: Vec<(Vec<u32>, u128)> = Vec::with_capacity(m + 2);
    let base = |rng: &mut SmallRng, eqs: &mut Vec<(Vec<u32>, u128)>, cnt: usize, three: bool| {
        for _ in 0..cnt {
            let size = if three { 3 } else { rng.random_range(1..=8) };
            let v = rand_vars(rng, n, size);
            eqs.push((v, rand_const(rng, bits)));
        }
    };
    if m == 0 {
        return Sys { n, eqs };
    }
    match shape {
        Shape::Mixed1to8 => base(rng, &mut eqs, m, false),
        Shape::Exactly3 => base(rng, &mut eqs, m, true),
        Shape::RepeatedRows => {
            let b = (m / 2).max(1);
            let three = rng.random_bool(0.5);
            base(rng, &mut eqs, b, three);
            if rng.random_bool(0.7) {
                plant(rng, n, bits, &mut eqs);
            }
            while eqs.len() < m {
                let i = rng.random_range(0..eqs.len());
                eqs.push(eqs[i].clone());
            }
            if rng.random_bool(0.5) {
                eqs.shuffle(rng);
            }
        }
        Shape::DependentRows => {
            let b = (m * 2 / 3).max(1);
            let three = rng.random_bool(0.5);
            base(rng, &mut eqs, b, three);
            if rng.random_bool(0.7) {
                plant(rng, n, bits, &mut eqs);
            }
            while eqs.len() < m {
                match random_combination(rng, &eqs) {
                    Some(e) => eqs.push(e),
                    None => {
                        let i = rng.random_range(0..eqs.len());
                        eqs.push(eqs[i].clone());
                    }
                }
            }
            if rng.random_bool(0.5) {
                eqs.shuffle(rng);
            }
        }
        Shape::ContradictoryCopy => {
            let three = rng.random_bool(0.5);
            base(rng, &mut eqs, m.saturating_sub(1).max(1), three);
            if rng.random_bool(0.7) {
                plant(rng, n, bits, &mut eqs);
            }
            let i = rng.random_range(0..eqs.len());
            let mut e = eqs[i].clone();
            let mut d = rand_const(rng, bits);
            if d == 0 {
                d = 1;
            }
            e.1 ^= d;
            let at = rng.random_range(0..=eqs.len());
            eqs.insert(at, e);
        }
        Shape::ContradictorySum => {
            let three = rng.random_bool(0.5);
            base(rng, &mut eqs, m.saturating_sub(1).max(1), three);
            plant(rng, n, bits, &mut eqs);
            let mut e = loop {
                if let Some(e) = random_combination(rng, &eqs) {
                    break e;
                }
            };
            e.1 ^= 1u128 << rng.random_range(0..bits);
            let at = rng.random_range(0..=eqs.len());
            eqs.insert(at, e);
        }
        Shape::Planted => {
            let three = rng.random_bool(0.3);
            base(rng, &mut eqs, m, three);
            plant(rng, n, bits, &mut eqs);
        }
        Shape::PlantedOverdetermined => {
            // more equations than variables, all consistent
            let mm = (m.max(n + 1 + n / 4)).min(260);
            let three = rng.random_bool(0.3);
            base(rng, &mut eqs, mm, three);
            plant(rng, n, bits, &mut eqs);
        }
        Shape::UnusedVariables => {
            // only a few of the n variables occur
            let used = rand_vars(rng, n, (n / 8).max(1).min(12));
            for _ in 0..m {
                let size = rng.random_range(1..=used.len().min(8));
                let mut v: Vec<u32> = rand::seq::index::sample(rng, used.len(), size).into_iter().map(|i| used[i]).collect();
                v.sort_unstable();
                eqs.push((v, rand_const(rng, bits)));
            }
            if rng.random_bool(0.6) {
                plant(rng, n, bits, &mut eqs);
            }
        }
        Shape::Homogeneous => {
            let three = rng.random_bool(0.5);
            base(rng, &mut eqs, m, three);
            for e in eqs.iter_mut() {
                e.1 = 0;
            }
        }
        Shape::Chain | Shape::ChainContradiction => {
            // x_p0 = c0, x_p0 + x_p1 = c1, x_p1 + x_p2 = c2, ...
            let mut perm: Vec<u32> = (0..n as u32).collect();
            perm.shuffle(rng);
            let len = m.min(n);
            for i in 0..len {
                let mut v = if i == 0 { vec![perm[0]] } else { vec![perm[i - 1], perm[i]] };
                v.sort_unstable();
                eqs.push((v, rand_const(rng, bits)));
            }
            while eqs.len() < m {
                match random_combination(rng, &eqs) {
                    Some(e) => eqs.push(e),
                    None => {
                        let i = rng.random_range(0..eqs.len());
                        eqs.push(eqs[i].clone());
                    }
                }
            }
            if shape == Shape::ChainContradiction {
                let mut e = loop {
                    if let Some(e) = random_combination(rng, &eqs) {
                        break e;
                    }
                };
                e.1 ^= 1u128 << rng.random_range(0..bits);
                eqs.push(e);
            }
            match rng.random_range(0..3) {
                0 => {}
                1 => eqs.reverse(),
                _ => eqs.shuffle(rng),
            }
        }
        Shape::DenseCore => {
            // every variable occurs in many equations of 5..=8 variables
            for _ in 0..m {
                let size = rng.random_range(5..=8);
                let v = rand_vars(rng, n, size);
                eqs.push((v, rand_const(rng, bits)));
            }
            if rng.random_bool(0.6) {
                plant(rng, n, bits, &mut eqs);
            }
        }
        Shape::Singletons => {
            for _ in 0..m {
                let v = rand_vars(rng, n, 1);
                eqs.push((v, rand_const(rng, bits)));
            }
            if rng.random_bool(0.6) {
                plant(rng, n, bits, &mut eqs);
            }
        }
        Shape::WideRows => {
            for _ in 0..m {
                let size = match rng.random_range(0..4) {
                    0 => n,
                    1 => n.saturating_sub(1).max(1),
                    2 => (n / 2).max(1),
                    _ => rng.random_range(1..=n),
                };
                let v = rand_vars(rng, n, size);
                eqs.push((v, rand_const(rng, bits)));
            }
            if rng.random_bool(0.6) {
                plant(rng, n, bits, &mut eqs);
            }
        }
        Shape::OneBitContradiction => {
            // consistent system + one combination whose constant differs in
            // exactly one bit (the top one, the bottom one, or a random one)
            let three = rng.random_bool(0.5);
            base(rng, &mut eqs, m.saturating_sub(1).max(1), three);
            plant(rng, n, bits, &mut eqs);
            let mut e = loop {
                if let Some(e) = random_combination(rng, &eqs) {
                    break e;
                }
            };
            let bit = match rng.random_range(0..3) {
                0 => bits - 1,
                1 => 0,
                _ => rng.random_range(0..bits),
            };
            e.1 ^= 1u128 << bit;
            eqs.push(e);
            eqs.shuffle(rng);
        }
        Shape::NestedPrefixes => {
            // {v0}, {v0,v1}, {v0,v1,v2}, ... and suffix versions: equal
            // leading variables everywhere, long merges with tails
            let order = rand_vars(rng, n, n.min(40));
            for i in 0..m {
                let l = 1 + i % order.len();
                let v = if rng.random_bool(0.5) { order[..l].to_vec() } else { order[order.len() - l..].to_vec() };
                eqs.push((v, rand_const(rng, bits)));
            }
            if rng.random_bool(0.6) {
                plant(rng, n, bits, &mut eqs);
            }
            if rng.random_bool(0.5) {
                eqs.shuffle(rng);
            }
        }
    }
    Sys { n, eqs }
}

// ---------------------------------------------------------------- checks

fn build_sys<W: MW>(s: &Sys, via_from_parts: bool) -> Modulo2System<W> {
    // SAFETY (both calls): the generated variable lists are sorted, without
    // repetitions, and below s.n (precondition_ok).
    let eqs = s.eqs.iter().map(|(v, c)| unsafe { Modulo2Equation::from_parts(v.clone(), W::from128(*c)) });
    if via_from_parts {
        unsafe { Modulo2System::from_parts(s.n, eqs.collect()) }
    } else {
        let mut sys = Modulo2System::<W>::new(s.n);
        for e in eqs {
            sys.push(e);
        }
        sys
    }
}

/// Returns the oracle's verdict.
fn check_system<W: MW>(c: &mut Case, s: &Sys, literal_ranks: bool) -> bool {
    assert!(precondition_ok(s), "generator left the precondition: {}", show_sys(s, W::NAME));
    let (want, _rank) = solvable_dense(s);
    if literal_ranks {
        let w2 = solvable_by_ranks(s, W::NBITS);
        if w2 != want {
            c.fail("oracle", "harness", "the two solvability decisions of the harness disagree", &show_sys(s, W::NAME));
            return want;
        }
    }
    let mut verdicts: [Option<bool>; 2] = [None, None];
    for (si, solver) in ["gaussian_elimination", "lazy_gaussian_elimination"].into_iter().enumerate() {
        let via = c.rng().random_bool(0.5);
        let mut sys = build_sys::<W>(s, via);
        c.check("num", sys.num_vars() == s.n && sys.num_equations() == s.eqs.len(), || {
            format!("num_vars()={} num_equations()={} for {}", sys.num_vars(), sys.num_equations(), show_sys(s, W::NAME))
        });
        let r = catch(|| if si == 0 { sys.gaussian_elimination() } else { sys.lazy_gaussian_elimination() });
        c.tick(1);
        match r {
            Err(m) => {
                c.fail(solver, "panic", &m, &format!("{}() panicked (the system is {}): {}", solver, if want { "solvable" } else { "unsolvable" }, show_sys(s, W::NAME)));
            }
            Ok(Err(_e)) => {
                verdicts[si] = Some(false);
                if want {
                    c.fail(solver, "mismatch", "Err on a solvable system", &format!("{}() returned Err but rank(A)=rank([A|c]): {}", solver, show_sys(s, W::NAME)));
                }
            }
            Ok(Ok(sol)) => {
                verdicts[si] = Some(true);
                if sol.len() != s.n {
                    c.fail(solver, "mismatch", "solution of the wrong length", &format!("{}() returned {} values for {}", solver, sol.len(), show_sys(s, W::NAME)));
                    continue;
                }
                let sol128: Vec<u128> = sol.iter().map(|x| x.to128()).collect();
                let bad = first_violated(s, &sol128);
                if !want {
                    c.fail(
                        solver,
                        "mismatch",
                        "Ok on an unsolvable system",
                        &format!("{}() returned Ok but the system is unsolvable (equation #{:?} violated by the returned assignment {:x?}): {}", solver, bad, sol128, show_sys(s, W::NAME)),
                    );
                } else if let Some(i) = bad {
                    c.fail(
                        solver,
                        "mismatch",
                        "assignment violates an equation",
                        &format!("{}() returned {:x?}, which violates equation #{} {:?}={:#x} of {}", solver, sol128, i, s.eqs[i].0, s.eqs[i].1, show_sys(s, W::NAME)),
                    );
                }
                // the crate's own check, on a pristine copy of the system
                let pristine = build_sys::<W>(s, !via);
                match catch(|| pristine.check(&sol)) {
                    Ok(ok) => {
                        c.tick(1);
                        if ok != bad.is_none() {
                            c.fail(
                                "check",
                                "mismatch",
                                if ok { "check() accepts a violating assignment" } else { "check() rejects a satisfying assignment" },
                                &format!("check({:x?})={} on a fresh copy, harness evaluator says first violated equation = {:?} (assignment from {}); {}", sol128, ok, bad, solver, show_sys(s, W::NAME)),
                            );
                        }
                    }
                    Err(m) => c.fail("check", "panic", &m, &format!("check({:x?}) panicked on {}", sol128, show_sys(s, W::NAME))),
                }
            }
        }
    }
    if let [Some(a), Some(b)] = verdicts {
        c.check("agree", a == b, || format!("gaussian_elimination is_ok={} but lazy_gaussian_elimination is_ok={} (oracle: solvable={}): {}", a, b, want, show_sys(s, W::NAME)));
    }
    want
}

fn n_class(n: usize) -> &'static str {
    match n {
        0 => "n=0",
        1 => "n=1",
        2..=3 => "n=2..3",
        4..=16 => "n=4..16",
        17..=63 => "n=17..63",
        64 => "n=64",
        65..=128 => "n=65..128",
        _ => "n=129..200",
    }
}

fn m_class(m: usize, n: usize) -> &'static str {
    if m == 0 {
        "m=0"
    } else if m == 1 {
        "m=1"
    } else if m * 2 <= n {
        "m<=n/2"
    } else if m < n {
        "n/2<m<n"
    } else if m == n {
        "m=n"
    } else {
        "m>n"
    }
}

/// One case: `batch` systems of one shape / word type / size class.
fn run_case<W: MW>(c: &mut Case, shape: Shape, n: usize, m: usize, batch: usize, small: bool) {
    let mut shown: Vec<String> = Vec::new();
    let (mut sat, mut unsat, mut nontrivial) = (0, 0, false);
    for b in 0..batch {
        let s = gen_system(c.rng(), shape, n, m, W::NBITS);
        let cost = s.n * s.eqs.len() * W::NBITS as usize;
        let literal = if small { s.n * s.eqs.len() <= 40 } else { cost <= 40_000 || c.rng().random_range(0..16) == 0 };
        let want = check_system::<W>(c, &s, literal);
        if want {
            sat += 1
        } else {
            unsat += 1
        }
        if s.eqs.len() >= 2 && s.n >= 2 {
            nontrivial = true;
        }
        if c.want_input && b < 6 {
            shown.push(format!("#{} ({}): {}", b, if want { "solvable" } else { "unsolvable" }, show_sys(&s, W::NAME)));
        }
    }
    if nontrivial {
        c.nontrivial();
    }
    let out = if unsat == 0 {
        "solvable"
    } else if sat == 0 {
        "unsolvable"
    } else {
        "both"
    };
    c.set_cell(format!("{}|{}|{}|{}|{}", W::NAME, shape.name(), n_class(n), m_class(m, n), out));
    c.describe(|| format!("{} system(s), {} solvable, {} unsolvable: {}", batch, sat, unsat, shown.join(" || ")));
}

fn dispatch(c: &mut Case, w: usize, shape: Shape, n: usize, m: usize, batch: usize, small: bool) {
    match w {
        0 => run_case::<u8>(c, shape, n, m, batch, small),
        1 => run_case::<u16>(c, shape, n, m, batch, small),
        2 => run_case::<u32>(c, shape, n, m, batch, small),
        3 => run_case::<u64>(c, shape, n, m, batch, small),
        4 => run_case::<u128>(c, shape, n, m, batch, small),
        _ => run_case::<usize>(c, shape, n, m, batch, small),
    }
}

const WNAMES: [&str; 6] = ["u8", "u16", "u32", "u64", "u128", "usize"];

fn main() {
    let mut ctx = Ctx::from_args("C19");
    ctx.set_hang_limit(120);
    let small = ctx.small;
    let batch = ctx.scale(3, 6, 24);

    // 1. hand-made systems (each with every word type)
    {
        let hand: Vec<(&str, usize, Vec<(Vec<u32>, u128)>)> = vec![
            ("no-equations-n0", 0, vec![]),
            ("no-equations-n1", 1, vec![]),
            ("no-equations-n7", 7, vec![]),
            ("one-singleton", 2, vec![(vec![0], 3)]),
            ("one-singleton-last-var", 2, vec![(vec![1], 1)]),
            ("impossible-pair", 1, vec![(vec![0], 0), (vec![0], 1)]),
            ("redundant-pair", 1, vec![(vec![0], 0), (vec![0], 0)]),
            ("redundant-pair-nonzero", 1, vec![(vec![0], 5), (vec![0], 5)]),
            ("unit-test-system", 11, vec![(vec![1, 4, 10], 0), (vec![1, 4, 9], 2), (vec![0, 6, 8], 0), (vec![0, 6, 9], 1), (vec![2, 4, 8], 2), (vec![2, 6, 10], 0)]),
            ("triple-repeat", 3, vec![(vec![0, 1, 2], 1), (vec![0, 1, 2], 1), (vec![0, 1, 2], 1)]),
            ("triple-repeat-then-more", 3, vec![(vec![0, 1], 1), (vec![0, 1], 1), (vec![0], 1), (vec![1, 2], 0)]),
            ("identity-in-the-middle", 4, vec![(vec![0, 1], 1), (vec![2, 3], 1), (vec![2, 3], 1), (vec![0], 0), (vec![3], 1)]),
            ("identity-last", 3, vec![(vec![0, 1], 1), (vec![1, 2], 0), (vec![2], 1), (vec![2], 1)]),
            ("contradiction-last", 3, vec![(vec![0, 1], 1), (vec![1, 2], 0), (vec![2], 1), (vec![2], 0)]),
            ("contradiction-by-sum", 3, vec![(vec![0, 1], 1), (vec![1, 2], 1), (vec![0, 2], 1)]),
            ("dependent-by-sum", 3, vec![(vec![0, 1], 1), (vec![1, 2], 1), (vec![0, 2], 0)]),
            ("triangle-plus-unit", 3, vec![(vec![0, 1], 1), (vec![1, 2], 1), (vec![0, 2], 0), (vec![0], 1)]),
            ("full-rank-3", 3, vec![(vec![0, 1, 2], 7), (vec![1, 2], 3), (vec![2], 1)]),
            ("reverse-order", 3, vec![(vec![2], 1), (vec![1, 2], 3), (vec![0, 1, 2], 7)]),
            ("unused-vars-around", 10, vec![(vec![3, 7], 1), (vec![7], 1)]),
            ("two-cores", 8, vec![(vec![0, 1, 2], 1), (vec![0, 1, 3], 0), (vec![0, 2, 3], 1), (vec![1, 2, 3], 1), (vec![4, 5, 6], 1), (vec![4, 5, 7], 1), (vec![4, 6, 7], 0), (vec![5, 6, 7], 1)]),
            ("core-unsolvable", 4, vec![(vec![0, 1, 2], 1), (vec![0, 1, 3], 0), (vec![0, 2, 3], 1), (vec![1, 2, 3], 1), (vec![0, 1, 2, 3], 0), (vec![0], 0), (vec![0], 1)]),
            ("k4-even-cycle-consistent", 4, vec![(vec![0, 1], 1), (vec![1, 2], 1), (vec![2, 3], 1), (vec![0, 3], 1)]),
            ("k4-even-cycle-inconsistent", 4, vec![(vec![0, 1], 1), (vec![1, 2], 1), (vec![2, 3], 1), (vec![0, 3], 0)]),
        ];
        for (name, n, eqs) in &hand {
            for w in 0..6 {
                if small && w % 2 == 1 {
                    continue;
                }
                ctx.case(WNAMES[w], &format!("hand/{}", name), "solve", |c| {
                    fn go<W: MW>(c: &mut Case, name: &str, n: usize, eqs: &[(Vec<u32>, u128)]) {
                        // the hand-made constants as they are, then spread over the word
                        let mut sat = 0;
                        let mut descr = vec![];
                        for variant in 0..3 {
                            let s = Sys {
                                n,
                                eqs: eqs
                                    .iter()
                                    .map(|(v, k)| {
                                        let k = match variant {
                                            0 => *k & mask(W::NBITS),
                                            1 => (*k & 1) << (W::NBITS - 1),
                                            _ => (*k).wrapping_mul(0x0101_0101_0101_0101_0101_0101_0101_0101) & mask(W::NBITS),
                                        };
                                        (v.clone(), k)
                                    })
                                    .collect(),
                            };
                            if check_system::<W>(c, &s, true) {
                                sat += 1;
                            }
                            descr.push(show_sys(&s, W::NAME));
                        }
                        c.nontrivial();
                        c.set_cell(format!("{}|hand/{}|{}of3-solvable", W::NAME, name, sat));
                        c.describe(|| descr.join(" || "));
                    }
                    match w {
                        0 => go::<u8>(c, name, *n, eqs),
                        1 => go::<u16>(c, name, *n, eqs),
                        2 => go::<u32>(c, name, *n, eqs),
                        3 => go::<u64>(c, name, *n, eqs),
                        4 => go::<u128>(c, name, *n, eqs),
                        _ => go::<usize>(c, name, *n, eqs),
                    }
                });
            }
        }
    }

    // 1b. very long equations: the solvers keep per-equation variable counts and
    //     per-variable occurrence lists; nothing may be narrowed below usize
    if !small {
        for &(name, n, long_len) in &[("len255", 300usize, 255usize), ("len256", 300, 256), ("len65535", 65535, 65535), ("len65536", 65536, 65536), ("len65537", 65600, 65537), ("len70000-of-80000", 80000, 70000), ("len131073", 131073, 131073)] {
            for w in [0usize, 3] {
                ctx.case(WNAMES[w], &format!("long-equation/{}", name), "solve", |c| {
                    fn go<W: MW>(c: &mut Case, name: &str, n: usize, long_len: usize) {
                        let bits = W::NBITS;
                        let mut sat = 0;
                        let mut descr = vec![];
                        for variant in 0..4 {
                            // the long equation: the first long_len variables, or a random subset of that size
                            let long: Vec<u32> = if variant % 2 == 0 || long_len == n {
                                (0..long_len as u32).collect()
                            } else {
                                let mut drop: Vec<u32> = (0..(n - long_len)).map(|_| c.rng().random_range(0..n as u32)).collect();
                                drop.sort_unstable();
                                drop.dedup();
                                let mut v: Vec<u32> = (0..n as u32).filter(|x| drop.binary_search(x).is_err()).collect();
                                v.truncate(long_len);
                                v
                            };
                            let k0 = rand_const(c.rng(), bits);
                            let mut eqs: Vec<(Vec<u32>, u128)> = vec![(long.clone(), k0)];
                            // unit equations sharing variables with the long one
                            for &i in &[long[5 % long.len()], long[long.len() / 2], long[long.len() - 1]] {
                                eqs.push((vec![i], rand_const(c.rng(), bits)));
                            }
                            match variant {
                                1 => {
                                    // a second long equation differing in one variable, plus a pair
                                    let mut l2 = long.clone();
                                    l2.remove(long.len() / 3);
                                    eqs.push((l2, rand_const(c.rng(), bits)));
                                    eqs.push((vec![long[1], long[long.len() - 2]], rand_const(c.rng(), bits)));
                                }
                                2 => {
                                    // the long equation again with another constant: unsolvable unless equal
                                    eqs.push((long.clone(), k0 ^ 1));
                                }
                                3 => {
                                    // repeated (redundant) long equation and a dependent triple
                                    eqs.push((long.clone(), k0));
                                    let (a, b, d) = (long[2], long[3], long[4]);
                                    eqs.push((vec![a, b], 1));
                                    eqs.push((vec![b, d], 1));
                                    eqs.push((vec![a, d], 0));
                                }
                                _ => {}
                            }
                            // equations must be pushed in any order
                            if variant >= 2 {
                                eqs.reverse();
                            }
                            let s = Sys { n, eqs };
                            if check_system::<W>(c, &s, false) {
                                sat += 1;
                            }
                            descr.push(format!("variant {}: num_vars={} long equation of {} variables, {} equations, short ones {:?}", variant, n, long_len, s.eqs.len(), s.eqs.iter().filter(|e| e.0.len() < 10).collect::<Vec<_>>()));
                        }
                        c.nontrivial();
                        c.set_cell(format!("{}|long-equation/{}|{}of4-solvable", W::NAME, name, sat));
                        c.describe(|| descr.join(" || "));
                    }
                    match w {
                        0 => go::<u8>(c, name, n, long_len),
                        _ => go::<u64>(c, name, n, long_len),
                    }
                });
            }
        }
    }

    // 2. shape x word type x size grid
    {
        let ns: Vec<usize> = if small { vec![1, 3, 9] } else { vec![1, 2, 3, 5, 8, 20, 63, 64, 65, 128, 129, 200] };
        for (si, shape) in Shape::ALL.into_iter().enumerate() {
            for (ni, &n) in ns.iter().enumerate() {
                let mut ms: Vec<usize> = if small { vec![n.saturating_sub(1).max(1), n + 2] } else { vec![1, n / 2, n.saturating_sub(1), n, n + 1, n + n / 4 + 2, 260] };
                ms.retain(|&m| m >= 1 && m <= 260);
                ms.sort_unstable();
                ms.dedup();
                for (mi, &m) in ms.iter().enumerate() {
                    for w in 0..6 {
                        if small && (si + ni + mi) % 6 != w {
                            continue;
                        }
                        ctx.case(WNAMES[w], shape.name(), "solve", |c| {
                            dispatch(c, w, shape, n, m, batch, small);
                        });
                    }
                }
            }
        }
    }

    // 3. random rounds: random shape, sizes 1..=200 x 0..=260
    let rounds = ctx.scale(8, 9000, 30000);
    for _ in 0..rounds {
        for w in 0..6 {
            ctx.case(WNAMES[w], "random", "solve", |c| {
                let shape = Shape::ALL[c.rng().random_range(0..Shape::ALL.len())];
                let nmax = if small { 10 } else { 200 };
                let n = match c.rng().random_range(0..4) {
                    0 => c.rng().random_range(1..=nmax.min(12)),
                    1 => c.rng().random_range(1..=nmax.min(70)),
                    _ => c.rng().random_range(1..=nmax),
                };
                let mmax = if small { 14 } else { 260 };
                let m = match c.rng().random_range(0..6) {
                    0 => c.rng().random_range(0..=mmax),
                    1 => n.min(mmax),
                    2 => (n + 1).min(mmax),
                    // around the solvability threshold of random systems
                    _ => ((n as f64 * (0.5 + 0.7 * c.rng().random::<f64>())) as usize).min(mmax),
                };
                dispatch(c, w, shape, n, m, batch, small);
            });
        }
        if ctx.out_of_time() {
            break;
        }
    }
    ctx.finish();
}
