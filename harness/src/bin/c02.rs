//! C02 — select(r) / select_zero(r) return the position of the r-th one / zero
//! for every selection structure, parameter set and nesting; `None` from
//! `count` on; in-range `*_unchecked` agree; `b[select(r)] = 1` and
//! `rank(select(r)) = r` where the stack offers indexing and rank.
//!
//! Oracle: sorted position lists of ones and zeros of the generator's own
//! `Vec<bool>` (for the 2^32-bit strata: the generator's list of exceptional
//! positions). A panic in a constructor or query is a violation.
#[path = "common/rank_sel.rs"]
mod rs;

use rand::rngs::SmallRng;
use rand::seq::SliceRandom;
use rand::Rng;
use rs::*;
use std::ops::Index;
use sux::bits::BitVec;
use sux::rank_sel::{Rank9, RankSmall, Select9, SelectAdapt, SelectAdaptConst, SelectSmall, SelectZeroAdapt, SelectZeroAdaptConst, SelectZeroSmall};
use sux::traits::{AddNumBits, Rank, RankZero, Select, SelectUnchecked, SelectZero, SelectZeroUnchecked};
use suxmon::gen::*;
use suxmon::obs::*;

type BV = BitVec<Vec<usize>>;

// ---------------------------------------------------------------------------
// variants

const SMALL_NAMES: [&str; 5] = ["2,9", "1,9", "1,10", "1,11", "3,13"];
const CONSTS: [(usize, usize); 7] = [(5, 1), (6, 0), (8, 2), (10, 3), (12, 3), (13, 0), (13, 16)];
const SPANS: [usize; 7] = [1, 2, 64, 1000, 8192, 65536, 1 << 20];
const BLOCKS_PER_INV: [usize; 4] = [1, 2, 8, 64];

#[derive(Clone, Copy, PartialEq, Debug)]
enum Fam {
    // one-selectors over AddNumBits(BitVec); parameters not in the name are
    // swept inside the case
    AdaptNew,
    AdaptSpan,
    AdaptInv(usize),
    AdaptConst(usize),
    Sel9,
    Small(usize),
    // zero-selectors
    ZAdaptNew,
    ZAdaptSpan,
    ZAdaptInv(usize),
    ZAdaptConst(usize),
    ZSmall(usize),
    // backends without NumBits: only the unchecked methods exist
    AdaptPlain,
    ZAdaptPlain,
    // references / boxes
    AdaptRefBox,
    // structures whose backend was replaced with `map` after construction
    Mapped,
    // nestings
    Nest(usize),
    NestSmall(usize, usize), // (kind, rank_small selector)
}

const NEST_NAMES: [&str; 14] = [
    "SelectZeroAdapt(SelectAdapt(AddNumBits(BitVec)))",
    "SelectAdapt(SelectZeroAdapt(AddNumBits(BitVec)))",
    "SelectAdapt(Rank9)",
    "SelectZeroAdapt(SelectAdapt(Rank9))",
    "SelectAdapt(SelectZeroAdapt(Rank9))",
    "SelectAdaptConst(Rank9)",
    "SelectZeroAdaptConst(SelectAdaptConst(Rank9))",
    "SelectAdaptConst(SelectZeroAdaptConst(AddNumBits(BitVec)))",
    "Select9(Rank9(SelectZeroAdapt(AddNumBits(BitVec))))",
    "SelectZeroAdapt(Select9(Rank9))",
    "SelectZeroAdaptConst(Select9(Rank9))",
    "Rank9(SelectZeroAdapt(SelectAdapt(AddNumBits(BitVec))))",
    "SelectZeroAdapt(Rank9)",
    "SelectZeroAdaptConst(Rank9)",
];
const NEST_SMALL_KINDS: usize = 5;

#[derive(Clone, Debug)]
struct Variant {
    name: String,
    fam: Fam,
}

impl Variant {
    /// the inventory quantum (log2) the aimed strata should use for this
    /// variant, if it is fixed by the variant
    fn fixed_l(&self) -> Option<usize> {
        match self.fam {
            Fam::AdaptInv(l) | Fam::ZAdaptInv(l) => Some(l),
            Fam::AdaptConst(i) | Fam::ZAdaptConst(i) => Some(CONSTS[i].0),
            Fam::Sel9 => Some(9),
            _ => None,
        }
    }
    /// aimed strata are generated for the ones; variants that only select
    /// zeros get the complemented vector
    fn zero_only(&self) -> bool {
        matches!(self.fam, Fam::ZAdaptNew | Fam::ZAdaptSpan | Fam::ZAdaptInv(_) | Fam::ZAdaptConst(_) | Fam::ZSmall(_) | Fam::ZAdaptPlain)
    }
    fn is_param_sweep(&self) -> bool {
        matches!(
            self.fam,
            Fam::AdaptNew | Fam::AdaptSpan | Fam::AdaptInv(_) | Fam::AdaptConst(_) | Fam::Sel9 | Fam::Small(_) | Fam::ZAdaptNew | Fam::ZAdaptSpan | Fam::ZAdaptInv(_) | Fam::ZAdaptConst(_) | Fam::ZSmall(_)
        )
    }
}

fn nest_small_name(kind: usize, r: usize) -> String {
    let n = SMALL_NAMES[r];
    match kind {
        0 => format!("SelectZeroSmall(SelectSmall(RankSmall<{}>))", n),
        1 => format!("SelectSmall(SelectZeroSmall(RankSmall<{}>))", n),
        2 => format!("SelectAdapt(RankSmall<{}>)", n),
        3 => format!("SelectZeroAdapt(SelectSmall(RankSmall<{}>))", n),
        _ => format!("SelectSmall(RankSmall<{}>(SelectZeroAdapt(AddNumBits(BitVec))))", n),
    }
}

fn all_variants() -> Vec<Variant> {
    let mut v = Vec::new();
    let mut add = |name: String, fam: Fam| v.push(Variant { name, fam });
    add("SelectAdapt::new".into(), Fam::AdaptNew);
    add("SelectAdapt::with_span".into(), Fam::AdaptSpan);
    for l in 0..=13 {
        add(format!("SelectAdapt::with_inv(L={})", l), Fam::AdaptInv(l));
    }
    for (i, (l, s)) in CONSTS.iter().enumerate() {
        add(format!("SelectAdaptConst<{},{}>", l, s), Fam::AdaptConst(i));
    }
    add("Select9".into(), Fam::Sel9);
    for r in 0..5 {
        add(format!("SelectSmall<{}>", SMALL_NAMES[r]), Fam::Small(r));
    }
    add("SelectZeroAdapt::new".into(), Fam::ZAdaptNew);
    add("SelectZeroAdapt::with_span".into(), Fam::ZAdaptSpan);
    for l in 0..=13 {
        add(format!("SelectZeroAdapt::with_inv(L={})", l), Fam::ZAdaptInv(l));
    }
    for (i, (l, s)) in CONSTS.iter().enumerate() {
        add(format!("SelectZeroAdaptConst<{},{}>", l, s), Fam::ZAdaptConst(i));
    }
    for r in 0..5 {
        add(format!("SelectZeroSmall<{}>", SMALL_NAMES[r]), Fam::ZSmall(r));
    }
    add("SelectAdapt(BitVec)/unchecked".into(), Fam::AdaptPlain);
    add("SelectZeroAdapt(BitVec)/unchecked".into(), Fam::ZAdaptPlain);
    add("&SelectAdapt,Box<SelectAdapt>,SelectAdapt(&AddNumBits)".into(), Fam::AdaptRefBox);
    add("map(backend -> Rank9 / RankSmall)".into(), Fam::Mapped);
    for (k, n) in NEST_NAMES.iter().enumerate() {
        add(n.to_string(), Fam::Nest(k));
    }
    for kind in 0..NEST_SMALL_KINDS {
        for r in 0..5 {
            add(nest_small_name(kind, r), Fam::NestSmall(kind, r));
        }
    }
    v
}

// ---------------------------------------------------------------------------
// checks

struct Q<'a> {
    m: &'a dyn Oracle,
    input: &'a dyn Fn() -> String,
    r1: &'a [usize],
    r0: &'a [usize],
}

fn build<T>(c: &mut Case, q: &Q, desc: &str, f: impl FnOnce() -> T) -> Option<T> {
    let w = || format!("{} over {}", desc, (q.input)());
    guarded_new(c, &w, f)
}

fn sel<S: Select + ?Sized>(c: &mut Case, s: &S, q: &Q, desc: &str) {
    let w = || format!("{} over {}", desc, (q.input)());
    obs_select(c, s, &Env { m: q.m, what: &w }, q.r1);
}

fn zsel<S: SelectZero + ?Sized>(c: &mut Case, s: &S, q: &Q, desc: &str) {
    let w = || format!("{} over {}", desc, (q.input)());
    obs_select_zero(c, s, &Env { m: q.m, what: &w }, q.r0);
}

fn sel_unchecked<S: SelectUnchecked + ?Sized>(c: &mut Case, s: &S, q: &Q, desc: &str) {
    let w = || format!("{} over {}", desc, (q.input)());
    obs_select_unchecked(c, s, &Env { m: q.m, what: &w }, q.r1);
}

fn zsel_unchecked<S: SelectZeroUnchecked + ?Sized>(c: &mut Case, s: &S, q: &Q, desc: &str) {
    let w = || format!("{} over {}", desc, (q.input)());
    obs_select_zero_unchecked(c, s, &Env { m: q.m, what: &w }, q.r0);
}

fn both<S: Select + SelectZero>(c: &mut Case, s: &S, q: &Q, desc: &str) {
    sel(c, s, q, desc);
    zsel(c, s, q, desc);
}

/// select + the round trip through rank / index of the same stack
fn sel_rt<S: Select + Rank + Index<usize, Output = bool>>(c: &mut Case, s: &S, q: &Q, desc: &str) {
    let w = || format!("{} over {}", desc, (q.input)());
    let e = Env { m: q.m, what: &w };
    obs_select(c, s, &e, q.r1);
    obs_select_roundtrip(c, s, &e, q.r1);
}

fn zsel_rt<S: SelectZero + RankZero + Index<usize, Output = bool>>(c: &mut Case, s: &S, q: &Q, desc: &str) {
    let w = || format!("{} over {}", desc, (q.input)());
    let e = Env { m: q.m, what: &w };
    obs_select_zero(c, s, &e, q.r0);
    obs_select_zero_roundtrip(c, s, &e, q.r0);
}

fn both_rt<S: Select + SelectZero + RankZero + Index<usize, Output = bool>>(c: &mut Case, s: &S, q: &Q, desc: &str) {
    sel_rt(c, s, q, desc);
    zsel_rt(c, s, q, desc);
}

macro_rules! for_const7 {
    ($k:expr, $cb:ident ! ( $($pre:tt)* )) => {
        match $k {
            0 => $cb!($($pre)* 5, 1),
            1 => $cb!($($pre)* 6, 0),
            2 => $cb!($($pre)* 8, 2),
            3 => $cb!($($pre)* 10, 3),
            4 => $cb!($($pre)* 12, 3),
            5 => $cb!($($pre)* 13, 0),
            _ => $cb!($($pre)* 13, 16),
        }
    };
}

macro_rules! for_small5 {
    ($k:expr, $cb:ident ! ( $($pre:tt)* )) => {
        match $k {
            0 => $cb!($($pre)* 2, 9),
            1 => $cb!($($pre)* 1, 9),
            2 => $cb!($($pre)* 1, 10),
            3 => $cb!($($pre)* 1, 11),
            _ => $cb!($($pre)* 3, 13),
        }
    };
}

macro_rules! v_adapt_const {
    ($c:ident, $bv:ident, $q:ident, $l:literal, $s:literal) => {{
        let d = format!("SelectAdaptConst::<_, _, {}, {}>::new(AddNumBits(b))", $l, $s);
        if let Some(s) = build($c, $q, &d, move || SelectAdaptConst::<_, _, $l, $s>::new(AddNumBits::from($bv))) {
            sel($c, &s, $q, &d);
        }
    }};
}
macro_rules! v_zadapt_const {
    ($c:ident, $bv:ident, $q:ident, $l:literal, $s:literal) => {{
        let d = format!("SelectZeroAdaptConst::<_, _, {}, {}>::new(AddNumBits(b))", $l, $s);
        if let Some(s) = build($c, $q, &d, move || SelectZeroAdaptConst::<_, _, $l, $s>::new(AddNumBits::from($bv))) {
            zsel($c, &s, $q, &d);
        }
    }};
}
macro_rules! v_small {
    ($c:ident, $bv:ident, $q:ident, $n:literal, $w:literal) => {{
        let d = format!("SelectSmall::<{}, {}, _>::new(RankSmall::new(b))", $n, $w);
        if let Some(s) = build($c, $q, &d, move || SelectSmall::<$n, $w, _>::new(RankSmall::<$n, $w, _, _, _>::new($bv))) {
            sel_rt($c, &s, $q, &d);
            let mut rs = Some(s.into_inner());
            for &b in &BLOCKS_PER_INV {
                let d = format!("SelectSmall::<{}, {}, _>::with_inv(RankSmall::new(b), {})", $n, $w, b);
                let r = rs.take().unwrap();
                match build($c, $q, &d, move || SelectSmall::<$n, $w, _>::with_inv(r, b)) {
                    Some(s) => {
                        sel($c, &s, $q, &d);
                        rs = Some(s.into_inner());
                    }
                    None => break,
                }
            }
        }
    }};
}
macro_rules! v_zsmall {
    ($c:ident, $bv:ident, $q:ident, $n:literal, $w:literal) => {{
        let d = format!("SelectZeroSmall::<{}, {}, _>::new(RankSmall::new(b))", $n, $w);
        if let Some(s) = build($c, $q, &d, move || SelectZeroSmall::<$n, $w, _>::new(RankSmall::<$n, $w, _, _, _>::new($bv))) {
            zsel_rt($c, &s, $q, &d);
            let mut rs = Some(s.into_inner());
            for &b in &BLOCKS_PER_INV {
                let d = format!("SelectZeroSmall::<{}, {}, _>::with_inv(RankSmall::new(b), {})", $n, $w, b);
                let r = rs.take().unwrap();
                match build($c, $q, &d, move || SelectZeroSmall::<$n, $w, _>::with_inv(r, b)) {
                    Some(s) => {
                        zsel($c, &s, $q, &d);
                        rs = Some(s.into_inner());
                    }
                    None => break,
                }
            }
        }
    }};
}
macro_rules! v_nest_small {
    ($c:ident, $bv:ident, $q:ident, $kind:ident, $name:ident, $n:literal, $w:literal) => {{
        let d: &str = $name;
        match $kind {
            0 => {
                if let Some(s) = build($c, $q, d, move || SelectZeroSmall::<$n, $w, _>::new(SelectSmall::<$n, $w, _>::new(RankSmall::<$n, $w, _, _, _>::new($bv)))) {
                    both_rt($c, &s, $q, d);
                }
            }
            1 => {
                if let Some(s) = build($c, $q, d, move || SelectSmall::<$n, $w, _>::new(SelectZeroSmall::<$n, $w, _>::new(RankSmall::<$n, $w, _, _, _>::new($bv)))) {
                    both_rt($c, &s, $q, d);
                }
            }
            2 => {
                if let Some(s) = build($c, $q, d, move || SelectAdapt::new(RankSmall::<$n, $w, _, _, _>::new($bv), 3)) {
                    sel_rt($c, &s, $q, d);
                }
            }
            3 => {
                if let Some(s) = build($c, $q, d, move || SelectZeroAdapt::new(SelectSmall::<$n, $w, _>::new(RankSmall::<$n, $w, _, _, _>::new($bv)), 3)) {
                    both_rt($c, &s, $q, d);
                }
            }
            _ => {
                if let Some(s) = build($c, $q, d, move || {
                    SelectSmall::<$n, $w, _>::new(RankSmall::<$n, $w, _, _, _>::new(SelectZeroAdapt::new(AddNumBits::from($bv), 3)))
                }) {
                    both_rt($c, &s, $q, d);
                }
            }
        }
    }};
}

/// Builds every structure of variant `v` over `bv` and checks it.
fn run_variant(c: &mut Case, v: &Variant, bv: BV, q: &Q) {
    let ones = q.m.ones();
    let zeros = q.m.zeros();
    match v.fam {
        Fam::AdaptNew => {
            let b: AddNumBits<BV> = bv.into();
            for m in 0..=5usize {
                let d = format!("SelectAdapt::new(&AddNumBits(b), {})", m);
                if let Some(s) = build(c, q, &d, || SelectAdapt::new(&b, m)) {
                    sel(c, &s, q, &d);
                }
            }
        }
        Fam::AdaptSpan => {
            let b: AddNumBits<BV> = bv.into();
            for (i, &span) in SPANS.iter().enumerate() {
                let m = [3usize, 0, 5, 1, 4, 2, 3][i];
                let d = format!("SelectAdapt::with_span(&AddNumBits(b), {}, {})", span, m);
                if let Some(s) = build(c, q, &d, || SelectAdapt::with_span(&b, span, m)) {
                    sel(c, &s, q, &d);
                }
            }
        }
        Fam::AdaptInv(l) => {
            let b: AddNumBits<BV> = bv.into();
            for m in 0..=5usize {
                let d = format!("SelectAdapt::with_inv(&AddNumBits(b), {}, {})", l, m);
                if let Some(s) = build(c, q, &d, || SelectAdapt::with_inv(&b, l, m)) {
                    sel(c, &s, q, &d);
                }
            }
        }
        Fam::AdaptConst(i) => {
            if CONSTS[i].1 == 16 && ones > 1 << 18 {
                return; // 2^16 words per inventory entry: keep the memory bounded
            }
            for_const7!(i, v_adapt_const!(c, bv, q,))
        }
        Fam::Sel9 => {
            let d = "Select9::new(Rank9::new(b))";
            if let Some(s) = build(c, q, d, move || Select9::new(Rank9::new(bv))) {
                sel_rt(c, &s, q, d);
            }
        }
        Fam::Small(r) => for_small5!(r, v_small!(c, bv, q,)),
        Fam::ZAdaptNew => {
            let b: AddNumBits<BV> = bv.into();
            for m in 0..=5usize {
                let d = format!("SelectZeroAdapt::new(&AddNumBits(b), {})", m);
                if let Some(s) = build(c, q, &d, || SelectZeroAdapt::new(&b, m)) {
                    zsel(c, &s, q, &d);
                }
            }
        }
        Fam::ZAdaptSpan => {
            let b: AddNumBits<BV> = bv.into();
            for (i, &span) in SPANS.iter().enumerate() {
                let m = [3usize, 0, 5, 1, 4, 2, 3][i];
                let d = format!("SelectZeroAdapt::with_span(&AddNumBits(b), {}, {})", span, m);
                if let Some(s) = build(c, q, &d, || SelectZeroAdapt::with_span(&b, span, m)) {
                    zsel(c, &s, q, &d);
                }
            }
        }
        Fam::ZAdaptInv(l) => {
            let b: AddNumBits<BV> = bv.into();
            for m in 0..=5usize {
                let d = format!("SelectZeroAdapt::with_inv(&AddNumBits(b), {}, {})", l, m);
                if let Some(s) = build(c, q, &d, || SelectZeroAdapt::with_inv(&b, l, m)) {
                    zsel(c, &s, q, &d);
                }
            }
        }
        Fam::ZAdaptConst(i) => {
            if CONSTS[i].1 == 16 && zeros > 1 << 18 {
                return;
            }
            for_const7!(i, v_zadapt_const!(c, bv, q,))
        }
        Fam::ZSmall(r) => for_small5!(r, v_zsmall!(c, bv, q,)),
        Fam::AdaptPlain => {
            for (l, m) in [(usize::MAX, 3usize), (0, 0), (4, 1), (9, 3), (13, 5)] {
                let d = if l == usize::MAX { format!("SelectAdapt::new(&b, {})", m) } else { format!("SelectAdapt::with_inv(&b, {}, {})", l, m) };
                let b = &bv;
                if let Some(s) = build(c, q, &d, || if l == usize::MAX { SelectAdapt::new(b, m) } else { SelectAdapt::with_inv(b, l, m) }) {
                    sel_unchecked(c, &s, q, &d);
                }
            }
        }
        Fam::ZAdaptPlain => {
            for (l, m) in [(usize::MAX, 3usize), (0, 0), (4, 1), (9, 3), (13, 5)] {
                let d = if l == usize::MAX { format!("SelectZeroAdapt::new(&b, {})", m) } else { format!("SelectZeroAdapt::with_inv(&b, {}, {})", l, m) };
                let b = &bv;
                if let Some(s) = build(c, q, &d, || if l == usize::MAX { SelectZeroAdapt::new(b, m) } else { SelectZeroAdapt::with_inv(b, l, m) }) {
                    zsel_unchecked(c, &s, q, &d);
                }
            }
        }
        Fam::Mapped => {
            // `map` is the documented way to put a rank structure under an existing
            // selector: the mapped structure must answer like a freshly built one
            let params: [(usize, usize); 5] = [(usize::MAX, 3), (0, 0), (3, 3), (10, 3), (13, 5)];
            for &(l, m) in params.iter() {
                let d = if l == usize::MAX { format!("SelectAdapt::new(AddNumBits(b), {}).map(|x| Rank9::new(x.into_inner()))", m) } else { format!("SelectAdapt::with_inv(AddNumBits(b), {}, {}).map(|x| Rank9::new(x.into_inner()))", l, m) };
                let b = bv.clone();
                if let Some(s) = build(c, q, &d, move || {
                    let s = if l == usize::MAX { SelectAdapt::new(AddNumBits::from(b), m) } else { SelectAdapt::with_inv(AddNumBits::from(b), l, m) };
                    unsafe { s.map(|x| Rank9::new(x.into_inner())) }
                }) {
                    sel_rt(c, &s, q, &d);
                }
                let d = format!("SelectZeroAdapt (L={}, M={}) over AddNumBits(b), then .map(|x| RankSmall<2,9>::new(x.into_inner()))", l, m);
                let b = bv.clone();
                if let Some(s) = build(c, q, &d, move || {
                    let s = if l == usize::MAX { SelectZeroAdapt::new(AddNumBits::from(b), m) } else { SelectZeroAdapt::with_inv(AddNumBits::from(b), l, m) };
                    unsafe { s.map(|x| RankSmall::<2, 9, _, _, _>::new(x.into_inner())) }
                }) {
                    zsel_rt(c, &s, q, &d);
                }
            }
            {
                let d = "SelectAdaptConst::new(AddNumBits(b)).map(|x| Rank9::new(x.into_inner()))";
                let b = bv.clone();
                if let Some(s) = build(c, q, d, move || unsafe { SelectAdaptConst::<_, _>::new(AddNumBits::from(b)).map(|x| Rank9::new(x.into_inner())) }) {
                    sel_rt(c, &s, q, d);
                }
                let d = "SelectZeroAdaptConst::new(AddNumBits(b)).map(|x| Rank9::new(x.into_inner()))";
                let b = bv.clone();
                if let Some(s) = build(c, q, d, move || unsafe { SelectZeroAdaptConst::<_, _>::new(AddNumBits::from(b)).map(|x| Rank9::new(x.into_inner())) }) {
                    zsel_rt(c, &s, q, d);
                }
                // a nested pair, both layers mapped: zero selector over one selector over Rank9
                let d = "SelectZeroAdapt(SelectAdapt(AddNumBits(b))) with the inner backend mapped to Rank9";
                let b = bv.clone();
                if let Some(s) = build(c, q, d, move || unsafe { SelectZeroAdapt::new(SelectAdapt::new(AddNumBits::from(b), 3), 3).map(|inner| inner.map(|x| Rank9::new(x.into_inner()))) }) {
                    both_rt(c, &s, q, d);
                }
            }
        }
        Fam::AdaptRefBox => {
            let d = "SelectZeroAdapt::new(SelectAdapt::new(AddNumBits(b), 3), 3) behind & and Box";
            if let Some(s) = build(c, q, d, move || SelectZeroAdapt::new(SelectAdapt::new(AddNumBits::from(bv), 3), 3)) {
                let r = &s;
                sel(c, &r, q, d); // S = &T
                zsel(c, &r, q, d);
                let bx = Box::new(s);
                sel(c, &bx, q, d); // S = Box<T>
                zsel(c, &bx, q, d);
                let dy: &dyn Select = &*bx;
                sel(c, dy, q, "the same structure as &dyn Select");
                let dz: &dyn SelectZero = &*bx;
                zsel(c, dz, q, "the same structure as &dyn SelectZero");
            }
        }
        Fam::Nest(k) => {
            let d = NEST_NAMES[k];
            match k {
                0 => {
                    if let Some(s) = build(c, q, d, move || SelectZeroAdapt::new(SelectAdapt::new(AddNumBits::from(bv), 3), 3)) {
                        both(c, &s, q, d);
                    }
                }
                1 => {
                    if let Some(s) = build(c, q, d, move || SelectAdapt::new(SelectZeroAdapt::new(AddNumBits::from(bv), 3), 3)) {
                        both(c, &s, q, d);
                    }
                }
                2 => {
                    if let Some(s) = build(c, q, d, move || SelectAdapt::new(Rank9::new(bv), 3)) {
                        sel_rt(c, &s, q, d);
                    }
                }
                3 => {
                    if let Some(s) = build(c, q, d, move || SelectZeroAdapt::new(SelectAdapt::new(Rank9::new(bv), 3), 3)) {
                        both_rt(c, &s, q, d);
                    }
                }
                4 => {
                    if let Some(s) = build(c, q, d, move || SelectAdapt::new(SelectZeroAdapt::new(Rank9::new(bv), 3), 3)) {
                        both_rt(c, &s, q, d);
                    }
                }
                5 => {
                    if let Some(s) = build(c, q, d, move || SelectAdaptConst::<_, _>::new(Rank9::new(bv))) {
                        sel_rt(c, &s, q, d);
                    }
                }
                6 => {
                    if let Some(s) = build(c, q, d, move || SelectZeroAdaptConst::<_, _>::new(SelectAdaptConst::<_, _>::new(Rank9::new(bv)))) {
                        both_rt(c, &s, q, d);
                    }
                }
                7 => {
                    if let Some(s) = build(c, q, d, move || SelectAdaptConst::<_, _>::new(SelectZeroAdaptConst::<_, _>::new(AddNumBits::from(bv)))) {
                        both(c, &s, q, d);
                    }
                }
                8 => {
                    if let Some(s) = build(c, q, d, move || Select9::new(Rank9::new(SelectZeroAdapt::new(AddNumBits::from(bv), 3)))) {
                        both_rt(c, &s, q, d);
                    }
                }
                9 => {
                    if let Some(s) = build(c, q, d, move || SelectZeroAdapt::new(Select9::new(Rank9::new(bv)), 3)) {
                        both_rt(c, &s, q, d);
                    }
                }
                10 => {
                    if let Some(s) = build(c, q, d, move || SelectZeroAdaptConst::<_, _>::new(Select9::new(Rank9::new(bv)))) {
                        both_rt(c, &s, q, d);
                    }
                }
                11 => {
                    if let Some(s) = build(c, q, d, move || Rank9::new(SelectZeroAdapt::new(SelectAdapt::new(AddNumBits::from(bv), 3), 3))) {
                        both_rt(c, &s, q, d);
                    }
                }
                12 => {
                    if let Some(s) = build(c, q, d, move || SelectZeroAdapt::new(Rank9::new(bv), 3)) {
                        zsel_rt(c, &s, q, d);
                    }
                }
                _ => {
                    if let Some(s) = build(c, q, d, move || SelectZeroAdaptConst::<_, _>::new(Rank9::new(bv))) {
                        zsel_rt(c, &s, q, d);
                    }
                }
            }
        }
        Fam::NestSmall(kind, r) => {
            let name: &str = &v.name;
            for_small5!(r, v_nest_small!(c, bv, q, kind, name,))
        }
    }
}

// ---------------------------------------------------------------------------
// aimed strata (generated for the ones; complemented for zero-only variants)

/// `k` distinct values in `lo..hi`, sorted.
fn distinct_in(rng: &mut SmallRng, k: usize, lo: usize, hi: usize) -> Vec<usize> {
    let n = hi - lo;
    assert!(k <= n);
    if k * 2 > n {
        let mut all: Vec<usize> = (lo..hi).collect();
        all.shuffle(rng);
        all.truncate(k);
        all.sort_unstable();
        return all;
    }
    let mut set = std::collections::BTreeSet::new();
    while set.len() < k {
        set.insert(rng.random_range(lo..hi));
    }
    set.into_iter().collect()
}

/// Ones such that the distance from the one of rank `j*2^l` to the one of
/// rank `(j+1)*2^l` is exactly `spans[j]`; the last (ragged) group has `rag`
/// ones and the vector ends `tail` bits after its first one.
fn gen_spans(rng: &mut SmallRng, l: usize, spans: &[usize], start: usize, rag: usize, tail: usize) -> (usize, Vec<usize>) {
    let per = 1usize << l;
    let mut ones = Vec::new();
    let mut cur = start;
    for &sp in spans {
        assert!(sp >= per);
        ones.push(cur);
        if per >= 2 {
            // the last position of the span always holds a one: its offset
            // (sp - 1) is the largest a subinventory entry can have to store
            ones.extend(distinct_in(rng, per - 2, cur + 1, cur + sp - 1));
            ones.push(cur + sp - 1);
        }
        cur += sp;
    }
    let rag = rag.clamp(1, per).min(tail);
    ones.push(cur);
    ones.extend(distinct_in(rng, rag - 1, cur + 1, cur + tail));
    (cur + tail, ones)
}

#[derive(Clone, Copy, Debug, PartialEq)]
enum Aim {
    /// inventory spans 2^16-1, 2^16, 2^16+1 (16/32-bit threshold)
    Gap16,
    /// spans 2^17..2^20: 32-bit subinventories with spill
    Gap32,
    /// number of ones = k*2^l + {-1,0,1} with a ragged tail
    Quantum,
    /// sparse vector, word count = r mod 4, first one far from 0
    SparseWords(usize),
    /// Select9 subinventory span thresholds (in units of 256 bits)
    Sel9Spans(usize),
}

impl Aim {
    fn name(&self, l: usize) -> String {
        match self {
            Aim::Gap16 => format!("aimed/gap2^16+-1/L={}", l),
            Aim::Gap32 => format!("aimed/gap2^17..2^20/L={}", l),
            Aim::Quantum => format!("aimed/count=k*2^L+-1/L={}", l),
            Aim::SparseWords(r) => format!("aimed/sparse,words%4={},first-one-far", r),
            Aim::Sel9Spans(g) => format!("aimed/select9-span-thresholds/group{}", g),
        }
    }
}

const SEL9_K: [[usize; 4]; 4] = [[1, 2, 15, 16], [17, 127, 128, 129], [255, 256, 257, 3], [511, 512, 513, 1]];

fn gen_aimed(rng: &mut SmallRng, aim: Aim, l: usize) -> (usize, Vec<usize>, String) {
    let per = 1usize << l;
    let starts = [0usize, 1, 63, 64, 65, 511, 4096];
    let start = if rng.random_bool(0.3) { rng.random_range(0..1usize << 17) } else { starts[rng.random_range(0..starts.len())] };
    match aim {
        Aim::Gap16 => {
            let mut spans = vec![65535usize, 65536, 65537];
            let extra = [65535usize, 65536, 65537, per.max(2), per * 4 + 1, 70000, 32768];
            for _ in 0..rng.random_range(0..3) {
                spans.push(extra[rng.random_range(0..extra.len())].max(per));
            }
            spans.shuffle(rng);
            let tail = [65535usize, 65536, 65537, 100, 1][rng.random_range(0..5)];
            let rag = rng.random_range(1..=per);
            let (len, ones) = gen_spans(rng, l, &spans, start, rag, tail);
            (len, ones, format!("spans between every 2^{}-th one: {:?}, first one at {}, last group of {} ones, vector ends {} bits after its first one", l, spans, start, rag, tail))
        }
        Aim::Gap32 => {
            let opts = [(1usize << 17) + 3, 3 << 16, 1 << 18, (1 << 19) + 1, (1 << 20) - 1, 65537];
            let n = rng.random_range(1..=3);
            let spans: Vec<usize> = (0..n).map(|_| opts[rng.random_range(0..opts.len())]).collect();
            let tail = [(1usize << 17) + 1, 65536, 65537, 1000][rng.random_range(0..4)];
            let rag = rng.random_range(1..=per);
            let (len, ones) = gen_spans(rng, l, &spans, start, rag, tail);
            (len, ones, format!("spans between every 2^{}-th one: {:?}, first one at {}, last group of {} ones, vector ends {} bits after its first one", l, spans, start, rag, tail))
        }
        Aim::Quantum => {
            let k = rng.random_range(1..=3usize);
            let d = rng.random_range(0..3usize);
            let count = (k * per + d).saturating_sub(1).max(1);
            let maxgap = ((1usize << 21) / count).max(1);
            let mean = [1usize, 2, 7, 64, 300][rng.random_range(0..5)].min(maxgap);
            let mut ones = Vec::with_capacity(count);
            let mut cur = start.min(4096);
            for _ in 0..count {
                ones.push(cur);
                cur += 1 + rng.random_range(0..2 * mean - 1);
            }
            let tail = [0usize, 1, 62, 63, 64, 200][rng.random_range(0..6)];
            let len = ones[count - 1] + 1 + tail;
            (len, ones, format!("{} ones (k={} quanta of 2^{} {:+}) with gaps around {}, {} zero bits after the last one", count, k, l, d as isize - 1, mean, tail))
        }
        Aim::SparseWords(r) => {
            let kw = [128usize, 260, 516, 1028, 2052, 4100][rng.random_range(0..6)];
            let words = kw + r;
            let len = words * 64 - rng.random_range(0..64usize);
            let n = [1usize, 2, 100, 511, 512, 513, 1100][rng.random_range(0..7)].min(len / 4);
            let lo = if rng.random_bool(0.7) { len / 3 + rng.random_range(0..len / 3) } else { 0 };
            let ones = distinct_in(rng, n, lo, len);
            (len, ones, format!("{} words, {} ones, none before position {}", words, n, lo))
        }
        Aim::Sel9Spans(g) => {
            let ks = SEL9_K[g];
            let mut spans: Vec<usize> = ks.iter().map(|&k| (256 * k + rng.random_range(0..256usize)).max(512)).collect();
            spans.shuffle(rng);
            let tail = 256 * ks[rng.random_range(0..4)] + rng.random_range(1..256usize);
            let rag = rng.random_range(1..=512usize);
            let (len, ones) = gen_spans(rng, 9, &spans, start, rag, tail);
            (len, ones, format!("spans between every 512th one: {:?}, first one at {}, last group of {} ones, vector ends {} bits after its first one", spans, start, rag, tail))
        }
    }
}

// ---------------------------------------------------------------------------
// cases

fn stratum_name(base: &str, tail: Tail) -> String {
    if tail == Tail::Fresh {
        format!("{}/tail=fresh", base)
    } else {
        format!("stale/tail={}/{}", tail.name(), base)
    }
}

/// One vector: build model + sux vector, query points, run the variant.
fn one_vector(c: &mut Case, v: &Variant, bits: Vec<bool>, tail: Tail, nrand: usize, how: &str, desc: &mut String) -> bool {
    let m = SmallModel::new(bits);
    let bv = bitvec_with_tail(c.rng(), &m.bits, tail);
    let r1 = select_ranks(c.rng(), m.ones(), nrand);
    let r0 = select_ranks(c.rng(), m.zeros(), nrand);
    let tn = tail.name();
    let input = || format!("b = [{}; tail={}; bits {}]", how, tn, m.show());
    let q = Q { m: &m, input: &input, r1: &r1, r0: &r0 };
    run_variant(c, v, bv, &q);
    if c.want_input {
        desc.push_str(&input());
        desc.push(' ');
    }
    m.has_both()
}

fn generic_case(run: &mut Runner, v: &Variant, class: &str, lens: &[usize], p: Pat, tail: Tail, nrand: usize) {
    let stratum = stratum_name(&format!("{}/{}", class, p.name()), tail);
    run.case(&v.name, &stratum, "select", |c| {
        let mut desc = String::new();
        let mut nt = false;
        for &len in lens {
            let bits = gen_bits(c.rng(), len, p.pattern());
            nt |= one_vector(c, v, bits, tail, nrand, &format!("len={} pattern={}", len, p.name()), &mut desc);
        }
        // all-ones / all-zeros vectors of at least a block are the saturated
        // strata the property names explicitly
        if nt || lens.iter().any(|&l| l >= 512) {
            c.nontrivial();
        }
        c.describe(|| desc);
    });
}

fn aimed_case(run: &mut Runner, v: &Variant, aim: Aim, l: usize, tail: Tail, reps: usize) {
    let stratum = stratum_name(&aim.name(l), tail);
    let zero_only = v.zero_only();
    run.case(&v.name, &stratum, "select", |c| {
        let mut desc = String::new();
        for _ in 0..reps {
            let (len, ones, how) = gen_aimed(c.rng(), aim, l);
            let mut bits = bits_from_ones(len, &ones);
            let how = if zero_only {
                bits.iter_mut().for_each(|b| *b = !*b);
                format!("len={} complement of: {}", len, how)
            } else {
                format!("len={} {}", len, how)
            };
            one_vector(c, v, bits, tail, 512, &how, &mut desc);
        }
        c.nontrivial();
        c.describe(|| desc);
    });
}

const RAND_CLASS_NAMES: [&str; 4] = ["rand<=4096", "rand<=2^17", "rand<=2^20", "rand<=2^24"];

fn rand_len(c: &mut Case, class: usize) -> usize {
    let max = [4096usize, 1 << 17, 1 << 20, 1 << 24][class];
    let min = [0usize, 4097, (1 << 17) + 1, (1 << 20) + 1][class];
    let len = c.rng().random_range(min..=max);
    if c.rng().random_range(0..10) < 3 {
        let unit = [64usize, 256, 512, 2048, 8192][c.rng().random_range(0..5)];
        let base = (len / unit).max(if min == 0 { 0 } else { 1 }) * unit;
        (base + c.rng().random_range(0..3usize)).saturating_sub(1).clamp(min, max)
    } else {
        len
    }
}

// ---------------------------------------------------------------------------
// the 2^32-bit strata (thorough, UBC only)

/// Sparse big vector: spans of exactly `gap` between every 2^l-th one, in both
/// the first position and (where room allows) later, plus a ragged tail.
fn big_sparse(rng: &mut SmallRng, l: usize, gap: usize, extra_superblocks: usize) -> (SparseModel, String) {
    let start = [0usize, 77, 4096 + 13, 70000][rng.random_range(0..4)];
    let mut spans = vec![gap];
    for _ in 0..extra_superblocks {
        spans.push([(1usize << 32) - 1, 1 << 32, (1 << 32) + 1][rng.random_range(0..3)]);
    }
    let pre = [1000usize, 65536, 65537, 1 << 20][rng.random_range(0..4)].max(1 << l);
    let mut all = vec![pre];
    all.extend(spans);
    let tail = [65536usize, 65537, 1 << 20, 300][rng.random_range(0..4)];
    let rag = rng.random_range(1..=1usize << l);
    let (len, ones) = gen_spans(rng, l, &all, start, rag, tail);
    let how = format!("spans between every 2^{}-th one: {:?}, first one at {}, last group of {} ones, vector ends {} bits after its first one", l, all, start, rag, tail);
    (SparseModel::new(len, ones, true), how)
}

fn big_ranks(rng: &mut SmallRng, count: usize) -> Vec<usize> {
    if count <= 40000 {
        let mut v: Vec<usize> = (0..count + 2).collect();
        v.extend([usize::MAX, 1 << 32, count * 2]);
        v
    } else {
        let mut v = select_ranks(rng, count, 20000);
        // around multiples of 2^32 of the *other* polarity's positions nothing
        // special happens in rank space, so sample densely near both ends too
        for d in 0..5000usize {
            v.push(d);
            v.push(count - 1 - d);
        }
        for _ in 0..20000 {
            v.push(rng.random_range(0..count));
        }
        v
    }
}

fn big_cases(run: &mut Runner, variants: &[Variant]) {
    let thorough = run.ctx.thorough();
    let gaps: [(usize, &str); 3] = [((1 << 32) - 1, "gap2^32-1"), (1 << 32, "gap2^32"), ((1 << 32) + 1, "gap2^32+1")];
    let mut k = 0u64;
    let pick = |name: &str| variants.iter().find(|v| v.name == name).unwrap_or_else(|| panic!("variant {}", name)).clone();
    // (variant, L used by the aimed generator)
    let one_sel: Vec<(Variant, usize)> = vec![
        (pick("SelectAdapt::with_inv(L=0)"), 0),
        (pick("SelectAdapt::with_inv(L=3)"), 3),
        (pick("SelectAdapt::with_inv(L=10)"), 10),
        (pick("SelectAdapt::with_inv(L=13)"), 13),
        (pick("SelectAdapt::new"), 6),
        (pick("SelectAdaptConst<5,1>"), 5),
        (pick("SelectAdaptConst<13,0>"), 13),
        (pick("SelectAdaptConst<13,16>"), 13),
        (pick("Select9"), 9),
        (pick("SelectSmall<2,9>"), 4),
        (pick("SelectSmall<1,9>"), 8),
        (pick("SelectSmall<1,10>"), 2),
        (pick("SelectSmall<1,11>"), 11),
        (pick("SelectSmall<3,13>"), 7),
        (pick("SelectZeroAdapt(SelectAdapt(AddNumBits(BitVec)))"), 3),
        (pick("SelectZeroSmall(SelectSmall(RankSmall<1,11>))"), 5),
    ];
    let zero_sel: Vec<(Variant, usize)> = vec![
        (pick("SelectZeroAdapt::with_inv(L=0)"), 0),
        (pick("SelectZeroAdapt::with_inv(L=4)"), 4),
        (pick("SelectZeroAdapt::with_inv(L=13)"), 13),
        (pick("SelectZeroAdapt::new"), 6),
        (pick("SelectZeroAdaptConst<6,0>"), 6),
        (pick("SelectZeroAdaptConst<13,16>"), 13),
        (pick("SelectZeroSmall<2,9>"), 3),
        (pick("SelectZeroSmall<1,10>"), 9),
        (pick("SelectZeroSmall<3,13>"), 12),
    ];
    for (gi, &(gap, gname)) in gaps.iter().enumerate() {
        for (vi, (v, l)) in one_sel.iter().chain(zero_sel.iter()).enumerate() {
            let zero_only = v.zero_only();
            // one case in four spans three super-blocks (2^33+ bits)
            let extra = if (k + gi as u64) % 4 == 3 { 1 } else { 0 };
            let stratum = format!("big/{}{}/tail=fresh", gname, if extra > 0 { ",2^33+bits" } else { "" });
            let l = *l;
            // quick tier: every variant with one of the three gaps
            if !thorough && (vi + gi) % 3 != 0 {
                k += 1;
                continue;
            }
            run.big_case(k, &v.name, &stratum, "select", |c| {
                let (mut m, how) = big_sparse(c.rng(), l, gap, extra);
                if zero_only {
                    m.set_is_ones = false;
                }
                let bv = m.to_bitvec();
                let r1 = big_ranks(c.rng(), m.ones());
                let r0 = big_ranks(c.rng(), m.zeros());
                let input = || format!("b = [{}{}; {}]", if zero_only { "complement of: " } else { "" }, how, m.show());
                let q = Q { m: &m, input: &input, r1: &r1, r0: &r0 };
                run_variant(c, v, bv, &q);
                c.nontrivial();
                c.describe(|| input());
            });
            k += 1;
        }
    }
    // dense vectors of 2^32+2^20 bits: selection across the super-block
    // boundary (upper counts, inventory_begin, 64-bit inventories)
    let dense = [
        "Select9",
        "SelectSmall<2,9>",
        "SelectSmall<1,9>",
        "SelectSmall<1,10>",
        "SelectSmall<1,11>",
        "SelectSmall<3,13>",
        "SelectZeroSmall<2,9>",
        "SelectZeroSmall<1,9>",
        "SelectZeroSmall<1,10>",
        "SelectZeroSmall<1,11>",
        "SelectZeroSmall<3,13>",
        "SelectAdapt::new",
        "SelectAdapt::with_inv(L=13)",
        "SelectAdaptConst<12,3>",
        "SelectZeroAdapt::new",
        "SelectZeroAdaptConst<12,3>",
        "SelectZeroSmall(SelectSmall(RankSmall<1,11>))",
        "SelectSmall(SelectZeroSmall(RankSmall<3,13>))",
    ];
    for name in dense {
        let v = pick(name);
        if !thorough && k % 4 != 0 {
            k += 1;
            continue;
        }
        run.big_case(k, &v.name, "big/dense,len2^32+2^20/tail=fresh", "select", |c| {
            let len = (1usize << 32) + (1 << 20) + [0usize, 64 * 3, 29][c.rng().random_range(0..3)];
            let (bv, m) = big_dense(c.rng(), len, false);
            let dense_ranks = |c: &mut Case, count: usize, at_boundary: usize| -> Vec<usize> {
                let mut r = select_ranks(c.rng(), count, 20000);
                // the ranks of the bits around position 2^32
                for d in 0..6000usize {
                    r.push(at_boundary.saturating_sub(3000) + d);
                }
                r
            };
            let ones_before = m.rank(1 << 32);
            let r1 = dense_ranks(c, m.ones(), ones_before);
            let r0 = dense_ranks(c, m.zeros(), (1usize << 32) - ones_before);
            let input = || format!("b = [{}]", m.show());
            let q = Q { m: &m, input: &input, r1: &r1, r0: &r0 };
            run_variant(c, &v, bv, &q);
            c.nontrivial();
            c.describe(|| input());
        });
        k += 1;
    }
    // the last upper block holds no ones (one-selectors) / no zeros (zero-selectors):
    // the highest ranks sit in the last inventory entry of an *earlier* upper block
    let uniform_tail: [(&str, bool); 8] = [
        ("SelectSmall<3,13>", false),
        ("SelectSmall<2,9>", false),
        ("SelectSmall<1,10>", false),
        ("Select9", false),
        ("SelectAdapt::new", false),
        ("SelectZeroSmall<3,13>", true),
        ("SelectZeroSmall<1,9>", true),
        ("SelectZeroAdapt::new", true),
    ];
    for (j, (name, tail)) in uniform_tail.into_iter().enumerate() {
        let v = pick(name);
        if !thorough && j % 3 != 0 {
            k += 1;
            continue;
        }
        let stratum = if tail { "big/dense,all-ones-from-2^32-on/tail=fresh" } else { "big/dense,all-zeros-from-2^32-on/tail=fresh" };
        run.big_case(k, &v.name, stratum, if tail { "select_zero" } else { "select" }, |c| {
            let len = (1usize << 32) + (1 << 20) + [0usize, 64 * 3, 29][c.rng().random_range(0..3)];
            let (bv, m) = big_dense_tail(c.rng(), len, false, Some(tail));
            let top = |c: &mut Case, count: usize| -> Vec<usize> {
                let mut r = select_ranks(c.rng(), count, 20000);
                // the highest ranks: the last inventory entries
                for d in 0..8000usize {
                    r.push(count.saturating_sub(8000) + d);
                }
                r
            };
            let r1 = top(c, m.ones());
            let r0 = top(c, m.zeros());
            let input = || format!("b = [{}]", m.show());
            let q = Q { m: &m, input: &input, r1: &r1, r0: &r0 };
            run_variant(c, &v, bv, &q);
            c.nontrivial();
            c.describe(|| input());
        });
        k += 1;
    }
}

fn main() {
    let ctx = Ctx::from_args("C02");
    ctx.set_hang_limit(if ctx.thorough() { 900 } else { 300 });
    let small = ctx.small;
    let thorough = ctx.thorough();
    // multi-GB vectors: release build only; quick runs a fraction of the thorough cases
    let big = !small && ctx.build == "UBC";
    let mut run = Runner::new(ctx);
    let variants = all_variants();
    let t0 = std::time::Instant::now();
    let mut stage = |run: &mut Runner, name: &str| {
        run.ctx.note(&format!("cpu_secs_until_end_of/{}", name), &format!("{:.2}", t0.elapsed().as_secs_f64()));
    };

    if small {
        // Miri / valgrind / ASan-small: every variant, short vectors, few ranks
        let pats = [pat("dens0.5"), pat("dens2^-6"), pat("runs40"), pat("dens1-2^-6"), pat("blockalt64")];
        let lens = [130usize, 577, 1025, 2049, 3000];
        let tails = [Tail::Fresh, Tail::Popped, Tail::DirtyRandom(1)];
        for (i, v) in variants.iter().flat_map(|v| [v, v]).enumerate() {
            let p = pats[i % pats.len()];
            let len = lens[i % lens.len()];
            let tail = tails[i % tails.len()];
            let stratum = stratum_name(&format!("small/{}", p.name()), tail);
            run.case(&v.name, &stratum, "select", |c| {
                let bits = gen_bits(c.rng(), len, p.pattern());
                let m = SmallModel::new(bits);
                let bv = bitvec_with_tail(c.rng(), &m.bits, tail);
                let pick = |c: &mut Case, count: usize| -> Vec<usize> {
                    let mut r: Vec<usize> = (0..6).map(|_| c.rng().random_range(0..count.max(1))).collect();
                    r.extend([0, count.saturating_sub(1), count, count + 1, usize::MAX]);
                    r
                };
                let r1 = pick(c, m.ones());
                let r0 = pick(c, m.zeros());
                let tn = tail.name();
                let input = || format!("b = [len={} pattern={}; tail={}; bits {}]", len, p.name(), tn, m.show());
                let q = Q { m: &m, input: &input, r1: &r1, r0: &r0 };
                run_variant(c, v, bv, &q);
                c.nontrivial();
                c.describe(|| input());
            });
        }
        run.ctx.finish();
    }

    // 1. every variant x every length class x every pattern, fresh tail
    for v in &variants {
        for &(class, lens) in LEN_CLASSES {
            for &p in PATS_ALL {
                generic_case(&mut run, v, class, lens, p, Tail::Fresh, 128);
            }
        }
    }
    stage(&mut run, "1-generic-fresh");
    // 2. stale tails: each (variant, tail state) in cases of its own
    let stale_pats = [pat("dens0"), pat("dens2^-6"), pat("dens0.5"), pat("dens1-2^-6"), pat("dens1"), pat("runs40"), pat("single-last")];
    for v in &variants {
        for &tail in STALE_TAILS {
            for &(class, lens) in LEN_CLASSES {
                for &p in &stale_pats {
                    generic_case(&mut run, v, class, lens, p, tail, 128);
                }
            }
        }
    }
    stage(&mut run, "2-generic-stale");
    // 3. strata aimed at the inventories
    for v in &variants {
        let ls: Vec<usize> = match v.fixed_l() {
            Some(l) => vec![l],
            None if v.is_param_sweep() => (0..=13).collect(),
            None => vec![0, 3, 6, 9, 12],
        };
        for &l in &ls {
            for aim in [Aim::Gap16, Aim::Gap32, Aim::Quantum] {
                aimed_case(&mut run, v, aim, l, Tail::Fresh, 2);
            }
            aimed_case(&mut run, v, Aim::Quantum, l, Tail::Popped, 2);
            aimed_case(&mut run, v, Aim::Gap16, l, Tail::DirtyRandom(3), 1);
        }
        for r in 0..4 {
            aimed_case(&mut run, v, Aim::SparseWords(r), 0, Tail::Fresh, 3);
            aimed_case(&mut run, v, Aim::SparseWords(r), 0, Tail::Truncated, 2);
        }
        for g in 0..4 {
            aimed_case(&mut run, v, Aim::Sel9Spans(g), 9, Tail::Fresh, 1);
        }
    }
    stage(&mut run, "3-aimed");
    // 4. medium lengths around 2^16 / 2^17 bits, all patterns
    for v in &variants {
        for (class, lens) in [("len2^16+-1", [65535usize, 65536, 65537]), ("len2^17+-1", [131071, 131072, 131073])] {
            for &p in PATS_ALL {
                generic_case(&mut run, v, class, &lens, p, Tail::Fresh, 512);
            }
        }
    }
    stage(&mut run, "4-medium");
    // 5. gaps of 2^32-1, 2^32, 2^32+1 bits (64-bit span encoding), 2^33+ bits
    if big {
        big_cases(&mut run, &variants);
    }
    stage(&mut run, "5-big");
    // 6. random rounds
    let rounds = run.ctx.scale(1, 2000, 20000);
    for round in 0..rounds {
        let mut g = run.ctx.rng(0xC02_0000 + round as u64);
        for v in &variants {
            let class = match g.random_range(0..100) {
                0..=54 => 0,
                55..=91 => 1,
                92..=97 => 2,
                _ => 3,
            };
            let class = if thorough { class } else { class.min(1) };
            let tail = if g.random_bool(0.7) { Tail::Fresh } else { Tail::ALL[g.random_range(0..Tail::ALL.len())] };
            if g.random_bool(0.25) {
                let l = v.fixed_l().unwrap_or_else(|| g.random_range(0..=13));
                let aim = match g.random_range(0..10) {
                    0..=2 => Aim::Gap16,
                    3..=4 => Aim::Gap32,
                    5..=6 => Aim::Quantum,
                    7..=8 => Aim::SparseWords(g.random_range(0..4)),
                    _ => Aim::Sel9Spans(g.random_range(0..4)),
                };
                let l = if matches!(aim, Aim::SparseWords(_)) { 0 } else if matches!(aim, Aim::Sel9Spans(_)) { 9 } else { l };
                aimed_case(&mut run, v, aim, l, tail, 1);
            } else {
                let p = PATS_ALL[g.random_range(0..PATS_ALL.len())];
                let stratum = stratum_name(&format!("{}/{}", RAND_CLASS_NAMES[class], p.name()), tail);
                run.case(&v.name, &stratum, "select", |c| {
                    let len = rand_len(c, class);
                    let bits = gen_bits(c.rng(), len, p.pattern());
                    let mut desc = String::new();
                    let nt = one_vector(c, v, bits, tail, 1024, &format!("len={} pattern={}", len, p.name()), &mut desc);
                    if nt {
                        c.nontrivial();
                    }
                    c.describe(|| desc);
                });
            }
        }
        if run.ctx.out_of_time() {
            break;
        }
    }
    stage(&mut run, "6-random");
    run.ctx.finish();
}
