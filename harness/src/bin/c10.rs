//! C10 — bulk operations equal their documented element-by-element
//! definitions: copy, apply_in_place, reset/par_reset (+ atomic), BitVec
//! fill/flip/reset/count_ones (+ par_ and atomic), try_chunks_mut views,
//! get_unaligned.
//!
//! Oracle: the obvious loops on a `Vec<u128>` / `Vec<bool>` model; for
//! `apply_in_place` the recorded sequence of arguments of `f`.
//!
//! Known-defect isolation (DESIGN.md section 7, items 7, 8, 9):
//!   * copy: the branch class (single/multi-word source and destination,
//!     src_bit <,=,> dst_bit, 2 / 3+ destination words, source word count
//!     relative to the destination's, full / partial last word) is computed
//!     here from the arguments and is the stratum; width 0 is `copy/w0`;
//!   * get_unaligned: the word type is the variant;
//!   * apply_in_place: stratum = width class x exact/spare storage; every `f`
//!     counts its calls and panics beyond 10*len+100 (a hang becomes a caught
//!     panic).
#[path = "common/bfv.rs"]
mod bfv;
use bfv::*;
use common_traits::{AsBytes, AtomicUnsignedInt, IntoAtomic};
use rand::rngs::SmallRng;
use rand::Rng;
use std::collections::BTreeMap;
use std::sync::atomic::Ordering;
use sux::bits::{AtomicBitFieldVec, AtomicBitVec, BitFieldVec, BitVec};
use sux::traits::{AtomicBitFieldSlice, BitCount, BitFieldSlice, BitFieldSliceCore, BitFieldSliceMut};
use suxmon::gen::{bitvec_with_tail, gen_bits, show_bits, Pattern, Tail, LEN_EDGES};
use suxmon::obs::*;

fn vname<W: TW>() -> String {
    format!("BitFieldVec<{}>", W::NAME)
}

fn blen<W: TW, B>(b: &BitFieldVec<W, B>) -> usize {
    BitFieldSliceCore::<W>::len(b)
}

/// Checks that a freshly built input really holds the model (the builders use
/// sux mutators, which are C05's subject).
fn setup_ok<W: TW, B: AsRef<[W]>>(c: &mut Case, b: &BitFieldVec<W, B>, m: &[u128], what: &str) -> bool {
    let got = read_all(b);
    if blen(b) != m.len() || got != m {
        c.fail("setup", "mismatch", "", &format!("{}: the input vector does not hold the generated values (first difference {:?})", what, first_diff(&got, m)));
        return false;
    }
    true
}

// ---------------------------------------------------------------------------
// copy

#[derive(Clone, Copy, Debug)]
struct CopyArgs {
    width: usize,
    slen: usize,
    dlen: usize,
    from: usize,
    to: usize,
    len: usize,
}

/// Branch class of a copy, computed from the arguments only.
fn copy_class(a: &CopyArgs, bits: usize) -> String {
    let n = a.len.min(a.slen - a.from).min(a.dlen - a.to);
    if a.width == 0 {
        return "w0".into();
    }
    if n == 0 {
        return "empty".into();
    }
    let bl = n * a.width;
    let sp = a.from * a.width;
    let dp = a.to * a.width;
    let (sb, db) = (sp % bits, dp % bits);
    let sw = (sp + bl - 1) / bits - sp / bits + 1;
    let dw = (dp + bl - 1) / bits - dp / bits + 1;
    let rel = if sb < db {
        "src_bit<dst_bit"
    } else if sb == db {
        "src_bit=dst_bit"
    } else {
        "src_bit>dst_bit"
    };
    match (sw > 1, dw > 1) {
        (false, false) => format!("single-src,single-dst,{}", rel),
        (false, true) => format!("single-src,multi-dst,{}", rel),
        (true, false) => format!("multi-src,single-dst,{}", rel),
        (true, true) => {
            let res = (dp + bl - 1) % bits + 1;
            let d = sw as isize - dw as isize;
            format!("multiword,{},{},src{}{},res{}", rel, if dw == 2 { "2w" } else { "3w+" }, if d >= 0 { "+" } else { "" }, d, if res == bits { "full" } else { "part" })
        }
    }
}

/// Draws copy arguments; biased so that the rare classes (full last word,
/// equal alignment, exactly two words) come up.
fn gen_copy_args(g: &mut SmallRng, bits: usize, width: usize) -> CopyArgs {
    let per = (bits / width).max(1);
    let span = 3 * bits / width + 3; // positions up to ~3 words
    let from = g.random_range(0..=span);
    let mut to = g.random_range(0..=span);
    if g.random_bool(0.25) {
        // same bit offset: to ≡ from modulo the alignment period
        let period = bits / gcd(bits, width);
        to = from % period + period * g.random_range(0..3);
    }
    let mut n = match g.random_range(0..6) {
        0 => 1,
        1 => g.random_range(1..=per.max(2)),
        2 => g.random_range(1..=2 * per + 2),
        _ => g.random_range(1..=4 * per + 4),
    };
    if g.random_bool(0.3) {
        // end exactly on a destination word boundary
        let period = bits / gcd(bits, width);
        let end = (to + n).div_ceil(period) * period;
        if end > to {
            n = end - to;
        }
    }
    let slack_s = g.random_range(0..=per + 2);
    let slack_d = g.random_range(0..=per + 2);
    let (mut slen, mut dlen) = (from + n + slack_s, to + n + slack_d);
    let mut len = n;
    match g.random_range(0..8) {
        0 => len = n + g.random_range(1..50), // clamped by both unless slack
        1 => {
            slen = from + n; // clamped by the source
            len = n + g.random_range(1..50);
        }
        2 => {
            dlen = to + n; // clamped by the destination
            len = n + g.random_range(1..50);
        }
        3 => len = usize::MAX,
        _ => {}
    }
    CopyArgs { width, slen, dlen, from, to, len }
}

fn gcd(a: usize, b: usize) -> usize {
    if b == 0 {
        a
    } else {
        gcd(b, a % b)
    }
}

fn copy_case<W: TW>(c: &mut Case, a: CopyArgs, class: &str) {
    let bits = bits_of::<W>();
    let sm = rand_vals(c.rng(), a.slen, a.width);
    let dm = if c.rng().random_bool(0.15) { gen_vals(c.rng(), a.dlen, a.width) } else { rand_vals(c.rng(), a.dlen, a.width) };
    let sb = Backing::ALL[c.rng().random_range(0..Backing::ALL.len())];
    let db = Backing::ALL[c.rng().random_range(0..Backing::ALL.len())];
    let src = build_bfv::<W>(c.rng(), &sm, a.width, sb);
    let mut dst = build_bfv::<W>(c.rng(), &dm, a.width, db);
    let desc = format!(
        "BitFieldVec<{}> width {}: src(len {}, {}) = {}; dst(len {}, {}) = {}; src.copy({}, &mut dst, {}, {})  [class {}]",
        W::NAME, a.width, a.slen, sb.name(), show_vals(&sm), a.dlen, db.name(), show_vals(&dm), a.from, a.to, a.len, class
    );
    if !setup_ok(c, &src, &sm, "src") || !setup_ok(c, &dst, &dm, "dst") {
        c.describe(|| desc.clone());
        return;
    }
    debug_assert_eq!(copy_class(&a, bits), class);
    let n = a.len.min(a.slen - a.from).min(a.dlen - a.to);
    let mut want = dm.clone();
    for i in 0..n {
        want[a.to + i] = sm[a.from + i];
    }
    if c.guard("copy", || src.copy(a.from, &mut dst, a.to, a.len)).is_some() {
        let got = read_all(&dst);
        c.tick(a.dlen as u64);
        c.check("copy", blen(&dst) == a.dlen && got == want, || {
            let i = first_diff(&got, &want);
            format!("after copy: dst differs from the element-wise loop at index {:?} (got {:#x?}, want {:#x?}; copied range is dst[{}..{}]); {}", i, at(&got, i), at(&want, i), a.to, a.to + n, desc)
        });
        let sgot = read_all(&src);
        c.check("copy", sgot == sm, || format!("copy changed the source at {:?}; {}", first_diff(&sgot, &sm), desc));
    } else {
        // a panic is already recorded; the destination must at least still be readable
        let _ = catch(|| read_all(&dst));
    }
    if n > 0 && a.width > 0 {
        c.nontrivial();
    }
    c.describe(|| desc.clone());
}

/// Plans the copy cases of one word type: keeps drawing arguments until every
/// class has `quota` cases (or the attempt budget is spent). Depends only on
/// the seed, so every shard computes the same plan.
fn plan_copies(g: &mut SmallRng, bits: usize, widths: &[usize], quota: usize, attempts: usize) -> (Vec<(CopyArgs, String)>, BTreeMap<String, usize>) {
    let mut count: BTreeMap<String, usize> = BTreeMap::new();
    let mut plan = vec![];
    let nz: Vec<usize> = widths.iter().copied().filter(|w| *w > 0).collect();
    for _ in 0..attempts {
        let width = nz[g.random_range(0..nz.len())];
        let a = gen_copy_args(g, bits, width);
        let cl = copy_class(&a, bits);
        if cl == "empty" {
            continue;
        }
        let e = count.entry(cl.clone()).or_insert(0);
        if *e < quota {
            *e += 1;
            plan.push((a, cl));
        }
    }
    (plan, count)
}

// ---------------------------------------------------------------------------
// apply_in_place

const FKINDS: [&str; 4] = ["identity", "succ-masked", "running-sum", "mix"];

fn fval(kind: usize, x: u128, idx: usize, total: &mut u128, mask: u128) -> u128 {
    match kind {
        0 => x,
        1 => x.wrapping_add(1) & mask,
        2 => {
            *total = total.wrapping_add(x) & mask;
            *total
        }
        _ => (x ^ (x >> 3)).wrapping_mul(0x9E37_79B9_7F4A_7C15_F39C_C060_5CED_C835).wrapping_add(idx as u128 * 0x1234_5678_9ABC_DEF1) & mask,
    }
}

/// Runs apply_in_place (or the unchecked variant) on `b` and compares the
/// recorded arguments of `f`, their number and the stored results with the
/// model.
fn run_apply<W: TW, B: AsRef<[W]> + AsMut<[W]>>(c: &mut Case, b: &mut BitFieldVec<W, B>, m: &[u128], width: usize, kind: usize, unchecked: bool, what: &str) {
    let len = m.len();
    let mask = mask128(width);
    let limit = 10 * len + 100;
    let mut calls: Vec<u128> = Vec::with_capacity(len);
    let mut total = 0u128;
    let opname = if unchecked { "apply_in_place_unchecked" } else { "apply_in_place" };
    let r = catch(|| {
        let f = |x: W| -> W {
            let idx = calls.len();
            calls.push(x.to128());
            if calls.len() > limit {
                panic!("HANG-GUARD: f was called more than 10*len+100 = {} times for a vector of {} elements", limit, len);
            }
            W::from128(fval(kind, x.to128(), idx, &mut total, mask))
        };
        if unchecked {
            unsafe { b.apply_in_place_unchecked(f) }
        } else {
            b.apply_in_place(f)
        }
    });
    if let Err(msg) = r {
        c.fail(opname, "panic", &msg, &format!("{}({}) panicked after {} calls of f for {} elements; {}", opname, FKINDS[kind], calls.len(), len, what));
        return;
    }
    let mut t2 = 0u128;
    let want: Vec<u128> = m.iter().enumerate().map(|(i, &x)| fval(kind, x, i, &mut t2, mask)).collect();
    c.check(opname, calls.len() == len, || format!("{}({}): f was called {} times for {} elements; {}", opname, FKINDS[kind], calls.len(), len, what));
    let k = calls.len().min(len);
    c.check(opname, calls[..k] == m[..k], || {
        let i = first_diff(&calls[..k], &m[..k]);
        format!("{}({}): call #{:?} of f received {:#x?} but the element at that index is {:#x?}; {}", opname, FKINDS[kind], i, i.map(|i| calls[i]), i.map(|i| m[i]), what)
    });
    let got = read_all(b);
    c.tick(len as u64);
    c.check(opname, blen(b) == len && got == want, || {
        let i = first_diff(&got, &want);
        format!("{}({}): stored results differ from f(x) at index {:?} (got {:#x?}, want {:#x?}); {}", opname, FKINDS[kind], i, at(&got, i), at(&want, i), what)
    });
}

fn apply_case<W: TW>(c: &mut Case, width: usize, backing: Backing, maxlen: usize) {
    let bits = bits_of::<W>();
    let len = len_near_boundary(c.rng(), width, bits, maxlen);
    let m0 = if c.rng().random_bool(0.5) { rand_vals(c.rng(), len, width) } else { gen_vals(c.rng(), len, width) };
    let desc = format!("BitFieldVec<{}> width {} len {} backing {} values {}", W::NAME, width, len, backing.name(), show_vals(&m0));
    let mask = mask128(width);
    for kind in 0..FKINDS.len() {
        let unchecked = c.rng().random_bool(0.25);
        let mut b = build_bfv::<W>(c.rng(), &m0, width, backing);
        if !setup_ok(c, &b, &m0, &desc) {
            break;
        }
        match c.rng().random_range(0..3) {
            0 => run_apply(c, &mut b, &m0, width, kind, unchecked, &desc),
            1 => {
                let mut bx: BitFieldVec<W, Box<[W]>> = b.into();
                run_apply(c, &mut bx, &m0, width, kind, unchecked, &format!("(boxed) {}", desc));
            }
            _ => {
                let (mut words, w, l) = b.into_raw_parts();
                let mut v = unsafe { BitFieldVec::<W, &mut [W]>::from_raw_parts(&mut words[..], w, l) };
                run_apply(c, &mut v, &m0, width, kind, unchecked, &format!("(&mut [W]) {}", desc));
            }
        }
    }
    // twice in a row on the same vector: the second pass sees the results of the first
    let mut b = build_bfv::<W>(c.rng(), &m0, width, backing);
    if setup_ok(c, &b, &m0, &desc) {
        run_apply(c, &mut b, &m0, width, 1, false, &desc);
        let m1: Vec<u128> = m0.iter().map(|x| x.wrapping_add(1) & mask).collect();
        run_apply(c, &mut b, &m1, width, 3, false, &format!("(second pass after succ-masked) {}", desc));
    }
    if len > 1 {
        c.nontrivial();
    }
    c.describe(|| desc.clone());
}

// ---------------------------------------------------------------------------
// reset / par_reset

fn reset_case<W: TW>(c: &mut Case, width: usize, backing: Backing, maxlen: usize) {
    let bits = bits_of::<W>();
    let len = len_near_boundary(c.rng(), width, bits, maxlen);
    let m0 = gen_vals(c.rng(), len, width);
    let desc = format!("BitFieldVec<{}> width {} len {} backing {} values {}", W::NAME, width, len, backing.name(), show_vals(&m0));
    let zeros = vec![0u128; len];
    for par in [false, true] {
        let op = if par { "par_reset" } else { "reset" };
        let mut b = build_bfv::<W>(c.rng(), &m0, width, backing);
        if !setup_ok(c, &b, &m0, &desc) {
            break;
        }
        if c.guard(op, || if par { b.par_reset() } else { b.reset() }).is_some() {
            let got = read_all(&b);
            c.tick(len as u64);
            c.check(op, blen(&b) == len && got == zeros, || format!("{}(): element {:?} is not zero afterwards (or len changed: {}); {}", op, first_diff(&got, &zeros), blen(&b), desc));
            // the vector stays usable: set + get
            if len > 0 && width > 0 {
                let i = c.rng().random_range(0..len);
                let v = gen_val(c.rng(), width);
                b.set(i, W::from128(v));
                let mut want = zeros.clone();
                want[i] = v;
                c.check(op, read_all(&b) == want, || format!("{}() then set({},{:#x}): contents wrong; {}", op, i, v, desc));
            }
        }
    }
    if len > 1 && m0.iter().any(|x| *x != 0) {
        c.nontrivial();
    }
    c.describe(|| desc.clone());
}

/// Vectors long enough for rayon to really split the work (RAYON_MIN_LEN =
/// 100 000 words per job).
fn big_reset_case<W: TW>(c: &mut Case, width: usize, words: usize) {
    let bits = bits_of::<W>();
    let len = words * bits / width + c.rng().random_range(0..bits);
    let mut b = BitFieldVec::<W>::new(width, len);
    // a deterministic non-zero filling through the storage words (fast), then a few sets
    let m = mask128(width);
    for i in (0..len).step_by(7) {
        b.set(i, W::from128(m));
    }
    let last = len - 1;
    b.set(last, W::from128(m));
    let desc = format!("BitFieldVec<{}>::new({},{}) with every 7th element and the last set to all ones", W::NAME, width, len);
    let par = c.rng().random_bool(0.7);
    let op = if par { "par_reset" } else { "reset" };
    if c.guard(op, || if par { b.par_reset() } else { b.reset() }).is_some() {
        let nz = (0..len).find(|&i| b.get(i).to128() != 0);
        c.tick(len as u64);
        c.check(op, nz.is_none() && blen(&b) == len, || format!("{}(): element {:?} is not zero afterwards; {}", op, nz, desc));
    }
    c.nontrivial();
    c.describe(|| desc.clone());
}

// ---------------------------------------------------------------------------
// try_chunks_mut

fn chunks_case<W: TW>(c: &mut Case, width: usize, mode: usize, backing: Backing, maxlen: usize) {
    let bits = bits_of::<W>();
    // chunk sizes for which chunk_size*width is a multiple of the word size
    let period = if width == 0 { 1 } else { bits / gcd(bits, width) };
    let (len, cs): (usize, usize);
    match mode {
        0 => {
            // single chunk: len <= chunk_size, any chunk size
            let l = len_near_boundary(c.rng(), width, bits, maxlen);
            len = l;
            cs = (l + c.rng().random_range(0..4)).max(1);
        }
        1 => {
            // several aligned chunks
            let k = period * c.rng().random_range(1..=3);
            cs = k;
            len = (k * c.rng().random_range(1..=4) + c.rng().random_range(0..=k)).min(maxlen.max(k + 1));
        }
        _ => {
            // misaligned chunk size with more than one chunk: must be refused
            let mut k = c.rng().random_range(1..=3 * period + 1);
            if width == 0 || (k * width) % bits == 0 {
                k += 1;
            }
            cs = k;
            len = k + 1 + c.rng().random_range(0..2 * k + 2);
        }
    }
    let m0 = rand_vals(c.rng(), len, width);
    let mut b = build_bfv::<W>(c.rng(), &m0, width, backing);
    let desc = format!("BitFieldVec<{}> width {} len {} backing {} values {}; try_chunks_mut({})", W::NAME, width, len, backing.name(), show_vals(&m0), cs);
    if !setup_ok(c, &b, &m0, &desc) {
        c.describe(|| desc.clone());
        return;
    }
    // width 0: the documentation promises Ok (chunk_size*0 is a multiple of the word size) but the
    // storage holds no words to hand out, so Err and Ok are both accepted there; only a panic is not
    let must_ok = width > 0 && (len <= cs || (cs * width) % bits == 0);
    let must_err = !(len <= cs) && width > 0 && (cs * width) % bits != 0;
    let mut model = m0.clone();
    // planned writes: (index, value)
    let nwrites = c.rng().random_range(1..8);
    let mut writes: Vec<(usize, u128)> = vec![];
    if len > 0 {
        for _ in 0..nwrites {
            let i = match c.rng().random_range(0..4) {
                0 => (c.rng().random_range(0..len.div_ceil(cs)) * cs).min(len - 1), // first element of a chunk
                1 => ((c.rng().random_range(0..len.div_ceil(cs)) + 1) * cs - 1).min(len - 1), // last element of a chunk
                _ => c.rng().random_range(0..len),
            };
            let v = gen_val(c.rng(), width);
            writes.push((i, v));
        }
    }
    let apply_chunk = if len > 0 { Some(c.rng().random_range(0..len.div_ceil(cs))) } else { None };
    let reset_chunk = if len > 0 && c.rng().random_bool(0.3) { Some(c.rng().random_range(0..len.div_ceil(cs))) } else { None };
    let mask = mask128(width);
    // everything that happens inside the borrow of `b` is collected here and judged afterwards
    let mut read_back: Vec<Vec<u128>> = vec![];
    let mut apply_calls: Vec<u128> = vec![];
    let mut apply_seen_before: Vec<u128> = vec![];
    let mut apply_panic: Option<String> = None;
    let r = catch(|| match b.try_chunks_mut(cs) {
        Err(()) => false,
        Ok(chunks) => {
            for (k, mut ch) in chunks.enumerate() {
                let cl = BitFieldSliceCore::<W>::len(&ch);
                read_back.push((0..cl).map(|j| ch.get(j).to128()).collect());
                for &(i, v) in &writes {
                    if i / cs == k && i % cs < cl {
                        ch.set(i % cs, W::from128(v));
                    }
                }
                if reset_chunk == Some(k) {
                    ch.reset();
                }
                if apply_chunk == Some(k) {
                    apply_seen_before = (0..cl).map(|j| ch.get(j).to128()).collect();
                    let lim = 10 * cl + 100;
                    // judged on its own so that a defect of apply_in_place is not blamed on the chunking
                    if let Err(msg) = catch(|| {
                        ch.apply_in_place(|x| {
                            apply_calls.push(x.to128());
                            if apply_calls.len() > lim {
                                panic!("HANG-GUARD: f was called more than 10*len+100 = {} times for a chunk of {} elements", lim, cl);
                            }
                            W::from128(x.to128().wrapping_add(1) & mask)
                        })
                    }) {
                        apply_panic = Some(msg);
                    }
                }
            }
            true
        }
    });
    // the views consumed through the skipping adaptors of Iterator: the same views as a plain walk
    if matches!(r, Ok(true)) && width > 0 {
        let plain: Vec<usize> = read_back.iter().map(|x| x.len()).collect();
        let step = 1 + c.rng().random_range(0..3usize);
        let k = c.rng().random_range(0..3usize);
        let got = catch(|| {
            let stepped: Vec<usize> = b.try_chunks_mut(cs).map(|it| it.step_by(step).take(len + 70).map(|ch| BitFieldSliceCore::<W>::len(&ch)).collect()).unwrap_or_default();
            let skipped: Vec<usize> = b.try_chunks_mut(cs).map(|it| it.skip(k).take(len + 70).map(|ch| BitFieldSliceCore::<W>::len(&ch)).collect()).unwrap_or_default();
            let nth_then_rest: Vec<usize> = b
                .try_chunks_mut(cs)
                .map(|mut it| {
                    let mut v: Vec<usize> = it.nth(k).map(|ch| BitFieldSliceCore::<W>::len(&ch)).into_iter().collect();
                    v.extend(it.take(len + 70).map(|ch| BitFieldSliceCore::<W>::len(&ch)));
                    v
                })
                .unwrap_or_default();
            (stepped, skipped, nth_then_rest)
        });
        match got {
            Ok((stepped, skipped, nth_then_rest)) => {
                let want_step: Vec<usize> = plain.iter().copied().step_by(step).collect();
                let want_skip: Vec<usize> = plain.iter().copied().skip(k).collect();
                c.check("try_chunks_mut", stepped == want_step, || format!("chunk views through step_by({}) have lengths {:?}, a plain walk stepped by hand {:?}; {}", step, stepped, want_step, desc));
                c.check("try_chunks_mut", skipped == want_skip, || format!("chunk views through skip({}) have lengths {:?}, expected {:?}; {}", k, skipped, want_skip, desc));
                c.check("try_chunks_mut", nth_then_rest == want_skip, || format!("chunk views through nth({}) and then next() have lengths {:?}, expected {:?}; {}", k, nth_then_rest, want_skip, desc));
            }
            Err(msg) => c.fail("try_chunks_mut", "panic", &msg, &format!("walking the chunk views with step_by/skip/nth panicked; {}", desc)),
        }
    }
    if let Some(msg) = &apply_panic {
        c.fail("chunk_apply_in_place", "panic", msg, &format!("apply_in_place on chunk {:?} panicked after {} calls of f; {}", apply_chunk, apply_calls.len(), desc));
        c.describe(|| desc.clone());
        return;
    }
    match r {
        Err(msg) => {
            c.fail("try_chunks_mut", "panic", &msg, &format!("try_chunks_mut({}) or an operation on a chunk view panicked; {}", cs, desc));
        }
        Ok(false) => {
            c.check("try_chunks_mut", !must_ok, || format!("try_chunks_mut({}) returned Err although len <= chunk_size or chunk_size*width is a multiple of {}; {}", cs, bits, desc));
            let got = read_all(&b);
            c.check("try_chunks_mut", got == m0, || format!("contents changed by a refused try_chunks_mut; {}", desc));
        }
        Ok(true) => {
            c.check("try_chunks_mut", !must_err, || format!("try_chunks_mut({}) returned Ok although {} chunks are needed and chunk_size*width = {} is not a multiple of {}; {}", cs, len.div_ceil(cs), cs * width, bits, desc));
            if !must_err {
                // chunk lengths: all but the last have cs elements, concatenation = the vector
                let non_empty: Vec<&Vec<u128>> = read_back.iter().filter(|x| !x.is_empty()).collect();
                let want_chunks = len.div_ceil(cs);
                if width == 0 && non_empty.is_empty() {
                    // no views were handed out for zero-width elements: nothing to compare
                    c.describe(|| desc.clone());
                    return;
                }
                let lens_ok = non_empty.len() == want_chunks && non_empty.iter().enumerate().all(|(k, ch)| ch.len() == cs.min(len - k * cs)) && (len > 0 || read_back.iter().all(|x| x.is_empty()));
                c.check("try_chunks_mut", lens_ok, || format!("chunk lengths {:?} but expected {} chunks of {} elements (last {}); {}", read_back.iter().map(|x| x.len()).collect::<Vec<_>>(), want_chunks, cs, if len == 0 { 0 } else { len - (want_chunks - 1) * cs }, desc));
                if lens_ok {
                    let flat: Vec<u128> = read_back.iter().flatten().copied().collect();
                    c.tick(len as u64);
                    c.check("chunk_get", flat == m0, || format!("reads through the chunk views differ from the vector at index {:?}; {}", first_diff(&flat, &m0), desc));
                    // replay the operations on the model, chunk by chunk
                    for k in 0..want_chunks {
                        let (lo, hi) = (k * cs, ((k + 1) * cs).min(len));
                        for &(i, v) in &writes {
                            if i / cs == k {
                                model[i] = v;
                            }
                        }
                        if reset_chunk == Some(k) {
                            for x in &mut model[lo..hi] {
                                *x = 0;
                            }
                        }
                        if apply_chunk == Some(k) {
                            c.check("chunk_apply_in_place", apply_seen_before == model[lo..hi] && apply_calls == model[lo..hi], || {
                                format!("apply_in_place on chunk {}: f saw {} but the chunk holds {}; {}", k, show_vals(&apply_calls), show_vals(&model[lo..hi]), desc)
                            });
                            for x in &mut model[lo..hi] {
                                *x = x.wrapping_add(1) & mask;
                            }
                        }
                    }
                    let got = read_all(&b);
                    c.tick(len as u64);
                    c.check("chunk_set", got == model, || {
                        let i = first_diff(&got, &model);
                        format!("after writes through the chunk views (sets {:?}, reset of chunk {:?}, apply_in_place(+1) on chunk {:?}) element {:?} is {:#x?}, expected {:#x?}; {}", writes, reset_chunk, apply_chunk, i, at(&got, i), at(&model, i), desc)
                    });
                }
            }
        }
    }
    if len > 1 {
        c.nontrivial();
    }
    c.describe(|| desc.clone());
}

// ---------------------------------------------------------------------------
// get_unaligned

fn unaligned_ok(width: usize, bits: usize) -> bool {
    width + 6 <= bits || width + 4 == bits || width == bits
}

fn unaligned_case<W: TW>(c: &mut Case, width: usize, raw: bool, maxlen: usize) {
    let bits = bits_of::<W>();
    let len = len_near_boundary(c.rng(), width, bits, maxlen).max(1);
    let m0 = if c.rng().random_bool(0.5) { rand_vals(c.rng(), len, width) } else { gen_vals(c.rng(), len, width) };
    let b: BitFieldVec<W> = if raw {
        // exactly one padding word after the words that hold the contents, garbage beyond the contents
        let g = Garbage::ALL[c.rng().random_range(0..3)];
        let words = make_words::<W>(c.rng(), &m0, width, g, 1, 0);
        unsafe { BitFieldVec::from_raw_parts(words, width, len) }
    } else {
        let mut b = BitFieldVec::<W>::new_unaligned(width, len);
        for (i, &v) in m0.iter().enumerate() {
            b.set(i, W::from128(v));
        }
        b
    };
    let desc = format!("BitFieldVec<{}> width {} len {} ({}), backend {} words, values {}", W::NAME, width, len, if raw { "from_raw_parts with one padding word" } else { "new_unaligned + set" }, b.as_slice().len(), show_vals(&m0));
    if !setup_ok(c, &b, &m0, &desc) {
        c.describe(|| desc.clone());
        return;
    }
    let mut bad: Option<(usize, Result<u128, String>)> = None;
    for i in 0..len {
        let r = catch(|| b.get_unaligned(i)).map(|x| x.to128());
        c.tick(1);
        if r != Ok(m0[i]) && bad.is_none() {
            bad = Some((i, r));
        }
    }
    if let Some((i, r)) = bad {
        match r {
            Ok(g) => c.fail("get_unaligned", "mismatch", "", &format!("get_unaligned({}) got {:#x}, get({}) = model {:#x}; {}", i, g, i, m0[i], desc)),
            Err(msg) => c.fail("get_unaligned", "panic", &msg, &format!("get_unaligned({}) panicked although the width is admissible and a padding word is present; {}", i, desc)),
        }
    } else {
        // the unchecked variant has the same preconditions
        let got: Vec<u128> = (0..len).map(|i| unsafe { b.get_unaligned_unchecked(i) }.to128()).collect();
        c.check("get_unaligned_unchecked", got == m0, || format!("get_unaligned_unchecked differs from the model at {:?}; {}", first_diff(&got, &m0), desc));
    }
    if len > 1 {
        c.nontrivial();
    }
    c.describe(|| desc.clone());
}

// ---------------------------------------------------------------------------
// per-word-type parts: atomic reset, plain Vec<W> as a full-width slice

trait C10Word: TW {
    fn atomic_reset_case(c: &mut Case, width: usize, maxlen: usize);
    fn plain_slice_case(c: &mut Case);
}

fn atomic_reset_g<W>(c: &mut Case, width: usize, maxlen: usize)
where
    W: TW + IntoAtomic,
    W::AtomicType: AtomicUnsignedInt + AsBytes,
{
    let bits = bits_of::<W>();
    let len = len_near_boundary(c.rng(), width, bits, maxlen);
    let m0 = gen_vals(c.rng(), len, width);
    let g = Garbage::ALL[c.rng().random_range(0..3)];
    let spare = c.rng().random_range(0..3);
    let desc = format!("AtomicBitFieldVec<{}> width {} len {} over storage with {} garbage + {} spare words, values {}", W::NAME, width, len, g.name(), spare, show_vals(&m0));
    for par in [false, true] {
        let op = if par { "par_reset_atomic" } else { "reset_atomic" };
        let b = dirty_bfv::<W>(c.rng(), &m0, width, g, spare);
        let mut a: AtomicBitFieldVec<W> = b.into();
        let o = if c.rng().random_bool(0.5) { Ordering::Relaxed } else { Ordering::SeqCst };
        if c.guard(op, || if par { a.par_reset_atomic(o) } else { a.reset_atomic(o) }).is_some() {
            let got: Vec<u128> = (0..len).map(|i| a.get_atomic(i, Ordering::SeqCst).to128()).collect();
            c.tick(len as u64);
            c.check(op, BitFieldSliceCore::<W::AtomicType>::len(&a) == len && got.iter().all(|x| *x == 0), || format!("{}: element {:?} is not zero afterwards; {}", op, got.iter().position(|x| *x != 0), desc));
        }
    }
    if len > 1 && m0.iter().any(|x| *x != 0) {
        c.nontrivial();
    }
    c.describe(|| desc.clone());
}

macro_rules! plain_slice_impl {
    ($t:ty) => {
        /// `Vec<W>` seen as a slice of full-width fields (blanket impls of the traits).
        fn plain_slice_case(c: &mut Case) {
            let bits = <$t>::BITS as usize;
            let slen = c.rng().random_range(0..40usize);
            let dlen = c.rng().random_range(0..40usize);
            let sm = rand_vals(c.rng(), slen, bits);
            let dm = rand_vals(c.rng(), dlen, bits);
            let src: Vec<$t> = sm.iter().map(|&x| x as $t).collect();
            let mut dst: Vec<$t> = dm.iter().map(|&x| x as $t).collect();
            let from = c.rng().random_range(0..=slen);
            let to = c.rng().random_range(0..=dlen);
            let len = c.rng().random_range(0..50usize);
            let desc = format!("Vec<{}> src {} dst {}; copy({}, dst, {}, {})", stringify!($t), show_vals(&sm), show_vals(&dm), from, to, len);
            let n = len.min(slen - from).min(dlen - to);
            let mut want = dm.clone();
            for i in 0..n {
                want[to + i] = sm[from + i];
            }
            if c.guard("copy", || BitFieldSliceMut::<$t>::copy(&src, from, &mut dst, to, len)).is_some() {
                let got: Vec<u128> = dst.iter().map(|&x| x as u128).collect();
                c.check("copy", got == want, || format!("plain slice copy differs from the loop at {:?}; {}", first_diff(&got, &want), desc));
            }
            // apply_in_place (default implementation) with a recording closure
            let mut calls = vec![];
            let lim = 10 * dlen + 100;
            if c.guard("apply_in_place", || {
                BitFieldSliceMut::<$t>::apply_in_place(&mut dst, |x| {
                    calls.push(x as u128);
                    if calls.len() > lim {
                        panic!("HANG-GUARD: f was called more than 10*len+100 = {} times for {} elements", lim, dlen);
                    }
                    x.wrapping_add(1)
                })
            })
            .is_some()
            {
                let got: Vec<u128> = dst.iter().map(|&x| x as u128).collect();
                let w2: Vec<u128> = want.iter().map(|&x| (x as $t).wrapping_add(1) as u128).collect();
                c.check("apply_in_place", calls == want && got == w2, || format!("plain slice apply_in_place: calls {} results {} expected calls {}; {}", show_vals(&calls), show_vals(&got), show_vals(&want), desc));
                want = w2;
            }
            // chunks
            let cs = c.rng().random_range(1..10usize);
            let mut seen = vec![];
            if c.guard("try_chunks_mut", || {
                if let Ok(chunks) = BitFieldSliceMut::<$t>::try_chunks_mut(&mut dst, cs) {
                    for ch in chunks {
                        seen.push(ch.iter().map(|&x| x as u128).collect::<Vec<u128>>());
                        if let Some(x) = ch.first_mut() {
                            *x = 7;
                        }
                    }
                    true
                } else {
                    false
                }
            }) == Some(true)
            {
                let flat: Vec<u128> = seen.iter().flatten().copied().collect();
                let lens_ok = seen.len() == dlen.div_ceil(cs) && seen.iter().enumerate().all(|(k, s)| s.len() == cs.min(dlen - k * cs));
                c.check("try_chunks_mut", lens_ok && flat == want, || format!("plain slice chunks({}) wrong: {:?}; {}", cs, seen, desc));
                for k in 0..dlen.div_ceil(cs) {
                    want[k * cs] = 7;
                }
                let got: Vec<u128> = dst.iter().map(|&x| x as u128).collect();
                c.check("chunk_set", got == want, || format!("plain slice writes through chunks wrong at {:?}; {}", first_diff(&got, &want), desc));
            } else {
                c.fail("try_chunks_mut", "mismatch", "", &format!("plain slice try_chunks_mut({}) refused; {}", cs, desc));
            }
            let par = c.rng().random_bool(0.5);
            let op = if par { "par_reset" } else { "reset" };
            if c.guard(op, || if par { BitFieldSliceMut::<$t>::par_reset(&mut dst) } else { BitFieldSliceMut::<$t>::reset(&mut dst) }).is_some() {
                c.check(op, dst.len() == dlen && dst.iter().all(|&x| x == 0), || format!("plain slice {} left non-zero elements; {}", op, desc));
            }
            if slen > 1 && dlen > 1 {
                c.nontrivial();
            }
            c.describe(|| desc.clone());
        }
    };
}

macro_rules! impl_c10 {
    ($($t:ty),*) => {$(
        impl C10Word for $t {
            fn atomic_reset_case(c: &mut Case, width: usize, maxlen: usize) {
                atomic_reset_g::<$t>(c, width, maxlen)
            }
            plain_slice_impl!($t);
        }
    )*};
}
impl_c10!(u8, u16, u32, u64, usize);
impl C10Word for u128 {
    fn atomic_reset_case(_c: &mut Case, _width: usize, _maxlen: usize) {}
    plain_slice_impl!(u128);
}

// ---------------------------------------------------------------------------
// BitVec / AtomicBitVec word-wise operations

fn bitvec_case(c: &mut Case, len: usize, pat: Pattern, tail: Tail) {
    let m0 = gen_bits(c.rng(), len, pat);
    let ones0 = m0.iter().filter(|x| **x).count();
    let desc = format!("BitVec len {} tail {} bits {}", len, tail.name(), show_bits(&m0));
    let fresh = |c: &mut Case| bitvec_with_tail(c.rng(), &m0, tail);
    let b = fresh(c);
    c.check("count_ones", b.count_ones() == ones0, || format!("count_ones got {} loop {}; {}", b.count_ones(), ones0, desc));
    c.check("count_zeros", b.count_zeros() == len - ones0, || format!("count_zeros got {} loop {}; {}", b.count_zeros(), len - ones0, desc));
    c.check("par_count_ones", b.par_count_ones() == ones0, || format!("par_count_ones got {} loop {}; {}", b.par_count_ones(), ones0, desc));
    let all = |b: &BitVec| -> Vec<bool> { (0..len).map(|i| b.get(i)).collect() };
    for par in [false, true] {
        for v in [false, true] {
            let op = if par { "par_fill" } else { "fill" };
            let mut b = fresh(c);
            if par {
                b.par_fill(v)
            } else {
                b.fill(v)
            }
            let got = all(&b);
            c.tick(len as u64);
            c.check(op, b.len() == len && got.iter().all(|x| *x == v), || format!("{}({}): bit {:?} differs; {}", op, v, got.iter().position(|x| *x != v), desc));
            c.check(op, b.count_ones() == if v { len } else { 0 }, || format!("{}({}) then count_ones = {}; {}", op, v, b.count_ones(), desc));
        }
        let op = if par { "par_flip" } else { "flip" };
        let mut b = fresh(c);
        if par {
            b.par_flip()
        } else {
            b.flip()
        }
        let got = all(&b);
        let want: Vec<bool> = m0.iter().map(|x| !*x).collect();
        c.tick(len as u64);
        c.check(op, b.len() == len && got == want, || format!("{}: bit {:?} differs from the negated model; {}", op, got.iter().zip(want.iter()).position(|(a, b)| a != b), desc));
        c.check(op, b.count_ones() == len - ones0 && b.par_count_ones() == len - ones0, || format!("{} then count_ones = {} (par {}) expected {}; {}", op, b.count_ones(), b.par_count_ones(), len - ones0, desc));
        // flip twice = identity
        if par {
            b.par_flip()
        } else {
            b.flip()
        }
        c.check(op, all(&b) == m0, || format!("{} twice is not the identity; {}", op, desc));
        let op = if par { "par_reset" } else { "reset" };
        let mut b = fresh(c);
        if par {
            b.par_reset()
        } else {
            b.reset()
        }
        let got = all(&b);
        c.tick(len as u64);
        c.check(op, b.len() == len && got.iter().all(|x| !*x) && b.count_ones() == 0, || format!("{}: bit {:?} still set; {}", op, got.iter().position(|x| *x), desc));
    }
    // atomic counterparts (single-threaded)
    let o = Ordering::SeqCst;
    for par in [false, true] {
        let suffix = if par { "par_" } else { "" };
        let mut a: AtomicBitVec = fresh(c).into();
        c.check("atomic_count_ones", a.count_ones() == ones0 && a.par_count_ones() == ones0 && a.count_zeros() == len - ones0, || format!("atomic count_ones {} par {} loop {}; {}", a.count_ones(), a.par_count_ones(), ones0, desc));
        if par {
            a.par_flip(o)
        } else {
            a.flip(o)
        }
        let got: Vec<bool> = (0..len).map(|i| a.get(i, o)).collect();
        let want: Vec<bool> = m0.iter().map(|x| !*x).collect();
        c.tick(len as u64);
        c.check(&format!("atomic_{}flip", suffix), got == want && a.count_ones() == len - ones0, || format!("atomic {}flip differs from the negated model at {:?}; {}", suffix, got.iter().zip(want.iter()).position(|(a, b)| a != b), desc));
        for v in [true, false] {
            if par {
                a.par_fill(v, o)
            } else {
                a.fill(v, o)
            }
            let got: Vec<bool> = (0..len).map(|i| a.get(i, o)).collect();
            c.check(&format!("atomic_{}fill", suffix), got.iter().all(|x| *x == v) && a.count_ones() == if v { len } else { 0 }, || format!("atomic {}fill({}) wrong at {:?}; {}", suffix, v, got.iter().position(|x| *x != v), desc));
        }
        let mut a: AtomicBitVec = fresh(c).into();
        if par {
            a.par_reset(o)
        } else {
            a.reset(o)
        }
        let got: Vec<bool> = (0..len).map(|i| a.get(i, o)).collect();
        c.check(&format!("atomic_{}reset", suffix), got.iter().all(|x| !*x) && a.count_ones() == 0, || format!("atomic {}reset left bit {:?} set; {}", suffix, got.iter().position(|x| *x), desc));
    }
    if len > 1 && ones0 > 0 && ones0 < len {
        c.nontrivial();
    }
    c.describe(|| desc.clone());
}

/// Long enough for rayon to split (more than 100 000 words).
fn big_bitvec_case(c: &mut Case, words: usize) {
    let len = words * 64 + c.rng().random_range(0..64usize);
    let m0 = gen_bits(c.rng(), len, Pattern::Density(0.3));
    let ones0 = m0.iter().filter(|x| **x).count();
    let desc = format!("BitVec of {} random bits (density 0.3), built by from_raw_parts + 1 dirty spare word", len);
    let mut b = bitvec_with_tail(c.rng(), &m0, Tail::DirtyOnes(1));
    c.check("par_count_ones", b.par_count_ones() == ones0 && b.count_ones() == ones0, || format!("par_count_ones {} count_ones {} loop {}; {}", b.par_count_ones(), b.count_ones(), ones0, desc));
    b.par_flip();
    let bad = (0..len).find(|&i| b.get(i) == m0[i]);
    c.tick(len as u64);
    c.check("par_flip", bad.is_none() && b.par_count_ones() == len - ones0, || format!("par_flip: bit {:?} not flipped (count {}); {}", bad, b.par_count_ones(), desc));
    b.par_fill(true);
    let bad = (0..len).find(|&i| !b.get(i));
    c.check("par_fill", bad.is_none() && b.par_count_ones() == len, || format!("par_fill(true): bit {:?} clear; {}", bad, desc));
    b.par_reset();
    let bad = (0..len).find(|&i| b.get(i));
    c.check("par_reset", bad.is_none() && b.par_count_ones() == 0, || format!("par_reset: bit {:?} set; {}", bad, desc));
    let mut a: AtomicBitVec = bitvec_with_tail(c.rng(), &m0, Tail::DirtyOnes(1)).into();
    let o = Ordering::Relaxed;
    c.check("atomic_count_ones", a.par_count_ones() == ones0, || format!("atomic par_count_ones {} loop {}; {}", a.par_count_ones(), ones0, desc));
    a.par_flip(o);
    let bad = (0..len).find(|&i| a.get(i, o) == m0[i]);
    c.check("atomic_par_flip", bad.is_none() && a.par_count_ones() == len - ones0, || format!("atomic par_flip: bit {:?} not flipped; {}", bad, desc));
    a.par_fill(true, o);
    c.check("atomic_par_fill", a.par_count_ones() == len && a.count_ones() == len, || format!("atomic par_fill(true): count {}; {}", a.par_count_ones(), desc));
    a.par_reset(o);
    c.check("atomic_par_reset", a.par_count_ones() == 0, || format!("atomic par_reset: count {}; {}", a.par_count_ones(), desc));
    c.nontrivial();
    c.describe(|| desc.clone());
}

// ---------------------------------------------------------------------------

fn run<W: C10Word>(ctx: &mut Ctx, salt: u64) {
    let bits = bits_of::<W>();
    let v = vname::<W>();
    let all_widths = ctx.thorough() && !ctx.small;
    let widths: Vec<usize> = if ctx.small { vec![0, 1, 3, 4, bits / 2 + 1, bits - 4, bits - 1, bits] } else { widths_for(bits, all_widths) };
    let maxlen_cap = ctx.scale(40, 300, 300);
    let maxlen_for = |width: usize| -> usize { ((bits / width.max(1)).max(1) * 5 + 3).min(maxlen_cap) };

    // ---- copy, per branch class
    let quota = ctx.scale(1, 30, 100);
    let attempts = ctx.scale(400, 60000, 400000);
    let mut g = ctx.rng(0xC0B1 ^ salt);
    let cw: Vec<usize> = if ctx.small { widths.clone() } else { (0..=bits).collect() };
    let (plan, count) = plan_copies(&mut g, bits, &cw, quota, attempts);
    if ctx.shard.0 == 0 && ctx.resume == 0 {
        let js: Vec<String> = count.iter().map(|(k, n)| format!("\"{}\":{}", esc(k), n)).collect();
        ctx.note(&format!("copy_classes_{}", W::NAME), &format!("{{{}}}", js.join(",")));
    }
    for (a, cl) in plan {
        ctx.case(&v, &format!("copy/{}", cl), "copy", |c| {
            c.set_cell(format!("{}|copy/{}|{}", vname::<W>(), cl, width_class(a.width, bits)));
            copy_case::<W>(c, a, &cl);
        });
    }
    // width 0 and empty ranges: nothing may change, nothing may panic
    for k in 0..ctx.scale(2, 8, 20) {
        ctx.case(&v, "copy/w0", "copy", |c| {
            let slen = c.rng().random_range(0..60usize);
            let dlen = c.rng().random_range(0..60usize);
            let a = CopyArgs { width: 0, slen, dlen, from: c.rng().random_range(0..=slen), to: c.rng().random_range(0..=dlen), len: if k % 3 == 0 { usize::MAX } else { c.rng().random_range(0..80) } };
            copy_case::<W>(c, a, "w0");
            if slen > 0 && dlen > 0 {
                c.nontrivial();
            }
        });
        ctx.case(&v, "copy/empty", "copy", |c| {
            let width = c.rng().random_range(1..=bits);
            let slen = c.rng().random_range(0..40usize);
            let dlen = c.rng().random_range(0..40usize);
            let (from, to, len) = match k % 3 {
                0 => (c.rng().random_range(0..=slen), c.rng().random_range(0..=dlen), 0),
                1 => (slen, c.rng().random_range(0..=dlen), c.rng().random_range(0..50)),
                _ => (c.rng().random_range(0..=slen), dlen, c.rng().random_range(0..50)),
            };
            copy_case::<W>(c, CopyArgs { width, slen, dlen, from, to, len }, "empty");
            if slen > 0 && dlen > 0 {
                c.nontrivial();
            }
        });
    }

    // ---- apply_in_place
    for &width in &widths {
        let wc = width_class(width, bits);
        for (k, backing) in Backing::ALL.iter().enumerate() {
            if ctx.small && k % 3 != width % 3 {
                continue;
            }
            let st = format!("apply/{}/{}", wc, if backing.has_spare() { "spare-or-dirty" } else { "exact" });
            ctx.case(&v, &st, "apply_in_place", |c| {
                c.set_cell(format!("{}|apply|w{}|{}", vname::<W>(), width, backing.name()));
                apply_case::<W>(c, width, *backing, maxlen_for(width));
            });
        }
    }

    // ---- reset / par_reset (+ atomic)
    for &width in &widths {
        let wc = width_class(width, bits);
        for (k, backing) in Backing::ALL.iter().enumerate() {
            if (ctx.small || !ctx.thorough()) && k % 3 != width % 3 {
                continue;
            }
            ctx.case(&v, &format!("reset/{}", wc), "reset", |c| {
                c.set_cell(format!("{}|reset|w{}|{}", vname::<W>(), width, backing.name()));
                reset_case::<W>(c, width, *backing, maxlen_for(width));
            });
        }
        if W::ATOMIC {
            ctx.case(&format!("AtomicBitFieldVec<{}>", W::NAME), &format!("reset_atomic/{}", wc), "reset_atomic", |c| {
                c.set_cell(format!("AtomicBitFieldVec<{}>|reset_atomic|w{}", W::NAME, width));
                W::atomic_reset_case(c, width, maxlen_for(width));
            });
        }
    }
    if !ctx.small && bits >= 32 {
        for k in 0..ctx.scale(0, 2, 6) {
            let width = [13usize, bits, 1, bits - 1, 8, 31][k % 6];
            ctx.case(&v, "reset/big", "par_reset", |c| {
                c.set_cell(format!("{}|reset/big|w{}", vname::<W>(), width));
                big_reset_case::<W>(c, width, 250_000);
            });
        }
    }

    // ---- try_chunks_mut
    let modes = ["single", "multi", "refused"];
    for &width in &widths {
        let wc = width_class(width, bits);
        for mode in 0..3 {
            if (width == 0 || width == bits) && mode == 2 {
                continue; // every chunk size is "aligned" at width 0 and at full width
            }
            for rep in 0..ctx.scale(1, 2, 4) {
                let st = if width == 0 { "chunks/w0".to_string() } else { format!("chunks/{}/{}", wc, modes[mode]) };
                ctx.case(&v, &st, "try_chunks_mut", |c| {
                    c.set_cell(format!("{}|chunks|w{}|{}", vname::<W>(), width, modes[mode]));
                    let backing = Backing::ALL[(rep * 4 + mode + width) % Backing::ALL.len()];
                    chunks_case::<W>(c, width, mode, backing, maxlen_for(width).max(8));
                });
            }
        }
    }

    // ---- get_unaligned: every admissible width, always
    let uw: Vec<usize> = if ctx.small { widths.iter().copied().filter(|w| unaligned_ok(*w, bits)).collect() } else { (0..=bits).filter(|w| unaligned_ok(*w, bits)).collect() };
    for &width in &uw {
        let wc = width_class(width, bits);
        for raw in [false, true] {
            ctx.case(&v, &format!("unaligned/{}", wc), "get_unaligned", |c| {
                c.set_cell(format!("{}|unaligned|w{}|{}", vname::<W>(), width, if raw { "raw" } else { "new_unaligned" }));
                unaligned_case::<W>(c, width, raw, maxlen_for(width).max(20));
            });
        }
    }

    // ---- plain Vec<W> through the blanket impls
    for _ in 0..ctx.scale(1, 6, 30) {
        ctx.case(&format!("Vec<{}>", W::NAME), "plain-slice", "slice_ops", |c| W::plain_slice_case(c));
    }
}

fn random_round<W: C10Word>(ctx: &mut Ctx, r: u64) {
    let bits = bits_of::<W>();
    let v = vname::<W>();
    let mut g = ctx.rng(r.wrapping_mul(104729) ^ (bits as u64) << 20 ^ (W::NAME.len() as u64) << 40);
    let width = match g.random_range(0..8) {
        0 => bits,
        1 => bits - 1,
        _ => g.random_range(1..=bits),
    };
    let wc = width_class(width, bits);
    let maxlen = ((bits / width).max(1) * 6 + 3).min(300);
    // copy with arbitrary arguments, classified afterwards
    let a = gen_copy_args(&mut g, bits, width);
    let cl = copy_class(&a, bits);
    ctx.case(&v, &format!("copy/{}", cl), "copy", |c| {
        c.set_cell(format!("{}|copy/{}|{}", vname::<W>(), cl, wc));
        copy_case::<W>(c, a, &cl);
    });
    let backing = Backing::ALL[g.random_range(0..Backing::ALL.len())];
    ctx.case(&v, &format!("apply/{}/{}", wc, if backing.has_spare() { "spare-or-dirty" } else { "exact" }), "apply_in_place", |c| {
        c.set_cell(format!("{}|apply|w{}|{}", vname::<W>(), width, backing.name()));
        apply_case::<W>(c, width, backing, maxlen);
    });
    let mode = g.random_range(0..if width == bits { 2 } else { 3 });
    ctx.case(&v, &format!("chunks/{}/{}", wc, ["single", "multi", "refused"][mode]), "try_chunks_mut", |c| {
        c.set_cell(format!("{}|chunks|w{}|{}", vname::<W>(), width, ["single", "multi", "refused"][mode]));
        chunks_case::<W>(c, width, mode, backing, maxlen.max(8));
    });
    if unaligned_ok(width, bits) {
        let raw = g.random_bool(0.5);
        ctx.case(&v, &format!("unaligned/{}", wc), "get_unaligned", |c| {
            c.set_cell(format!("{}|unaligned|w{}|{}", vname::<W>(), width, if raw { "raw" } else { "new_unaligned" }));
            unaligned_case::<W>(c, width, raw, maxlen.max(20));
        });
    }
}

fn main() {
    let mut ctx = Ctx::from_args("C10");
    ctx.set_hang_limit(120);
    run::<u8>(&mut ctx, 1);
    run::<u16>(&mut ctx, 2);
    run::<u32>(&mut ctx, 3);
    run::<u64>(&mut ctx, 4);
    run::<usize>(&mut ctx, 5);
    run::<u128>(&mut ctx, 6);

    // BitVec / AtomicBitVec: every edge length x tail state x pattern
    let pats = [Pattern::Density(0.5), Pattern::Density(0.0), Pattern::Density(1.0), Pattern::Runs(20), Pattern::Single(1)];
    let nlen = ctx.scale(8, 21, 30);
    for (li, &len) in LEN_EDGES.iter().take(nlen).enumerate() {
        for (ti, tail) in Tail::ALL.iter().enumerate() {
            if ctx.small && (li + ti) % 4 != 0 {
                continue;
            }
            let pat = pats[(li + ti) % pats.len()];
            ctx.case("BitVec", &format!("wordwise/{}", tail.name()), "bitvec_bulk", |c| {
                c.set_cell(format!("BitVec|wordwise|{}|len{}", tail.name(), len));
                bitvec_case(c, len, pat, *tail);
            });
        }
    }
    for r in 0..ctx.scale(2, 1000, 4000) {
        let tail = Tail::ALL[r % Tail::ALL.len()];
        ctx.case("BitVec", &format!("wordwise/{}", tail.name()), "bitvec_bulk", |c| {
            let len = if c.rng().random_bool(0.5) { 64 * c.rng().random_range(0..12usize) + [0usize, 1, 63][c.rng().random_range(0..3)] } else { c.rng().random_range(0..900usize) };
            let pat = [Pattern::Density(0.5), Pattern::Density(0.03), Pattern::Density(0.97), Pattern::Runs(40), Pattern::BlockAlt(64)][c.rng().random_range(0..5)];
            c.set_cell(format!("BitVec|wordwise|{}|random|{}", tail.name(), pat.name()));
            bitvec_case(c, len, pat, tail);
        });
    }
    if !ctx.small {
        for _ in 0..ctx.scale(0, 2, 5) {
            ctx.case("BitVec", "wordwise/big", "bitvec_par", |c| big_bitvec_case(c, 210_000));
        }
    }

    // random rounds on top
    let rounds = ctx.scale(0, 25000, 50000) as u64;
    // ASan runs about four times slower: a quarter of the random rounds
    let rounds = if ctx.build == "ASAN" { rounds / 4 } else { rounds };
    for r in 0..rounds {
        random_round::<u8>(&mut ctx, r);
        random_round::<u16>(&mut ctx, r);
        random_round::<u32>(&mut ctx, r);
        random_round::<u64>(&mut ctx, r);
        random_round::<usize>(&mut ctx, r);
        random_round::<u128>(&mut ctx, r);
        if ctx.out_of_time() {
            break;
        }
    }
    ctx.finish();
}
