//! C12 — no safe call reads or writes outside its buffers: it answers or it panics.
//!
//! Table-driven sweep: (structure instance) x (safe public method) x (argument
//! class). The oracle is the *process outcome*: a normal return or an
//! unwinding panic are both fine; a std UB-precondition abort, an ASan/Miri/
//! valgrind report or a fatal signal with a sux frame is the violation (seen
//! and attributed by the driver, because such an event kills the process —
//! hence one case per triple). Returned values are not judged here.
use rand::rngs::SmallRng;
use rand::Rng;
use std::hint::black_box;
use std::sync::atomic::Ordering;
use sux::bits::{AtomicBitFieldVec, AtomicBitVec, BitFieldVec, BitVec};
use sux::dict::{EliasFanoBuilder, RearCodedListBuilder};
use sux::rank_sel::{
    Rank9, RankSmall, Select9, SelectAdapt, SelectAdaptConst, SelectSmall, SelectZeroAdapt, SelectZeroAdaptConst, SelectZeroSmall,
};
use sux::traits::{
    AddNumBits, AtomicBitFieldSlice, BitCount, BitFieldSlice, BitFieldSliceCore, BitFieldSliceMut, BitLength, IndexedDict, IndexedSeq,
    IntoIteratorFrom, IntoReverseUncheckedIterator, IntoUncheckedIterator, NumBits, Pred, Rank, RankZero, Select, SelectZero, Succ, Word,
};
use suxmon::gen::*;
use suxmon::obs::*;

/// Argument classes for an index / rank / value parameter, relative to the
/// structure's length `l`, count `cnt` (ones, zeros, elements) and bound `u`.
const CLASSES: &[&str] = &[
    "0", "1", "len-1", "len", "len+1", "2len", "cnt-1", "cnt", "cnt+1", "u-1", "u", "u+1", "2^16", "2^32", "2^63", "MAX-1", "MAX", "MAX/64", "rand-in", "rand-any",
];

fn class_value(class: &str, l: usize, cnt: usize, u: usize, rng: &mut SmallRng) -> usize {
    match class {
        "0" => 0,
        "1" => 1,
        "len-1" => l.wrapping_sub(1),
        "len" => l,
        "len+1" => l.wrapping_add(1),
        "2len" => l.wrapping_mul(2),
        "cnt-1" => cnt.wrapping_sub(1),
        "cnt" => cnt,
        "cnt+1" => cnt.wrapping_add(1),
        "u-1" => u.wrapping_sub(1),
        "u" => u,
        "u+1" => u.wrapping_add(1),
        "2^16" => 1 << 16,
        "2^32" => 1 << 32,
        "2^63" => 1 << 63,
        "MAX-1" => usize::MAX - 1,
        "MAX" => usize::MAX,
        "MAX/64" => usize::MAX / 64,
        "rand-in" => {
            if l == 0 {
                0
            } else {
                rng.random_range(0..l)
            }
        }
        _ => rng.random::<u64>() as usize,
    }
}

/// Classes for parameters that allocate (resize targets, capacities): capped.
const SIZE_CLASSES: &[&str] = &["0", "1", "len-1", "len", "len+1", "2len", "2^16", "2^20"];
fn size_value(class: &str, l: usize) -> usize {
    match class {
        "0" => 0,
        "1" => 1,
        "len-1" => l.saturating_sub(1),
        "len" => l,
        "len+1" => l + 1,
        "2len" => l * 2,
        "2^16" => 1 << 16,
        _ => 1 << 20,
    }
}

/// A length `n` whose product with `width` overflows `usize` and wraps to a small
/// value (about `c * 2^a` bits, `2^a` the largest power of two dividing `width`):
/// the argument a release build (no overflow checks) mis-sizes storage with if the
/// product is not checked. `None` for widths 0 and 1 (no wrap possible).
fn wrap_len(width: usize, c: usize) -> Option<usize> {
    if width < 2 {
        return None;
    }
    let a = width.trailing_zeros();
    let o = width >> a;
    let n = if o == 1 {
        (1usize << (usize::BITS - a)).wrapping_add(c)
    } else {
        // inverse of the odd part modulo 2^64 (Newton iteration), times c
        let mut inv: usize = o;
        for _ in 0..6 {
            inv = inv.wrapping_mul(2usize.wrapping_sub(o.wrapping_mul(inv)));
        }
        inv.wrapping_mul(c.max(1))
    };
    if (n as u128) * (width as u128) <= usize::MAX as u128 {
        return None;
    }
    Some(n)
}

/// Safe reads and writes on a vector whose state may have been left behind by a
/// caught panic or by a constructor given an overflowing size: each either
/// answers or panics.
fn probe_bfv<W: Word>(b: &mut BitFieldVec<W>) {
    let l = b.len();
    for i in [0usize, 1, 4, 63, 1 << 10, 1 << 20, l / 2, l.wrapping_sub(1), l] {
        let _ = catch(|| black_box(b.get(i)));
        let _ = catch(|| b.set(i, W::ZERO));
    }
    let _ = catch(|| black_box(b.iter().take(3000).count()));
    let _ = catch(|| black_box(b.pop()));
    let _ = catch(|| b.push(W::ZERO));
    let _ = catch(|| black_box((b.len(), b.get(b.len().wrapping_sub(1)))));
}

fn probe_bitvec(b: &mut BitVec) {
    let l = BitLength::len(&*b);
    for i in [0usize, 1, 63, 64, 65, 1 << 10, 1 << 20, l / 2, l.wrapping_sub(1), l] {
        let _ = catch(|| black_box(b.get(i)));
        let _ = catch(|| b.set(i, true));
    }
    let _ = catch(|| black_box((b.count_ones(), b.iter().take(100000).count(), b.iter_ones().take(100000).count(), b.iter_zeros().take(100000).count())));
    let _ = catch(|| black_box(b.pop()));
    let _ = catch(|| b.push(true));
    let _ = catch(|| black_box(b.get(BitLength::len(&*b).wrapping_sub(1))));
}

struct Sweep<'a> {
    ctx: &'a mut Ctx,
    answered: u64,
    panicked: u64,
}

impl Sweep<'_> {
    /// One (instance, method, class) triple per case.
    fn run<T>(
        &mut self,
        variant: &str,
        inst: &str,
        make: &dyn Fn(&mut SmallRng) -> (T, usize, usize, usize),
        methods: &[(&str, &dyn Fn(&mut T, usize, &mut SmallRng))],
        classes: &[&str],
        sized: bool,
    ) {
        for (mname, m) in methods {
            for class in classes {
                let mut outcome = 0u8;
                // Miri / valgrind: a deterministic sixth of the triples, and no huge sizes
                let small = self.ctx.small;
                // (Miri needs about 2 s per triple: one in 24 there, one in 6 under valgrind)
                let modulo = if self.ctx.build == "MIRI" { 24 } else { 6 };
                let pick = !small || hash_str(&format!("{}|{}|{}|{}", variant, inst, mname, class)) % modulo == 0;
                let heavy = small && (inst.contains("5000") || inst.contains("n1000") || inst.contains("1000"));
                self.ctx.case_if(pick && !heavy, variant, &format!("{}/{}", inst, class), mname, |c| {
                    let (mut t, l, cnt, u) = make(c.rng());
                    let arg = if sized { if small { size_value(class, l).min(600) } else { size_value(class, l) } } else { class_value(class, l, cnt, u, c.rng()) };
                    let mut rng2 = SmallRng::clone(c.rng());
                    c.describe(|| format!("{} {} {}({}) [len={} cnt={} u={}]", variant, inst, mname, arg, l, cnt, u));
                    let r = catch(|| m(&mut t, arg, &mut rng2));
                    outcome = if r.is_ok() { 1 } else { 2 };
                    c.tick(1);
                    c.nontrivial();
                    c.set_cell(format!("{}|{}|{}|{}", variant, inst, mname, class));
                });
                match outcome {
                    1 => self.answered += 1,
                    2 => self.panicked += 1,
                    _ => {}
                }
            }
        }
    }
}

// --------------------------------------------------------------------------
// bit vectors

fn bitvec_instances() -> Vec<(&'static str, usize, Pattern, Tail)> {
    vec![
        ("empty", 0, Pattern::Density(0.5), Tail::Fresh),
        ("one-bit", 1, Pattern::Density(1.0), Tail::Fresh),
        ("64", 64, Pattern::Density(0.5), Tail::Fresh),
        ("65-popped", 65, Pattern::Density(0.5), Tail::Popped),
        ("all-ones-513", 513, Pattern::Density(1.0), Tail::Fresh),
        ("all-zeros-512", 512, Pattern::Density(0.0), Tail::Truncated),
        ("random-1000", 1000, Pattern::Density(0.5), Tail::DirtyRandom(2)),
        ("sparse-5000", 5000, Pattern::Density(0.002), Tail::Fresh),
    ]
}

fn sweep_bitvec(sw: &mut Sweep) {
    for (name, len, pat, tail) in bitvec_instances() {
        let make = move |rng: &mut SmallRng| {
            let m = gen_bits(rng, len, pat);
            let ones = m.iter().filter(|x| **x).count();
            (bitvec_with_tail(rng, &m, tail), len, ones, len)
        };
        let methods: &[(&str, &dyn Fn(&mut BitVec, usize, &mut SmallRng))] = &[
            ("get", &|b, i, _| {
                black_box(b.get(i));
            }),
            ("index", &|b, i, _| {
                black_box(b[i]);
            }),
            ("set", &|b, i, r| {
                b.set(i, r.random_bool(0.5));
            }),
            ("iter_nth", &|b, i, _| {
                black_box(b.iter().nth(i));
            }),
            ("iter_ones_nth_then_poll", &|b, i, _| {
                let mut it = b.iter_ones();
                black_box(it.nth(i));
                black_box((it.next(), it.next()));
            }),
            ("iter_zeros_nth_then_poll", &|b, i, _| {
                let mut it = b.iter_zeros();
                black_box(it.nth(i));
                black_box((it.next(), it.next()));
            }),
        ];
        sw.run("BitVec", name, &make, methods, CLASSES, false);
        let sized: &[(&str, &dyn Fn(&mut BitVec, usize, &mut SmallRng))] = &[
            ("resize_then_read", &|b, n, r| {
                b.resize(n, r.random_bool(0.5));
                black_box((b.count_ones(), b.iter().count(), b.iter_ones().count(), b.pop()));
            }),
            ("pop_n_then_push", &|b, n, _| {
                for _ in 0..n.min(6000) {
                    black_box(b.pop());
                }
                b.push(true);
                black_box((BitLength::len(&*b), b.count_ones()));
            }),
            ("with_capacity_push", &|_b, n, _| {
                let mut x = BitVec::with_capacity(n);
                x.push(true);
                black_box((x.get(0), x.capacity()));
            }),
            ("fill_flip_count", &|b, _n, r| {
                b.fill(r.random_bool(0.5));
                b.flip();
                b.par_flip();
                b.reset();
                black_box((b.count_ones(), b.par_count_ones(), b.count_zeros()));
            }),
        ];
        sw.run("BitVec", name, &make, sized, SIZE_CLASSES, true);
        // unwinding faults: a caller-supplied iterator panics in the middle of a
        // mutating call; the vector left behind must still answer or panic
        let faults: &[(&str, &dyn Fn(&mut BitVec, usize, &mut SmallRng))] = &[
            ("extend_panicking_iter_then_probe", &|b, n, r| {
                let k = n.min(3000);
                let v = r.random_bool(0.5);
                let _ = catch(|| b.extend((0..=k).map(|j| if j == k { panic!("injected fault in the iterator") } else { v ^ (j % 3 == 0) })));
                probe_bitvec(b);
            }),
            ("collect_panicking_iter", &|_b, n, _| {
                let k = n.min(3000);
                let _ = catch(|| black_box((0..=k).map(|j| if j == k { panic!("injected fault in the iterator") } else { j % 2 == 0 }).collect::<BitVec>()));
            }),
        ];
        sw.run("BitVec", name, &make, faults, &["0", "1", "len-1", "len", "2len", "2^16"], true);

        let make_a = move |rng: &mut SmallRng| {
            let m = gen_bits(rng, len, pat);
            let ones = m.iter().filter(|x| **x).count();
            let a: AtomicBitVec = bitvec_with_tail(rng, &m, tail).into();
            (a, len, ones, len)
        };
        let am: &[(&str, &dyn Fn(&mut AtomicBitVec, usize, &mut SmallRng))] = &[
            ("get", &|a, i, _| {
                black_box(a.get(i, Ordering::Relaxed));
            }),
            ("set", &|a, i, r| {
                a.set(i, r.random_bool(0.5), Ordering::Relaxed);
            }),
            ("swap", &|a, i, r| {
                black_box(a.swap(i, r.random_bool(0.5), Ordering::Relaxed));
            }),
            ("index", &|a, i, _| {
                black_box(a[i]);
            }),
            ("iter_nth", &|a, i, _| {
                black_box(a.iter().nth(i));
            }),
        ];
        sw.run("AtomicBitVec", name, &make_a, am, CLASSES, false);
    }
}

// --------------------------------------------------------------------------
// bit-field vectors

fn sweep_bfv<W: Word + TryFrom<u128>>(sw: &mut Sweep, wname: &str) {
    let widths = [0usize, 1, 7.min(W::BITS), W::BITS - 1, W::BITS];
    for &width in widths.iter() {
        for &(iname, len, spare) in &[("empty", 0usize, 0usize), ("one", 1, 0), ("hundred", 100, 0), ("popped-37", 37, 30)] {
            let variant = format!("BitFieldVec<{}>", wname);
            let inst = format!("w{}/{}", if width == W::BITS { "full".to_string() } else if width + 1 == W::BITS { "full-1".to_string() } else { width.to_string() }, iname);
            let maxv: u128 = if width == 0 { 0 } else if width >= 128 { u128::MAX } else { (1u128 << width) - 1 };
            let conv = move |x: u128| -> W { W::try_from(x & maxv).ok().unwrap() };
            let make = move |rng: &mut SmallRng| {
                let mut b = BitFieldVec::<W>::new(width, 0);
                for _ in 0..len + spare {
                    b.push(conv(rng.random::<u128>()));
                }
                for _ in 0..spare {
                    b.pop();
                }
                (b, len, len, maxv as usize)
            };
            let methods: &[(&str, &dyn Fn(&mut BitFieldVec<W>, usize, &mut SmallRng))] = &[
                ("get", &|b, i, _| {
                    black_box(b.get(i));
                }),
                ("set_max", &|b, i, _| {
                    let m = b.mask();
                    b.set(i, m);
                }),
                ("set_zero", &|b, i, _| {
                    b.set(i, W::ZERO);
                }),
                ("get_unaligned", &|b, i, _| {
                    black_box(b.get_unaligned(i));
                }),
                ("addr_of", &|b, i, _| {
                    black_box(b.addr_of(i));
                }),
                ("iter_from", &|b, i, _| {
                    black_box(b.iter_from(i).count());
                }),
                ("into_iter_from", &|b, i, _| {
                    black_box((&*b).into_iter_from(i).count());
                }),
                ("unchecked_iter_from_ctor", &|b, i, _| {
                    // constructor only: next_unchecked has a precondition
                    black_box(&(&*b).into_unchecked_iter_from(i));
                }),
                ("rev_unchecked_iter_from_ctor", &|b, i, _| {
                    black_box(&(&*b).into_rev_unchecked_iter_from(i));
                }),
                ("copy_from_i", &|b, i, r| {
                    let mut d = b.clone();
                    let to = if d.len() == 0 { 0 } else { r.random_range(0..=d.len()) };
                    b.copy(i, &mut d, to, 10);
                    black_box(d.len());
                }),
                ("copy_to_i", &|b, i, _| {
                    let mut d = b.clone();
                    b.copy(0, &mut d, i, 10);
                    black_box(d.len());
                }),
                ("copy_len_i", &|b, i, _| {
                    let mut d = b.clone();
                    b.copy(0, &mut d, 0, i);
                    black_box(d.len());
                }),
                ("try_chunks_mut", &|b, i, _| {
                    if let Ok(ch) = b.try_chunks_mut(i) {
                        for mut c in ch.take(1000) {
                            if c.len() > 0 {
                                let v = c.get(0);
                                c.set(c.len() - 1, v);
                            }
                        }
                    }
                }),
            ];
            sw.run(&variant, &inst, &make, methods, CLASSES, false);
            let sized: &[(&str, &dyn Fn(&mut BitFieldVec<W>, usize, &mut SmallRng))] = &[
                ("resize_then_read", &|b, n, _| {
                    let m = b.mask();
                    b.resize(n, m);
                    black_box((b.iter().count(), b.pop()));
                }),
                ("pop_n_then_push", &|b, n, _| {
                    for _ in 0..n.min(300) {
                        black_box(b.pop());
                    }
                    b.push(W::ZERO);
                    black_box(b.get(b.len() - 1));
                }),
                ("with_capacity_push", &|b, n, _| {
                    let mut x = BitFieldVec::<W>::with_capacity(b.bit_width(), n);
                    x.push(b.mask());
                    x.resize(3, W::ZERO);
                    black_box(x.get(0));
                }),
                ("new_unaligned_read", &|b, n, _| {
                    let w = b.bit_width();
                    let x = BitFieldVec::<W>::new_unaligned(w, n.min(1 << 16));
                    if n > 0 && (w <= W::BITS - 8 + 2 || w == W::BITS - 8 + 4 || w == W::BITS) {
                        black_box(x.get_unaligned(n.min(1 << 16) - 1));
                    }
                }),
                ("apply_reset_clear", &|b, _n, _| {
                    b.apply_in_place(|x| x);
                    b.reset();
                    b.clear();
                    b.push(W::ZERO);
                    black_box(b.get(0));
                }),
            ];
            sw.run(&variant, &inst, &make, sized, SIZE_CLASSES, true);
            // sizes whose product with the bit width overflows usize (and wraps to
            // something small without overflow checks), and unwinding faults
            // injected through caller-supplied iterators and closures: the call
            // panics or answers, and the vector left behind still answers or panics
            let wraps: &[(&str, &dyn Fn(&mut BitFieldVec<W>, usize, &mut SmallRng))] = &[
                ("new_wrap_then_probe", &|b, c, _| {
                    if let Some(n) = wrap_len(b.bit_width(), c) {
                        if let Ok(mut x) = catch(|| BitFieldVec::<W>::new(b.bit_width(), n)) {
                            probe_bfv(&mut x);
                        }
                    }
                }),
                ("new_unaligned_wrap_then_probe", &|b, c, _| {
                    if let Some(n) = wrap_len(b.bit_width(), c) {
                        if let Ok(mut x) = catch(|| BitFieldVec::<W>::new_unaligned(b.bit_width(), n)) {
                            let _ = catch(|| black_box(x.get_unaligned(x.len() / 2)));
                            probe_bfv(&mut x);
                        }
                    }
                }),
                ("resize_wrap_then_probe", &|b, c, _| {
                    if let Some(n) = wrap_len(b.bit_width(), c) {
                        let m = b.mask();
                        let _ = catch(|| b.resize(n, m));
                        probe_bfv(b);
                    }
                }),
                ("with_capacity_unpushed_ops", &|b, n, _| {
                    // an empty vector that has never been pushed to: its backend may hold no word at all
                    let w = b.bit_width();
                    let mut x = BitFieldVec::<W>::with_capacity(w, n.min(1000));
                    let _ = catch(|| x.apply_in_place(|v| v));
                    let _ = catch(|| x.reset());
                    let _ = catch(|| black_box((x.iter().count(), (&x).into_iter_from(0).count(), x.pop())));
                    let _ = catch(|| {
                        let mut d = x.clone();
                        x.copy(0, &mut d, 0, 10);
                    });
                    let _ = catch(|| {
                        if let Ok(ch) = x.try_chunks_mut(4) {
                            black_box(ch.count());
                        }
                    });
                    let _ = catch(|| black_box(x.addr_of(0)));
                    let bx: BitFieldVec<W, Box<[W]>> = x.clone().into();
                    let _ = catch(|| black_box((bx.iter().count(), bx.get(0))));
                    let mut bx = bx;
                    let _ = catch(|| bx.apply_in_place(|v| v));
                    let _ = catch(|| bx.reset());
                    probe_bfv(&mut x);
                }),
                ("new_overwide_then_probe", &|_b, n, _| {
                    // a bit width larger than the word: rejected, or a vector that stays in its storage
                    for w in [W::BITS + 1, 2 * W::BITS + 3] {
                        if let Ok(mut x) = catch(|| BitFieldVec::<W>::new(w, n.min(1000))) {
                            probe_bfv(&mut x);
                        }
                        if let Ok(mut x) = catch(|| BitFieldVec::<W>::with_capacity(w, n.min(1000))) {
                            let _ = catch(|| x.push(W::ZERO));
                            let _ = catch(|| x.resize(n.min(1000), W::ZERO));
                            probe_bfv(&mut x);
                        }
                    }
                }),
                ("extend_panicking_iter_then_probe", &|b, n, _| {
                    let k = n.min(300);
                    let m = b.mask();
                    let _ = catch(|| b.extend((0..=k).map(|j| if j == k { panic!("injected fault in the iterator") } else { m })));
                    probe_bfv(b);
                }),
                ("apply_in_place_panicking_then_probe", &|b, n, _| {
                    let mut seen = 0usize;
                    let _ = catch(|| {
                        b.apply_in_place(|x| {
                            seen += 1;
                            if seen > n {
                                panic!("injected fault in the closure");
                            }
                            x
                        })
                    });
                    probe_bfv(b);
                }),
            ];
            sw.run(&variant, &inst, &make, wraps, &["0", "1", "len-1", "len", "2^16"], true);

        }
    }
}

fn sweep_abfv<W: Word + common_traits::IntoAtomic + TryFrom<u128>>(sw: &mut Sweep, wname: &str)
where
    W::AtomicType: common_traits::AtomicUnsignedInt + common_traits::AsBytes,
{
    let widths = [0usize, 1, 7.min(W::BITS), W::BITS - 1, W::BITS];
    for &width in widths.iter() {
        for &(iname, len) in &[("empty", 0usize), ("one", 1), ("hundred", 100)] {
            let inst = format!("w{}/{}", if width == W::BITS { "full".to_string() } else if width + 1 == W::BITS { "full-1".to_string() } else { width.to_string() }, iname);
            let maxv: u128 = if width == 0 { 0 } else if width >= 128 { u128::MAX } else { (1u128 << width) - 1 };
            let conv = move |x: u128| -> W { W::try_from(x & maxv).ok().unwrap() };
            let make_a = move |rng: &mut SmallRng| {
                let mut b = BitFieldVec::<W>::new(width, len);
                for i in 0..len {
                    b.set(i, conv(rng.random::<u128>()));
                }
                let a: AtomicBitFieldVec<W> = b.into();
                (a, len, len, maxv as usize)
            };
            let am: &[(&str, &dyn Fn(&mut AtomicBitFieldVec<W>, usize, &mut SmallRng))] = &[
                ("get_atomic", &|a, i, _| {
                    black_box(a.get_atomic(i, Ordering::Relaxed));
                }),
                ("set_atomic_max", &|a, i, _| {
                    let m = a.mask();
                    a.set_atomic(i, m, Ordering::Relaxed);
                }),
            ];
            sw.run(&format!("AtomicBitFieldVec<{}>", wname), &inst, &make_a, am, CLASSES, false);
            let aw: &[(&str, &dyn Fn(&mut AtomicBitFieldVec<W>, usize, &mut SmallRng))] = &[("new_wrap_then_probe", &|a, c, _| {
                if let Some(n) = wrap_len(a.bit_width(), c) {
                    if let Ok(x) = catch(|| AtomicBitFieldVec::<W>::new(a.bit_width(), n)) {
                        let l = x.len();
                        for i in [0usize, 1, 4, 63, 1 << 10, 1 << 20, l / 2, l.wrapping_sub(1), l] {
                            let _ = catch(|| black_box(x.get_atomic(i, Ordering::Relaxed)));
                            let _ = catch(|| x.set_atomic(i, W::ZERO, Ordering::Relaxed));
                        }
                    }
                }
            })];
            sw.run(&format!("AtomicBitFieldVec<{}>", wname), &inst, &make_a, aw, &["0", "1", "len-1", "2^16"], true);
        }
    }
}

// --------------------------------------------------------------------------
// rank / select structures

fn rs_methods<T: Rank + RankZero + BitLength + NumBits>() -> Vec<(&'static str, Box<dyn Fn(&mut T, usize, &mut SmallRng)>)> {
    vec![
        ("rank", Box::new(|t: &mut T, i, _: &mut SmallRng| {
            black_box(t.rank(i));
        })),
        ("rank_zero", Box::new(|t: &mut T, i, _: &mut SmallRng| {
            // rank_zero(pos) = pos - rank(pos) is defined for every pos
            black_box(t.rank_zero(i));
        })),
    ]
}

macro_rules! sweep_rank {
    ($sw:expr, $variant:expr, $build:expr) => {{
        for (name, len, pat, tail) in bitvec_instances() {
            let make = move |rng: &mut SmallRng| {
                let m = gen_bits(rng, len, pat);
                let ones = m.iter().filter(|x| **x).count();
                let b = bitvec_with_tail(rng, &m, tail);
                (($build)(b), len, ones, len)
            };
            let ms = rs_methods();
            let refs: Vec<(&str, &dyn Fn(&mut _, usize, &mut SmallRng))> = ms.iter().map(|(n, f)| (*n, f.as_ref() as &dyn Fn(&mut _, usize, &mut SmallRng))).collect();
            $sw.run($variant, name, &make, &refs, CLASSES, false);
        }
    }};
}

macro_rules! sweep_select {
    ($sw:expr, $variant:expr, $build:expr) => {{
        for (name, len, pat, tail) in bitvec_instances() {
            let make = move |rng: &mut SmallRng| {
                let m = gen_bits(rng, len, pat);
                let ones = m.iter().filter(|x| **x).count();
                let b = bitvec_with_tail(rng, &m, tail);
                (($build)(b), len, ones, len)
            };
            let refs: Vec<(&str, &dyn Fn(&mut _, usize, &mut SmallRng))> = vec![("select", &|t: &mut _, i: usize, _: &mut SmallRng| {
                black_box(Select::select(t, i));
            })];
            $sw.run($variant, name, &make, &refs, CLASSES, false);
        }
    }};
}

macro_rules! sweep_select_zero {
    ($sw:expr, $variant:expr, $build:expr) => {{
        for (name, len, pat, tail) in bitvec_instances() {
            let make = move |rng: &mut SmallRng| {
                let m = gen_bits(rng, len, pat);
                let zeros = m.iter().filter(|x| !**x).count();
                let b = bitvec_with_tail(rng, &m, tail);
                (($build)(b), len, zeros, len)
            };
            let refs: Vec<(&str, &dyn Fn(&mut _, usize, &mut SmallRng))> = vec![("select_zero", &|t: &mut _, i: usize, _: &mut SmallRng| {
                black_box(SelectZero::select_zero(t, i));
            })];
            $sw.run($variant, name, &make, &refs, CLASSES, false);
        }
    }};
}

fn sweep_rank_select(sw: &mut Sweep) {
    sweep_rank!(sw, "Rank9", |b: BitVec| Rank9::new(b));
    sweep_rank!(sw, "RankSmall<2,9>", |b: BitVec| RankSmall::<2, 9, _>::new(b));
    sweep_rank!(sw, "RankSmall<1,9>", |b: BitVec| RankSmall::<1, 9, _>::new(b));
    sweep_rank!(sw, "RankSmall<1,10>", |b: BitVec| RankSmall::<1, 10, _>::new(b));
    sweep_rank!(sw, "RankSmall<1,11>", |b: BitVec| RankSmall::<1, 11, _>::new(b));
    sweep_rank!(sw, "RankSmall<3,13>", |b: BitVec| RankSmall::<3, 13, _>::new(b));
    sweep_rank!(sw, "SelectAdapt(Rank9)", |b: BitVec| SelectAdapt::new(Rank9::new(b), 3));
    sweep_rank!(sw, "Select9(Rank9)", |b: BitVec| Select9::new(Rank9::new(b)));
    sweep_rank!(sw, "SelectZeroSmall(SelectSmall(RankSmall<1,11>))", |b: BitVec| SelectZeroSmall::<1, 11, _>::new(SelectSmall::<1, 11, _>::new(RankSmall::<1, 11, _>::new(b))));

    sweep_select!(sw, "Select9(Rank9)", |b: BitVec| Select9::new(Rank9::new(b)));
    sweep_select!(sw, "SelectAdapt(AddNumBits)", |b: BitVec| SelectAdapt::new(AddNumBits::from(b), 3));
    sweep_select!(sw, "SelectAdapt::with_inv(Rank9,0,0)", |b: BitVec| SelectAdapt::with_inv(Rank9::new(b), 0, 0));
    sweep_select!(sw, "SelectAdapt::with_inv(Rank9,13,5)", |b: BitVec| SelectAdapt::with_inv(Rank9::new(b), 13, 5));
    sweep_select!(sw, "SelectAdaptConst(Rank9)", |b: BitVec| SelectAdaptConst::<_, _>::new(Rank9::new(b)));
    sweep_select!(sw, "SelectAdaptConst<5,1>(AddNumBits)", |b: BitVec| SelectAdaptConst::<_, _, 5, 1>::new(AddNumBits::from(b)));
    sweep_select!(sw, "SelectSmall<2,9>", |b: BitVec| SelectSmall::<2, 9, _>::new(RankSmall::<2, 9, _>::new(b)));
    sweep_select!(sw, "SelectSmall<1,9>", |b: BitVec| SelectSmall::<1, 9, _>::new(RankSmall::<1, 9, _>::new(b)));
    sweep_select!(sw, "SelectSmall<1,10>", |b: BitVec| SelectSmall::<1, 10, _>::new(RankSmall::<1, 10, _>::new(b)));
    sweep_select!(sw, "SelectSmall<1,11>", |b: BitVec| SelectSmall::<1, 11, _>::new(RankSmall::<1, 11, _>::new(b)));
    sweep_select!(sw, "SelectSmall<3,13>", |b: BitVec| SelectSmall::<3, 13, _>::new(RankSmall::<3, 13, _>::new(b)));
    sweep_select!(sw, "SelectZeroAdapt(SelectAdapt(Rank9))", |b: BitVec| SelectZeroAdapt::new(SelectAdapt::new(Rank9::new(b), 3), 3));

    sweep_select_zero!(sw, "SelectZeroAdapt(AddNumBits)", |b: BitVec| SelectZeroAdapt::new(AddNumBits::from(b), 3));
    sweep_select_zero!(sw, "SelectZeroAdapt::with_inv(Rank9,0,0)", |b: BitVec| SelectZeroAdapt::with_inv(Rank9::new(b), 0, 0));
    sweep_select_zero!(sw, "SelectZeroAdaptConst(Rank9)", |b: BitVec| SelectZeroAdaptConst::<_, _>::new(Rank9::new(b)));
    sweep_select_zero!(sw, "SelectZeroAdaptConst<5,1>(AddNumBits)", |b: BitVec| SelectZeroAdaptConst::<_, _, 5, 1>::new(AddNumBits::from(b)));
    sweep_select_zero!(sw, "SelectZeroSmall<2,9>", |b: BitVec| SelectZeroSmall::<2, 9, _>::new(RankSmall::<2, 9, _>::new(b)));
    sweep_select_zero!(sw, "SelectZeroSmall<1,9>", |b: BitVec| SelectZeroSmall::<1, 9, _>::new(RankSmall::<1, 9, _>::new(b)));
    sweep_select_zero!(sw, "SelectZeroSmall<1,10>", |b: BitVec| SelectZeroSmall::<1, 10, _>::new(RankSmall::<1, 10, _>::new(b)));
    sweep_select_zero!(sw, "SelectZeroSmall<1,11>", |b: BitVec| SelectZeroSmall::<1, 11, _>::new(RankSmall::<1, 11, _>::new(b)));
    sweep_select_zero!(sw, "SelectZeroSmall<3,13>", |b: BitVec| SelectZeroSmall::<3, 13, _>::new(RankSmall::<3, 13, _>::new(b)));
    sweep_select_zero!(sw, "SelectZeroAdapt(Select9(Rank9))", |b: BitVec| SelectZeroAdapt::new(Select9::new(Rank9::new(b)), 3));
}

// --------------------------------------------------------------------------
// Elias-Fano

fn ef_instances() -> Vec<(&'static str, usize, usize)> {
    vec![
        ("n0-u0", 0, 0),
        ("n0-u10", 0, 10),
        ("n0-uMAX", 0, usize::MAX),
        ("n1-u0", 1, 0),
        ("n1-uMAX", 1, usize::MAX),
        ("n1-u1000", 1, 1000),
        ("n2-dup", 2, 7),
        ("n100-dense", 100, 120),
        ("n100-sparse", 100, 1 << 40),
        ("n64-uMAX", 64, usize::MAX),
        ("n1000-u-eq-n", 1000, 1000),
        ("n300-u-small", 300, 17),
        // upper-bits arrays of exactly 64, 128 and 256 bits (n + (u >> l) + 1): the word after
        // the terminating zero does not exist, and u + 1 opens the bucket after the last one
        ("n31-u32-hi64", 31, 32),
        ("n63-u64-hi128", 63, 64),
        ("n100-u1247-hi256", 100, 1247),
    ]
}

fn sweep_ef(sw: &mut Sweep) {
    for (name, n, u) in ef_instances() {
        let gen_vals = move |rng: &mut SmallRng| -> Vec<usize> {
            let mut v: Vec<usize> = (0..n).map(|_| if u == usize::MAX { rng.random::<u64>() as usize } else { rng.random_range(0..=u) }).collect();
            v.sort_unstable();
            if name == "n2-dup" {
                v[1] = v[0];
            }
            v
        };
        let make = move |rng: &mut SmallRng| {
            let v = gen_vals(rng);
            let mut b = EliasFanoBuilder::new(n, u);
            for &x in &v {
                b.push(x);
            }
            (b.build_with_seq_and_dict(), n, n, u)
        };
        type Ef = sux::dict::elias_fano::EfSeqDict;
        let methods: &[(&str, &dyn Fn(&mut Ef, usize, &mut SmallRng))] = &[
            ("get", &|e, i, _| {
                black_box(e.get(i));
            }),
            ("iter_from", &|e, i, _| {
                black_box(e.iter_from(i).count());
            }),
            ("into_iter_from", &|e, i, _| {
                black_box((&*e).into_iter_from(i).take(5).count());
            }),
            ("index_of", &|e, q, _| {
                black_box(e.index_of(q));
            }),
            ("contains", &|e, q, _| {
                black_box(e.contains(q));
            }),
            ("succ", &|e, q, _| {
                black_box(e.succ(q));
            }),
            ("succ_strict", &|e, q, _| {
                black_box(e.succ_strict(q));
            }),
            ("pred", &|e, q, _| {
                black_box(e.pred(q));
            }),
            ("pred_strict", &|e, q, _| {
                black_box(e.pred_strict(q));
            }),
        ];
        sw.run("EfSeqDict", name, &make, methods, CLASSES, false);

        // the same through stored values +-1 (queries equal to elements)
        let make2 = move |rng: &mut SmallRng| {
            let v = gen_vals(rng);
            let mut b = EliasFanoBuilder::new(n, u);
            for &x in &v {
                b.push(x);
            }
            let first = v.first().copied().unwrap_or(0);
            let last = v.last().copied().unwrap_or(0);
            (b.build_with_seq_and_dict(), first, last, u)
        };
        // here len:=first element, cnt:=last element so that classes hit x_0-1, x_0, x_0+1, x_n-1 ...
        let m2: &[(&str, &dyn Fn(&mut Ef, usize, &mut SmallRng))] = &[
            ("succ@elem", &|e, q, _| {
                black_box((e.succ(q), e.succ_strict(q)));
            }),
            ("pred@elem", &|e, q, _| {
                black_box((e.pred(q), e.pred_strict(q)));
            }),
            ("index_of@elem", &|e, q, _| {
                black_box(e.index_of(q));
            }),
        ];
        sw.run("EfSeqDict", name, &make2, m2, &["len-1", "len", "len+1", "cnt-1", "cnt", "cnt+1"], false);

        // builder: pushes that must be rejected by a panic, never written out of bounds
        let makeb = move |_rng: &mut SmallRng| (EliasFanoBuilder::new(n, u), n, n, u);
        let mb: &[(&str, &dyn Fn(&mut EliasFanoBuilder, usize, &mut SmallRng))] = &[
            ("push_value", &|b, x, _| {
                b.push(x);
            }),
            ("push_twice_descending", &|b, x, _| {
                b.push(x);
                b.push(x.wrapping_sub(1));
            }),
            ("push_n_plus_one", &|b, x, _| {
                for _ in 0..300 {
                    b.push(x);
                }
            }),
        ];
        if n <= 300 {
            sw.run("EliasFanoBuilder", name, &makeb, mb, CLASSES, false);
        }
    }
}

// --------------------------------------------------------------------------
// rear-coded lists

fn sweep_rcl(sw: &mut Sweep) {
    for &(name, n, k, sorted) in &[
        ("empty-k4", 0usize, 4usize, true),
        ("single-empty-string", 1, 4, true),
        ("n8-k4", 8, 4, true),
        ("n9-k4", 9, 4, true),
        ("n64-k1", 64, 1, true),
        ("n50-k8-unsorted", 50, 8, false),
        ("n16-k16", 16, 16, true),
        ("n5-k64", 5, 64, true),
    ] {
        let make = move |rng: &mut SmallRng| {
            let mut v: Vec<String> = (0..n)
                .map(|i| if name == "single-empty-string" { String::new() } else { format!("{}{}", ["", "a", "ab", "abc", "b", "zz"][i % 6], rand_string(rng, 12, &['a', 'b', 'c', 'é', 'z'])) })
                .collect();
            if sorted {
                v.sort();
            }
            let mut b = RearCodedListBuilder::new(k);
            for s in &v {
                b.push(s);
            }
            (b.build(), n, n, n)
        };
        type Rcl = sux::dict::RearCodedList;
        let methods: &[(&str, &dyn Fn(&mut Rcl, usize, &mut SmallRng))] = &[
            ("get", &|r, i, _| {
                black_box(r.get(i));
            }),
            ("get_in_place", &|r, i, _| {
                let mut v = Vec::new();
                r.get_in_place(i, &mut v);
                black_box(v);
            }),
            ("iter_from", &|r, i, _| {
                black_box(r.iter_from(i).count());
            }),
            ("lend_from", &|r, i, _| {
                use lender::Lender;
                let mut l = r.lend_from(i);
                let mut c = 0;
                while let Some(s) = l.next() {
                    c += s.len();
                }
                black_box((c, l.next().is_none()));
            }),
            ("into_iter_from", &|r, i, _| {
                black_box((&*r).into_iter_from(i).count());
            }),
            ("index_of_probe", &|r, i, rng| {
                let probes = ["", "a", "ab", "abc\u{e9}", "zzzzzzzzzzzzzzzzzzzzzzzzzzzz", "\u{10FFFF}", "b"];
                let p = probes[i % probes.len()];
                black_box((r.index_of(p), r.contains(p)));
                let s = rand_string(rng, 3, &['a', 'b', 'z']);
                black_box(r.index_of(s.as_str()));
            }),
        ];
        sw.run("RearCodedList", name, &make, methods, CLASSES, false);
    }
}

// --------------------------------------------------------------------------
// static functions and filters (not under Miri: the builder needs threads/priorities)

fn sweep_vfunc(sw: &mut Sweep) {
    use dsi_progress_logger::no_logging;
    use sux::func::shard_edge::{FuseLge3FullSigs, FuseLge3NoShards, FuseLge3Shards};
    use sux::func::{VBuilder, VFunc};
    use sux::utils::FromIntoIterator;
    macro_rules! vf {
        ($variant:expr, $S:ty, $E:ty, $D:ty, $sig:expr) => {{
            for &n in &[0usize, 1, 2, 100, 5000] {
                let make = move |_rng: &mut SmallRng| {
                    let f: VFunc<usize, usize, $D, $S, $E> = VBuilder::<usize, $D, $S, $E>::default()
                        .try_build_func(FromIntoIterator::from(0..n), FromIntoIterator::from(0..n), no_logging![])
                        .expect("build");
                    (f, n, n, n)
                };
                let methods: &[(&str, &dyn Fn(&mut VFunc<usize, usize, $D, $S, $E>, usize, &mut SmallRng))] = &[
                    ("get_nonmember", &|f, k, _| {
                        black_box(f.get(k));
                    }),
                    ("get_by_sig_extreme", &|f, k, r| {
                        let words = [0u64, 1, u64::MAX, u64::MAX - 1, 1 << 63, (1 << 32) - 1, k as u64, r.random()];
                        for &a in &words {
                            for &b in &words {
                                black_box(f.get_by_sig(($sig)(a, b)));
                            }
                        }
                    }),
                ];
                sw.run($variant, &format!("n{}", n), &make, methods, &["0", "len", "len+1", "2^32", "MAX", "rand-any"], false);
            }
        }};
    }
    vf!("VFunc<Shards,BitFieldVec>", [u64; 2], FuseLge3Shards, BitFieldVec<usize>, |a, b| [a, b]);
    vf!("VFunc<Shards,Box>", [u64; 2], FuseLge3Shards, Box<[usize]>, |a, b| [a, b]);
    vf!("VFunc<NoShards128,BitFieldVec>", [u64; 2], FuseLge3NoShards, BitFieldVec<usize>, |a, b| [a, b]);
    vf!("VFunc<NoShards64,Box>", [u64; 1], FuseLge3NoShards, Box<[usize]>, |a, _b| [a]);
    vf!("VFunc<FullSigs,BitFieldVec>", [u64; 2], FuseLge3FullSigs, BitFieldVec<usize>, |a, b| [a, b]);

    // filters
    for &n in &[0usize, 1, 100, 5000] {
        let make = move |_rng: &mut SmallRng| {
            let f = VBuilder::<u8, Box<[u8]>>::default().try_build_filter(FromIntoIterator::from(0..n), no_logging![]).expect("build");
            (f, n, n, n)
        };
        let methods: &[(&str, &dyn Fn(&mut sux::dict::VFilter<u8, VFunc<usize, u8, Box<[u8]>>>, usize, &mut SmallRng))] = &[
            ("contains_nonmember", &|f, k, _| {
                black_box((f.contains(k), f[k]));
            }),
            ("contains_by_sig_extreme", &|f, k, r| {
                let words = [0u64, 1, u64::MAX, 1 << 63, k as u64, r.random()];
                for &a in &words {
                    for &b in &words {
                        black_box(f.contains_by_sig([a, b]));
                    }
                }
            }),
        ];
        sw.run("VFilter<u8,Box>", &format!("n{}", n), &make, methods, &["0", "len", "len+1", "2^32", "MAX", "rand-any"], false);
        let make = move |_rng: &mut SmallRng| {
            let f = VBuilder::<u16, BitFieldVec<u16>>::default().try_build_filter(FromIntoIterator::from(0..n), 11, no_logging![]).expect("build");
            (f, n, n, n)
        };
        let methods: &[(&str, &dyn Fn(&mut sux::dict::VFilter<u16, VFunc<usize, u16, BitFieldVec<u16>>>, usize, &mut SmallRng))] = &[("contains_nonmember", &|f, k, _| {
            black_box((f.contains(k), f[k]));
        })];
        sw.run("VFilter<u16,BitFieldVec,11>", &format!("n{}", n), &make, methods, &["0", "len", "len+1", "2^32", "MAX", "rand-any"], false);
    }
}

// --------------------------------------------------------------------------
// constructor parameters of the selection structures

/// True if building an adaptive selection structure with these parameters over
/// `count` ones (zeros) would try to allocate an inventory between 256 MiB and the
/// largest possible allocation: such a call legitimately dies of memory
/// exhaustion (an abort, not an out-of-bounds access) and is not attempted.
fn adapt_alloc_unsafe(count: usize, log2_ones_per_inv: usize, max_log2_u64: usize) -> bool {
    let opi = 1usize.wrapping_shl(log2_ones_per_inv as u32);
    let entries = count.div_ceil(opi.max(1)) as u128;
    let l2 = max_log2_u64.min(log2_ones_per_inv.saturating_sub(2));
    let ups = 1usize.wrapping_shl(l2 as u32) as u128;
    let words = entries * (ups + 1) + 1;
    (1u128 << 25..1u128 << 60).contains(&words)
}

fn probe_select<T: Select + NumBits>(t: &T) {
    let cnt = t.num_ones();
    for r in [0usize, 1, cnt / 2, cnt.wrapping_sub(1), cnt, cnt.wrapping_add(1), usize::MAX] {
        let _ = catch(|| black_box(t.select(r)));
    }
}

fn probe_select_zero<T: SelectZero + NumBits + BitLength>(t: &T) {
    let cnt = t.len() - t.num_ones();
    for r in [0usize, 1, cnt / 2, cnt.wrapping_sub(1), cnt, cnt.wrapping_add(1), usize::MAX] {
        let _ = catch(|| black_box(t.select_zero(r)));
    }
}

/// The numeric parameters of the constructors (inventory spans, logarithms of
/// sizes, blocks per inventory entry) over the whole domain of `usize`: the
/// constructor answers or panics, and a structure it returns answers or panics.
fn sweep_ctor_params(sw: &mut Sweep) {
    // classes are resolved against (len, cnt, u) = (3, 31, 63): 2, 3, 4, 6, 30, 31, 32, 62, 63, 64 and the powers / extremes
    for (name, len, pat, tail) in bitvec_instances() {
        let make = move |rng: &mut SmallRng| {
            let m = gen_bits(rng, len, pat);
            (bitvec_with_tail(rng, &m, tail), 3usize, 31usize, 63usize)
        };
        let methods: &[(&str, &dyn Fn(&mut BitVec, usize, &mut SmallRng))] = &[
            ("SelectAdapt::new(bits,p)", &|b, p, _| {
                let ones = b.count_ones();
                if !adapt_alloc_unsafe(ones, 13, p) {
                    probe_select(&SelectAdapt::new(AddNumBits::from(b.clone()), p));
                }
            }),
            ("SelectAdapt::with_inv(bits,p,3)", &|b, p, _| {
                let ones = b.count_ones();
                if !adapt_alloc_unsafe(ones, p, 3) {
                    probe_select(&SelectAdapt::with_inv(AddNumBits::from(b.clone()), p, 3));
                }
            }),
            ("SelectAdapt::with_inv(bits,q,p)", &|b, p, r| {
                let ones = b.count_ones();
                let q = [0usize, 2, 5, 16, 40, 62, 63, 64, 70][r.random_range(0..9)];
                if !adapt_alloc_unsafe(ones, q, p) {
                    probe_select(&SelectAdapt::with_inv(Rank9::new(b.clone()), q, p));
                }
            }),
            ("SelectAdapt::with_span(bits,p,3)", &|b, p, _| {
                probe_select(&SelectAdapt::with_span(AddNumBits::from(b.clone()), p, 3));
            }),
            ("SelectZeroAdapt::new(bits,p)", &|b, p, _| {
                let zeros = b.count_zeros();
                if !adapt_alloc_unsafe(zeros, 13, p) {
                    probe_select_zero(&SelectZeroAdapt::new(AddNumBits::from(b.clone()), p));
                }
            }),
            ("SelectZeroAdapt::with_inv(bits,p,3)", &|b, p, _| {
                let zeros = b.count_zeros();
                if !adapt_alloc_unsafe(zeros, p, 3) {
                    probe_select_zero(&SelectZeroAdapt::with_inv(AddNumBits::from(b.clone()), p, 3));
                }
            }),
            ("SelectZeroAdapt::with_inv(bits,q,p)", &|b, p, r| {
                let zeros = b.count_zeros();
                let q = [0usize, 2, 5, 16, 40, 62, 63, 64, 70][r.random_range(0..9)];
                if !adapt_alloc_unsafe(zeros, q, p) {
                    probe_select_zero(&SelectZeroAdapt::with_inv(Rank9::new(b.clone()), q, p));
                }
            }),
            ("SelectZeroAdapt::with_span(bits,p,3)", &|b, p, _| {
                probe_select_zero(&SelectZeroAdapt::with_span(AddNumBits::from(b.clone()), p, 3));
            }),
            ("SelectSmall<2,9>::with_inv(rs,p)", &|b, p, _| {
                probe_select(&SelectSmall::<2, 9, _>::with_inv(RankSmall::<2, 9, _>::new(b.clone()), p));
            }),
            ("SelectSmall<1,11>::with_inv(rs,p)", &|b, p, _| {
                probe_select(&SelectSmall::<1, 11, _>::with_inv(RankSmall::<1, 11, _>::new(b.clone()), p));
            }),
            ("SelectZeroSmall<2,9>::with_inv(rs,p)", &|b, p, _| {
                probe_select_zero(&SelectZeroSmall::<2, 9, _>::with_inv(RankSmall::<2, 9, _>::new(b.clone()), p));
            }),
            ("SelectZeroSmall<3,13>::with_inv(rs,p)", &|b, p, _| {
                probe_select_zero(&SelectZeroSmall::<3, 13, _>::with_inv(RankSmall::<3, 13, _>::new(b.clone()), p));
            }),
        ];
        sw.run("ctor-params", name, &make, methods, CLASSES, false);
    }
}

// --------------------------------------------------------------------------
// GF(2) equations and systems

/// Safe methods of `Modulo2Equation` / `Modulo2System` on equations whose variables are
/// sorted (the only documented precondition of `from_parts`), including pairs without a
/// common variable, empty equations, variables beyond the declared number, and
/// solutions of the wrong length.
fn sweep_mod2(sw: &mut Sweep) {
    use sux::utils::mod2_sys::{Modulo2Equation, Modulo2System};
    type Eq = Modulo2Equation<usize>;
    let shapes: &[(&str, &[u32], &[u32])] = &[
        ("disjoint", &[0, 2], &[1, 3]),
        ("identical", &[1, 4, 9], &[1, 4, 9]),
        ("empty+nonempty", &[], &[0, 5, 6]),
        ("nonempty+empty", &[0, 5, 6], &[]),
        ("empty+empty", &[], &[]),
        ("interleaved", &[0, 2, 4, 6, 8], &[1, 3, 5, 7, 9]),
        ("prefix", &[0, 1], &[0, 1, 2, 3, 4, 5]),
        ("one-common", &[3, 7], &[7, 11, 12]),
        ("long+short", &[0, 1, 2, 3, 4, 5, 6, 7, 8, 9, 10, 11, 12, 13, 14, 15, 16], &[16]),
        ("duplicates-inside", &[2, 2, 5], &[2, 5, 5]),
        ("huge-variables", &[u32::MAX - 1, u32::MAX], &[0, u32::MAX]),
    ];
    for &(name, a, b) in shapes {
        let make = move |_rng: &mut SmallRng| ((a.to_vec(), b.to_vec()), a.len(), b.len(), 20usize);
        let methods: &[(&str, &dyn Fn(&mut (Vec<u32>, Vec<u32>), usize, &mut SmallRng))] = &[
            ("add", &|(a, b), _n, _| {
                let mut x: Eq = unsafe { Eq::from_parts(a.clone(), 5) };
                let y: Eq = unsafe { Eq::from_parts(b.clone(), 3) };
                x.add(&y);
                x.add(&y);
                let mut z: Eq = unsafe { Eq::from_parts(b.clone(), 1) };
                z.add(&x);
                black_box(&z);
            }),
            ("system_push_check_solve", &|(a, b), n, _| {
                // the declared number of variables is the class argument: often too small for the equations
                let nv = n.min(40);
                let mut s = Modulo2System::<usize>::new(nv);
                s.push(unsafe { Eq::from_parts(a.clone(), 5) });
                s.push(unsafe { Eq::from_parts(b.clone(), 3) });
                let _ = catch(|| black_box(s.check(&vec![0usize; nv])));
                let _ = catch(|| black_box(s.check(&vec![1usize; nv + 1])));
                let _ = catch(|| black_box(s.check(&[])));
                let mut s2 = Modulo2System::<usize>::new(nv);
                s2.push(unsafe { Eq::from_parts(a.clone(), 5) });
                s2.push(unsafe { Eq::from_parts(b.clone(), 3) });
                let _ = catch(|| black_box(s.gaussian_elimination().ok()));
                let _ = catch(|| black_box(s2.lazy_gaussian_elimination().ok()));
            }),
        ];
        sw.run("Modulo2System<usize>", name, &make, methods, &["0", "1", "len", "cnt", "u", "2^16"], false);
    }
}

fn main() {
    let mut ctx = Ctx::from_args("C12");
    ctx.set_hang_limit(120);
    let small = ctx.small;
    let mut sw = Sweep { ctx: &mut ctx, answered: 0, panicked: 0 };
    sweep_bitvec(&mut sw);
    sweep_bfv::<u8>(&mut sw, "u8");
    sweep_bfv::<u16>(&mut sw, "u16");
    sweep_bfv::<u32>(&mut sw, "u32");
    sweep_bfv::<u64>(&mut sw, "u64");
    sweep_bfv::<usize>(&mut sw, "usize");
    sweep_bfv::<u128>(&mut sw, "u128");
    sweep_abfv::<u8>(&mut sw, "u8");
    sweep_abfv::<u16>(&mut sw, "u16");
    sweep_abfv::<u32>(&mut sw, "u32");
    sweep_abfv::<u64>(&mut sw, "u64");
    sweep_abfv::<usize>(&mut sw, "usize");
    sweep_rank_select(&mut sw);
    sweep_ctor_params(&mut sw);
    sweep_ef(&mut sw);
    sweep_rcl(&mut sw);
    sweep_mod2(&mut sw);
    if !small {
        sweep_vfunc(&mut sw);
    }
    let (a, p) = (sw.answered, sw.panicked);
    ctx.note("outcomes", &format!("{{\"answered\":{},\"panicked\":{}}}", a, p));
    ctx.finish();
}
