//! C09 — a rear-coded list returns exactly the strings pushed and finds them
//! by value.
//!
//! Oracle: the `Vec<String>` that was pushed. `len`, `get`, `get_in_place`,
//! `iter`/`lend`/`into_lender`, `iter_from(j)`/`lend_from(j)` for 0 <= j <= n
//! (with the exact remaining-length hint before every step) are compared with
//! the vector; `index_of(s)` must return *an* index holding `s` when `s` is in
//! the vector and `None` otherwise; `contains` must agree.
//!
//! The calls known to index past the block pointers on the pinned tree
//! (`iter()`/`lend()` on an empty list, `iter_from(n)`/`lend_from(n)` when
//! `n % k == 0`) are exercised only in cases of their own (strata
//! `empty-list` and `from-len-block-aligned`), so that they cannot mask the
//! rest of a list's checks.
use lender::{ExactSizeLender, IntoLender, IteratorExt, Lender};
use rand::rngs::SmallRng;
use rand::seq::SliceRandom;
use rand::Rng;
use std::collections::HashMap;
use sux::dict::{RearCodedList, RearCodedListBuilder};
use sux::traits::{IndexedDict, IndexedSeq};
use suxmon::obs::*;

type Rcl = RearCodedList<Box<[u8]>, Box<[usize]>>;

// ---------------------------------------------------------------- display

/// Debug-like rendering with runs of >= 8 equal chars compressed as `'a'*N`,
/// so that very long strings can still be reproduced by hand.
fn show_str(s: &str) -> String {
    let chars: Vec<char> = s.chars().collect();
    let mut out = String::new();
    let mut lit = String::new();
    let mut parts: Vec<String> = Vec::new();
    let mut i = 0;
    while i < chars.len() {
        let mut j = i;
        while j < chars.len() && chars[j] == chars[i] {
            j += 1;
        }
        if j - i >= 8 {
            if !lit.is_empty() {
                parts.push(format!("{:?}", lit));
                lit.clear();
            }
            parts.push(format!("{:?}*{}", chars[i], j - i));
        } else {
            for _ in i..j {
                lit.push(chars[i]);
            }
        }
        i = j;
    }
    if !lit.is_empty() || parts.is_empty() {
        parts.push(format!("{:?}", lit));
    }
    out.push_str(&parts.join("+"));
    out
}

fn show_list(v: &[String]) -> String {
    let mut s = String::from("[");
    for (i, x) in v.iter().enumerate() {
        if i > 0 {
            s.push_str(", ");
        }
        s.push_str(&show_str(x));
    }
    s.push(']');
    s
}

/// Context for a failure at index `i`: k, n and the strings of the block of
/// `i` up to `i` (pushing these with the same k reproduces a decoding error).
fn ctx_at(model: &[String], k: usize, i: usize) -> String {
    let n = model.len();
    if n == 0 {
        return format!("k={} n=0", k);
    }
    let i = i.min(n - 1);
    let b = i / k * k;
    let from = b.max(i.saturating_sub(6));
    format!(
        "k={} n={} block starts at {}; list[{}..={}]={}",
        k,
        n,
        b,
        from,
        i,
        trunc(&show_list(&model[from..=i]), 700)
    )
}

// ---------------------------------------------------------------- generators

#[derive(Clone, Copy, Debug, PartialEq, Eq)]
enum Order {
    Sorted,
    Reverse,
    Shuffled,
    SortedExceptLast,
}

impl Order {
    const ALL: [Order; 4] = [Order::Sorted, Order::Reverse, Order::Shuffled, Order::SortedExceptLast];
    fn name(&self) -> &'static str {
        match self {
            Order::Sorted => "sorted",
            Order::Reverse => "reverse",
            Order::Shuffled => "shuffled",
            Order::SortedExceptLast => "sorted-except-last",
        }
    }
    fn apply(&self, rng: &mut SmallRng, mut v: Vec<String>) -> Vec<String> {
        v.sort(); // String order = byte order = the order the list uses
        match self {
            Order::Sorted => {}
            Order::Reverse => v.reverse(),
            Order::Shuffled => v.shuffle(rng),
            Order::SortedExceptLast => {
                if v.len() >= 2 {
                    let first = v.remove(0);
                    v.push(first);
                }
            }
        }
        v
    }
}

#[derive(Clone, Copy, Debug, PartialEq, Eq)]
enum Content {
    AllEmpty,
    SharedPrefix,
    Utf8Multibyte,
    EdgeBytes,
    Duplicates,
    TinyAlphabet,
    Words,
    LongHeads,
    PrefixChain,
}

impl Content {
    const ALL: [Content; 9] = [
        Content::AllEmpty,
        Content::SharedPrefix,
        Content::Utf8Multibyte,
        Content::EdgeBytes,
        Content::Duplicates,
        Content::TinyAlphabet,
        Content::Words,
        Content::LongHeads,
        Content::PrefixChain,
    ];
    fn name(&self) -> &'static str {
        match self {
            Content::AllEmpty => "all-empty-strings",
            Content::SharedPrefix => "shared-prefix-0..300",
            Content::Utf8Multibyte => "utf8-multibyte",
            Content::EdgeBytes => "edge-bytes",
            Content::Duplicates => "duplicates",
            Content::TinyAlphabet => "tiny-alphabet",
            Content::Words => "words",
            Content::LongHeads => "long-strings",
            Content::PrefixChain => "prefix-chain",
        }
    }
}

/// Characters whose UTF-8 encodings share leading bytes, so that the common
/// prefix of two neighbours can end inside a code point; bytes up to 0xF4.
const MB: &[char] = &[
    'a', 'é', 'è', 'ê', '€', '₭', '₮', '\u{2000}', '𝄞', '𝄟', '\u{1D200}', '\u{10FFFF}', '\u{10FFFE}', '\u{10FFBF}', '\u{100000}', 'ÿ', '\u{7FF}',
];
/// Smallest / largest encodings of every length and the smallest legal byte.
const EDGE: &[char] = &[
    '\u{1}', '\u{2}', '\u{7F}', '\u{80}', '\u{81}', '\u{7FF}', '\u{800}', '\u{FFFF}', '\u{10000}', '\u{10FFFF}', 'a', '\u{FF}', '\u{100}',
];

fn rand_chars(rng: &mut SmallRng, len: usize, alphabet: &[char]) -> String {
    (0..len).map(|_| alphabet[rng.random_range(0..alphabet.len())]).collect()
}

/// Largest char boundary of `s` that is <= `i`.
fn floor_boundary(s: &str, mut i: usize) -> usize {
    i = i.min(s.len());
    while !s.is_char_boundary(i) {
        i -= 1;
    }
    i
}

/// `small` (Miri runs) shortens the long strings.
fn gen_content(rng: &mut SmallRng, content: Content, n: usize, small: bool) -> Vec<String> {
    let maxp: usize = if small { 40 } else { 300 };
    let mut v: Vec<String> = Vec::with_capacity(n);
    match content {
        Content::AllEmpty => {
            for _ in 0..n {
                v.push(String::new());
            }
        }
        Content::SharedPrefix => {
            // a chain in which each string keeps a prefix of 0..=300 bytes of
            // the previous one
            let alpha: &[char] = if rng.random_bool(0.5) { &['a', 'b'] } else { &['a', 'b', 'c', 'é', '€'] };
            let mut cur = rand_chars(rng, maxp, alpha);
            for _ in 0..n {
                let keep = match rng.random_range(0..10) {
                    0 => 0,
                    1 => cur.len(),
                    2 => cur.len().saturating_sub(1),
                    3 => maxp.min(cur.len()),
                    _ => rng.random_range(0..=cur.len().min(maxp)),
                };
                let keep = floor_boundary(&cur, keep);
                let tail = rng.random_range(0..if small { 6 } else { 20 });
                let mut s = cur[..keep].to_string();
                s.push_str(&rand_chars(rng, tail, alpha));
                if rng.random_bool(0.2) {
                    // regrow so that long prefixes stay available
                    let l = maxp.saturating_sub(s.chars().count());
                    s.push_str(&rand_chars(rng, l, alpha));
                }
                v.push(s.clone());
                cur = s;
            }
        }
        Content::Utf8Multibyte => {
            for _ in 0..n {
                let l = rng.random_range(0..=5);
                v.push(rand_chars(rng, l, MB));
            }
        }
        Content::EdgeBytes => {
            for _ in 0..n {
                let l = rng.random_range(0..=4);
                v.push(rand_chars(rng, l, EDGE));
            }
        }
        Content::Duplicates => {
            let distinct = (n / 3).max(1);
            let pool: Vec<String> = (0..distinct)
                .map(|_| {
                    let l = rng.random_range(0..=6);
                    rand_chars(rng, l, &['a', 'b', 'c', 'é'])
                })
                .collect();
            for _ in 0..n {
                v.push(pool[rng.random_range(0..pool.len())].clone());
            }
        }
        Content::TinyAlphabet => {
            for _ in 0..n {
                let l = rng.random_range(0..=7);
                v.push(rand_chars(rng, l, &['a', 'b']));
            }
        }
        Content::Words => {
            let alpha: Vec<char> = ('a'..='z').collect();
            for _ in 0..n {
                let l = rng.random_range(0..=12);
                v.push(rand_chars(rng, l, &alpha));
            }
        }
        Content::LongHeads => {
            // long strings everywhere (block heads are copied verbatim)
            for _ in 0..n {
                let l = [0usize, 1, 127, 128, 129, 126, 255, 256, 1000][rng.random_range(0..if small { 5 } else { 9 })];
                let mut s = rand_chars(rng, 2, &['a', 'b', 'c']);
                s.push_str(&"x".repeat(l));
                let t = rng.random_range(0..3);
                s.push_str(&rand_chars(rng, t, &['a', 'b', 'c']));
                v.push(s);
            }
        }
        Content::PrefixChain => {
            // every string is a prefix of the next one or equal to it:
            // "", "a", "ab", "ab", "abc" ...
            let alpha = ['a', 'b', 'é', '\u{1}', '\u{10FFFF}'];
            let mut cur = String::new();
            for _ in 0..n {
                v.push(cur.clone());
                if rng.random_bool(0.8) {
                    cur.push(alpha[rng.random_range(0..alpha.len())]);
                }
            }
        }
    }
    v
}

// ---------------------------------------------------------------- building

/// Builds the list (by `push`, or through `extend` over a lender when
/// `via_extend`). A panic is a violation.
fn build(c: &mut Case, model: &[String], k: usize, via_extend: bool) -> Option<Rcl> {
    let r = catch(|| {
        let mut b = RearCodedListBuilder::new(k);
        if via_extend {
            b.extend(model.iter().map(|s| s.as_str()).into_lender());
        } else {
            for s in model {
                b.push(s);
            }
        }
        let bl = b.len();
        (b.build(), bl)
    });
    match r {
        Ok((l, bl)) => {
            c.check("builder_len", bl == model.len(), || {
                format!("RearCodedListBuilder::new({}) after {} pushes: builder.len()={}", k, model.len(), bl)
            });
            Some(l)
        }
        Err(m) => {
            c.fail(
                "build",
                "panic",
                &m,
                &format!("RearCodedListBuilder::new({}) + push of {} strings + build panicked; list={}", k, model.len(), trunc(&show_list(model), 900)),
            );
            None
        }
    }
}

// ---------------------------------------------------------------- checks

/// Walks an `Iter` from position `j` and compares items and hints; stops
/// after `limit` items (usize::MAX: walk to the end and require the end).
fn check_iter_from(c: &mut Case, op: &str, call: &str, it: &mut dyn ExactSizeIterator<Item = String>, model: &[String], k: usize, j: usize, limit: usize) -> bool {
    let n = model.len();
    let mut i = j;
    loop {
        if i - j >= limit {
            c.tick((i - j) as u64);
            return true;
        }
        let want_left = n - i;
        let l = it.len();
        let sh = it.size_hint();
        if l != want_left || sh != (want_left, Some(want_left)) {
            c.fail(
                op,
                "mismatch",
                "wrong length hint",
                &format!("{} after {} items: len()={} size_hint()={:?}, model {} left; {}", call, i - j, l, sh, want_left, ctx_at(model, k, i)),
            );
            return false;
        }
        match it.next() {
            Some(s) => {
                if i >= n {
                    c.fail(op, "mismatch", "extra item", &format!("{} yielded an item past the end: {}; {}", call, trunc(&show_str(&s), 200), ctx_at(model, k, i)));
                    return false;
                }
                if s != model[i] {
                    c.fail(
                        op,
                        "mismatch",
                        "wrong item",
                        &format!("{} item #{} (index {}): got {} model {}; {}", call, i - j, i, trunc(&show_str(&s), 300), trunc(&show_str(&model[i]), 300), ctx_at(model, k, i)),
                    );
                    return false;
                }
                i += 1;
            }
            None => {
                if i != n {
                    c.fail(op, "mismatch", "ended early", &format!("{} ended after {} items, model has {} from {}; {}", call, i - j, n - j, j, ctx_at(model, k, i)));
                    return false;
                }
                break;
            }
        }
    }
    c.tick((n - j + 1) as u64);
    true
}

/// Same for a lender (`Lend`, or `into_lender`).
fn check_lend_from<'a>(c: &mut Case, op: &str, call: &str, mut it: sux::dict::rear_coded_list::Lend<'a, Box<[u8]>, Box<[usize]>>, model: &[String], k: usize, j: usize, limit: usize) -> bool {
    let n = model.len();
    let mut i = j;
    loop {
        if i - j >= limit {
            c.tick((i - j) as u64);
            return true;
        }
        let want_left = n - i;
        let l = ExactSizeLender::len(&it);
        let sh = Lender::size_hint(&it);
        if l != want_left || sh != (want_left, Some(want_left)) {
            c.fail(
                op,
                "mismatch",
                "wrong length hint",
                &format!("{} after {} items: len()={} size_hint()={:?}, model {} left; {}", call, i - j, l, sh, want_left, ctx_at(model, k, i)),
            );
            return false;
        }
        match it.next() {
            Some(s) => {
                if i >= n {
                    let s = s.to_string();
                    c.fail(op, "mismatch", "extra item", &format!("{} yielded an item past the end: {}; {}", call, trunc(&show_str(&s), 200), ctx_at(model, k, i)));
                    return false;
                }
                if s != model[i] {
                    let s = s.to_string();
                    c.fail(
                        op,
                        "mismatch",
                        "wrong item",
                        &format!("{} item #{} (index {}): got {} model {}; {}", call, i - j, i, trunc(&show_str(&s), 300), trunc(&show_str(&model[i]), 300), ctx_at(model, k, i)),
                    );
                    return false;
                }
                i += 1;
            }
            None => {
                if i != n {
                    c.fail(op, "mismatch", "ended early", &format!("{} ended after {} items, model has {} from {}; {}", call, i - j, n - j, j, ctx_at(model, k, i)));
                    return false;
                }
                break;
            }
        }
    }
    c.tick((n - j + 1) as u64);
    true
}

/// Is (n, k, j) one of the start positions that the dedicated strata cover
/// (and that the general walk leaves out)?
fn reserved_start(n: usize, k: usize, j: usize) -> bool {
    j == n && n % k == 0
}

fn probe_strings(rng: &mut SmallRng, model: &[String], k: usize, budget: usize) -> Vec<String> {
    let n = model.len();
    let mut p: Vec<String> = Vec::new();
    p.push(String::new());
    p.push("\u{1}".into());
    p.push("\u{10FFFF}".into());
    p.push("a".into());
    if n == 0 {
        return p;
    }
    let mut sorted: Vec<&String> = model.iter().collect();
    sorted.sort();
    let min = sorted[0].clone();
    let max = sorted[n - 1].clone();
    // before the first
    if let Some(ch) = min.chars().last() {
        let cut = min.len() - ch.len_utf8();
        p.push(min[..cut].to_string());
        if let Some(prev) = char::from_u32(ch as u32 - 1).filter(|x| *x != '\0') {
            p.push(format!("{}{}", &min[..cut], prev));
        }
    }
    // after the last
    p.push(format!("{}\u{1}", max));
    p.push(format!("{}z", max));
    p.push("\u{10FFFF}".repeat(max.chars().count() + 1));
    // which stored strings to derive probes from: all, or block heads +
    // neighbours of block boundaries + a random sample
    let mut idx: Vec<usize> = Vec::new();
    if n <= budget {
        idx.extend(0..n);
    } else {
        let mut b = 0;
        while b < n && idx.len() < budget / 2 {
            idx.push(b);
            if b > 0 {
                idx.push(b - 1);
            }
            if b + 1 < n {
                idx.push(b + 1);
            }
            b += k * (1 + n / k / (budget / 6).max(1));
        }
        idx.push(n - 1);
        while idx.len() < budget {
            idx.push(rng.random_range(0..n));
        }
    }
    for &i in &idx {
        let s = &model[i];
        p.push(s.clone());
        // one-byte (one-char) extensions
        p.push(format!("{}\u{1}", s));
        p.push(format!("{}a", s));
        if rng.random_bool(0.3) {
            p.push(format!("{}\u{10FFFF}", s));
        }
        // proper prefixes
        if let Some(ch) = s.chars().last() {
            let cut = s.len() - ch.len_utf8();
            p.push(s[..cut].to_string());
            let half = floor_boundary(s, s.len() / 2);
            if half < s.len() {
                p.push(s[..half].to_string());
            }
            let r = floor_boundary(s, rng.random_range(0..s.len()));
            p.push(s[..r].to_string());
            // neighbours in the order: last char -1 / +1
            let cu = ch as u32;
            for cand in [cu.wrapping_sub(1), cu + 1] {
                if let Some(x) = char::from_u32(cand).filter(|x| *x != '\0') {
                    p.push(format!("{}{}", &s[..cut], x));
                }
            }
        }
    }
    // strings strictly between two sorted neighbours (when the order has
    // room): a + smallest char sorts right after a
    for w in sorted.windows(2).take(budget) {
        let cand = format!("{}\u{1}", w[0]);
        if cand < *w[1] {
            p.push(cand);
        }
    }
    p
}

struct Opts {
    /// check every start position j (else a sample)
    all_starts: bool,
    /// number of stored strings probes are derived from
    probe_budget: usize,
    via_extend: bool,
}

fn check_list(c: &mut Case, model: &[String], k: usize, o: &Opts) {
    let n = model.len();
    let Some(l) = build(c, model, k, o.via_extend) else { return };
    let l = &l;

    // len (inherent and trait)
    c.check("len", l.len() == n && IndexedSeq::len(l) == n && l.is_empty() == (n == 0), || {
        format!("len()={} IndexedSeq::len()={} is_empty()={} model {}; k={}", l.len(), IndexedSeq::len(l), l.is_empty(), n, k)
    });
    if l.len() != n {
        return;
    }

    // get / get_in_place at every index (a dirty, reused buffer)
    let mut buf: Vec<u8> = b"garbage".to_vec();
    let idxs: Vec<usize> = if n <= 3000 { (0..n).collect() } else { (0..3000).map(|_| c.rng().random_range(0..n)).collect() };
    let mut ok_get = true;
    for &i in &idxs {
        match catch(|| l.get(i)) {
            Ok(s) => {
                if s != model[i] {
                    c.fail("get", "mismatch", "wrong string", &format!("get({}): got {} model {}; {}", i, trunc(&show_str(&s), 300), trunc(&show_str(&model[i]), 300), ctx_at(model, k, i)));
                    ok_get = false;
                }
            }
            Err(m) => {
                c.fail("get", "panic", &m, &format!("get({}) panicked; {}", i, ctx_at(model, k, i)));
                ok_get = false;
            }
        }
        match catch(|| l.get_in_place(i, &mut buf)) {
            Ok(()) => {
                if buf != model[i].as_bytes() {
                    c.fail(
                        "get_in_place",
                        "mismatch",
                        "wrong bytes",
                        &format!("get_in_place({}): got {} model {}; {}", i, trunc(&show_str(&String::from_utf8_lossy(&buf)), 300), trunc(&show_str(&model[i]), 300), ctx_at(model, k, i)),
                    );
                    ok_get = false;
                }
            }
            Err(m) => {
                c.fail("get_in_place", "panic", &m, &format!("get_in_place({}) panicked; {}", i, ctx_at(model, k, i)));
                ok_get = false;
                buf = b"garbage".to_vec();
            }
        }
        c.tick(2);
        if !ok_get {
            break;
        }
    }

    // whole-list iteration (the empty list is covered by stratum empty-list)
    if n > 0 {
        if let Err(m) = catch(|| {
            let mut it = l.iter();
            check_iter_from(c, "iter", "iter()", &mut it, model, k, 0, usize::MAX);
        }) {
            c.fail("iter", "panic", &m, &format!("iter() panicked; {}", ctx_at(model, k, 0)));
        }
        if let Err(m) = catch(|| {
            let mut it = l.into_iter();
            check_iter_from(c, "into_iter", "(&list).into_iter()", &mut it, model, k, 0, usize::MAX);
        }) {
            c.fail("into_iter", "panic", &m, &format!("(&list).into_iter() panicked; {}", ctx_at(model, k, 0)));
        }
        if let Err(m) = catch(|| {
            check_lend_from(c, "lend", "lend()", l.lend(), model, k, 0, usize::MAX);
        }) {
            c.fail("lend", "panic", &m, &format!("lend() panicked; {}", ctx_at(model, k, 0)));
        }
    }
    // the iterators through the skipping adaptors (nth, skip, step_by, ...)
    if n > 0 && n <= 600 && c.rng().random_range(0..4u32) == 0 {
        let tr = || ctx_at(model, k, 0);
        c.iter_protocol("iter_adaptors", || l.iter(), model, &tr);
        let j = c.rng().random_range(0..n);
        let trj = || format!("iter_from({}); {}", j, ctx_at(model, k, j));
        c.iter_protocol("iter_from_adaptors", || l.iter_from(j), &model[j..], &trj);
    }
    if let Err(m) = catch(|| {
        check_lend_from(c, "into_lender", "(&list).into_lender()", l.into_lender(), model, k, 0, usize::MAX);
    }) {
        c.fail("into_lender", "panic", &m, &format!("(&list).into_lender() panicked; {}", ctx_at(model, k, 0)));
    }

    // every start position
    let starts: Vec<usize> = if o.all_starts || n <= 64 {
        (0..=n).collect()
    } else {
        let mut s: Vec<usize> = (0..=66.min(n)).collect();
        s.extend(n.saturating_sub(66)..=n);
        let nb = n / k;
        let mut blocks: Vec<usize> = vec![1, 2, nb.saturating_sub(1), nb];
        for _ in 0..40 {
            blocks.push(c.rng().random_range(0..=nb));
        }
        for b in blocks {
            for d in [0usize, 1, k / 2, k - 1] {
                if b * k + d <= n {
                    s.push(b * k + d);
                }
            }
        }
        for _ in 0..40 {
            s.push(c.rng().random_range(0..=n));
        }
        s.sort_unstable();
        s.dedup();
        s
    };
    // when positions are sampled, a walk covers a few blocks only (two
    // sampled starts still walk to the end)
    let full = o.all_starts || n <= 64;
    let limit = if full { usize::MAX } else { (2 * k + 5).min(3000) };
    let full_walk_from = if full { usize::MAX } else { starts[c.rng().random_range(0..starts.len())] };
    let mut ok_i = true;
    let mut ok_l = true;
    for &j in &starts {
        // start = len with len % k == 0 (the position that used to index a
        // nonexistent block) keeps its own op name and never stops the walk
        // over the other positions
        let aligned_end = reserved_start(n, k, j);
        let (op_i, op_l) = if aligned_end { ("iter_from_len", "lend_from_len") } else { ("iter_from", "lend_from") };
        let lim = if j == full_walk_from { usize::MAX } else { limit };
        if ok_i || aligned_end {
            match catch(|| {
                let mut it = l.iter_from(j);
                check_iter_from(c, op_i, &format!("iter_from({})", j), &mut it, model, k, j, lim)
            }) {
                Ok(ok) => {
                    if !aligned_end {
                        ok_i = ok
                    }
                }
                Err(m) => {
                    c.fail(op_i, "panic", &m, &format!("iter_from({}) panicked; {}", j, ctx_at(model, k, j)));
                    if !aligned_end {
                        ok_i = false;
                    }
                }
            }
        }
        if ok_l || aligned_end {
            match catch(|| check_lend_from(c, op_l, &format!("lend_from({})", j), l.lend_from(j), model, k, j, lim)) {
                Ok(ok) => {
                    if !aligned_end {
                        ok_l = ok
                    }
                }
                Err(m) => {
                    c.fail(op_l, "panic", &m, &format!("lend_from({}) panicked; {}", j, ctx_at(model, k, j)));
                    if !aligned_end {
                        ok_l = false;
                    }
                }
            }
        }
    }

    // search by value
    let mut where_is: HashMap<&str, Vec<usize>> = HashMap::new();
    for (i, s) in model.iter().enumerate() {
        where_is.entry(s.as_str()).or_default().push(i);
    }
    let sorted = model.windows(2).all(|w| w[0] <= w[1]);
    let probes = probe_strings(c.rng(), model, k, o.probe_budget);
    let mut reported = 0;
    for p in &probes {
        if p.contains('\0') {
            continue;
        }
        let want: &[usize] = where_is.get(p.as_str()).map(|v| v.as_slice()).unwrap_or(&[]);
        let got = catch(|| l.index_of(p.as_str()));
        let got_c = catch(|| l.contains(p.as_str()));
        c.tick(2);
        let mut bad: Option<(&str, &str, String)> = None;
        match &got {
            Err(m) => bad = Some(("index_of", "panic", m.clone())),
            Ok(Some(i)) => {
                if want.is_empty() {
                    bad = Some(("index_of", "mismatch", "Some for an absent string".into()));
                } else if *i >= n || model[*i] != *p {
                    bad = Some(("index_of", "mismatch", "index does not hold the string".into()));
                }
            }
            Ok(None) => {
                if !want.is_empty() {
                    bad = Some(("index_of", "mismatch", "None for a present string".into()));
                }
            }
        }
        if bad.is_none() {
            match &got_c {
                Err(m) => bad = Some(("contains", "panic", m.clone())),
                Ok(b) => {
                    if *b == want.is_empty() {
                        bad = Some(("contains", "mismatch", "contains disagrees with the model".into()));
                    } else if let Ok(g) = &got {
                        if *b != g.is_some() {
                            bad = Some(("contains", "mismatch", "contains != index_of.is_some()".into()));
                        }
                    }
                }
            }
        }
        if let Some((op, kind, msg)) = bad {
            reported += 1;
            let near = want.first().copied().unwrap_or_else(|| model.iter().position(|s| s >= p).unwrap_or(n.saturating_sub(1)));
            c.fail(
                op,
                kind,
                &msg,
                &format!(
                    "index_of({})={:?} contains={:?}; model indices holding it: {:?}; list is {}; {}; whole list={}",
                    trunc(&show_str(p), 300),
                    got,
                    got_c,
                    &want[..want.len().min(8)],
                    if sorted { "sorted (binary search path)" } else { "not sorted (scan path)" },
                    ctx_at(model, k, near),
                    trunc(&show_list(model), 500)
                ),
            );
            if reported >= 5 {
                break;
            }
        }
    }
}

// ---------------------------------------------------------------- cells

fn n_class(n: usize, k: usize) -> String {
    if n == 0 {
        "n=0".into()
    } else if n == 1 {
        "n=1".into()
    } else if n < k {
        "1<n<k".into()
    } else if n == k {
        "n=k".into()
    } else if n % k == 0 {
        "n=mk".into()
    } else if n % k == 1 {
        "n=mk+1".into()
    } else if n % k == k - 1 {
        "n=mk-1".into()
    } else {
        "n=mk+r".into()
    }
}

fn k_class(k: usize, n: usize) -> String {
    if k == n + 1 {
        format!("k=n+1")
    } else if k == n && k > 64 {
        format!("k=n")
    } else if k <= 16 || k == 64 {
        format!("k={}", k)
    } else {
        "k=other".into()
    }
}

fn finish_case(c: &mut Case, content: &str, order: &str, model: &[String], k: usize, extra: &str) {
    let n = model.len();
    if n >= 2 {
        c.nontrivial();
    }
    c.set_cell(format!("{}|{}|{}|{}", content, order, k_class(k, n), n_class(n, k)));
    c.describe(|| format!("k={} {}list={}", k, extra, show_list(model)));
}

// ---------------------------------------------------------------- strata

/// The list whose i-th string (0 < i) needs exactly `rear` as rear length:
/// `[pre.., P+'a'*rear, P+"b", post..]` with `pad` strings before, so that
/// the coded pair sits at a chosen offset inside (or at the head of) a block.
fn rear_boundary_list(rear: usize, pad: usize, prefix: &str) -> Vec<String> {
    let mut v = Vec::new();
    for i in 0..pad {
        // sorted, all below `prefix` + "a..."
        v.push(format!("{}{}", "A".repeat(1 + i / 26), (b'a' + (i % 26) as u8) as char));
    }
    v.sort();
    v.push(format!("{}{}", prefix, "a".repeat(rear)));
    v.push(format!("{}b", prefix));
    v.push(format!("{}bc", prefix));
    v.push(format!("{}c", prefix));
    v
}

fn main() {
    let mut ctx = Ctx::from_args("C09");
    ctx.set_hang_limit(120);
    let small = ctx.small;

    // 1. the empty list — every way of starting an iteration in its own case
    for k in if small { vec![1usize, 4] } else { vec![1usize, 2, 4, 64] } {
        for op in ["iter_on_empty", "lend_on_empty", "iter_from_0_on_empty", "lend_from_0_on_empty", "into_iter_on_empty"] {
            ctx.case("sorted", "empty-list", op, |c| {
                let model: Vec<String> = vec![];
                let Some(l) = build(c, &model, k, false) else { return };
                let call = match op {
                    "iter_on_empty" => "iter()",
                    "lend_on_empty" => "lend()",
                    "iter_from_0_on_empty" => "iter_from(0)",
                    "lend_from_0_on_empty" => "lend_from(0)",
                    _ => "(&list).into_iter()",
                };
                let r = catch(|| match op {
                    "iter_on_empty" => {
                        let mut it = l.iter();
                        check_iter_from(c, op, call, &mut it, &model, k, 0, usize::MAX)
                    }
                    "iter_from_0_on_empty" => {
                        let mut it = l.iter_from(0);
                        check_iter_from(c, op, call, &mut it, &model, k, 0, usize::MAX)
                    }
                    "into_iter_on_empty" => {
                        let mut it = (&l).into_iter();
                        check_iter_from(c, op, call, &mut it, &model, k, 0, usize::MAX)
                    }
                    "lend_on_empty" => check_lend_from(c, op, call, l.lend(), &model, k, 0, usize::MAX),
                    _ => check_lend_from(c, op, call, l.lend_from(0), &model, k, 0, usize::MAX),
                });
                if let Err(m) = r {
                    c.fail(op, "panic", &m, &format!("RearCodedListBuilder::new({}).build().{} panicked (empty list)", k, call));
                }
                c.nontrivial();
                c.set_cell(format!("empty-list|{}|k={}", op, k));
                c.describe(|| format!("k={} list=[] call={}", k, call));
            });
        }
        // the rest of the empty list's interface
        ctx.case("sorted", "empty-list", "list", |c| {
            let model: Vec<String> = vec![];
            check_list(c, &model, k, &Opts { all_starts: true, probe_budget: 10, via_extend: k == 2 });
            c.nontrivial();
            c.set_cell(format!("empty-list|rest|k={}", k));
            c.describe(|| format!("k={} list=[]", k));
        });
    }

    // 2. starting exactly at len when len is a multiple of k
    {
        let ks: &[usize] = if small { &[1, 4] } else { &[1, 2, 3, 4, 8, 64] };
        for &k in ks {
            for m in 1..=3usize {
                let n = m * k;
                if small && n > 16 {
                    continue;
                }
                if small && m == 3 {
                    continue;
                }
                for (ci, content) in [Content::Words, Content::SharedPrefix, Content::Utf8Multibyte, Content::AllEmpty].into_iter().enumerate() {
                    if small && ci % 2 != m % 2 {
                        continue;
                    }
                    let order = Order::ALL[(ci + m) % 4];
                    for op in ["iter_from_len", "lend_from_len"] {
                        ctx.case(order.name(), "from-len-block-aligned", op, |c| {
                            let base = gen_content(c.rng(), content, n, small);
                            let model = order.apply(c.rng(), base);
                            let Some(l) = build(c, &model, k, false) else { return };
                            let r = catch(|| {
                                if op == "iter_from_len" {
                                    let mut it = l.iter_from(n);
                                    check_iter_from(c, op, &format!("iter_from({})", n), &mut it, &model, k, n, usize::MAX)
                                } else {
                                    check_lend_from(c, op, &format!("lend_from({})", n), l.lend_from(n), &model, k, n, usize::MAX)
                                }
                            });
                            if let Err(msg) = r {
                                c.fail(op, "panic", &msg, &format!("{}({}) on a list of {} strings with k={} panicked; list={}", if op == "iter_from_len" { "iter_from" } else { "lend_from" }, n, n, k, trunc(&show_list(&model), 600)));
                            }
                            c.nontrivial();
                            c.set_cell(format!("from-len-block-aligned|{}|k={}|n={}k|{}", op, k, m, content.name()));
                            c.describe(|| format!("k={} start={} list={}", k, n, show_list(&model)));
                        });
                    }
                }
            }
        }
    }

    // 3. tiny hand-made lists
    {
        let lists: Vec<(&str, Vec<&str>)> = vec![
            ("single-empty-string", vec![""]),
            ("single-string", vec!["abc"]),
            ("two-empty", vec!["", ""]),
            ("empty-then-a", vec!["", "a"]),
            ("a-then-empty", vec!["a", ""]),
            ("prefixes", vec!["a", "aa", "aaa", "aaaa", "aaaaa"]),
            ("prefixes-reversed", vec!["aaaaa", "aaaa", "aaa", "aa", "a"]),
            ("doc-example", vec!["aa", "aab", "abc", "abdd", "abde", "abdf"]),
            ("same-x7", vec!["xy", "xy", "xy", "xy", "xy", "xy", "xy"]),
            ("split-codepoint", vec!["é", "è", "ê", "€", "₭", "𝄞", "𝄟", "\u{10FFFF}", "\u{10FFFE}"]),
            ("split-codepoint-sorted", vec!["aè", "aé", "aê", "a₭", "a€", "a𝄞", "a𝄟", "a\u{10FFFE}", "a\u{10FFFF}"]),
            ("byte-01", vec!["\u{1}", "\u{1}\u{1}", "\u{1}\u{2}", "\u{2}"]),
            ("last-smaller", vec!["b", "c", "d", "e", "a"]),
            ("last-smaller-prefix", vec!["b", "ba", "bab", "ba"]),
            ("unsorted-in-block-only", vec!["a", "c", "b", "d", "e", "f", "g", "h"]),
            ("unsorted-at-head-only", vec!["a", "b", "c", "d", "a", "b", "c", "d"]),
        ];
        let ks: &[usize] = if small { &[2, 4] } else { &[1, 2, 3, 4, 5, 8, 16, 64] };
        for (name, lst) in &lists {
            let mut kk: Vec<usize> = ks.to_vec();
            if !small {
                kk.push(lst.len().max(1));
                kk.push(lst.len() + 1);
            }
            kk.sort_unstable();
            kk.dedup();
            for &k in &kk {
                let model: Vec<String> = lst.iter().map(|s| s.to_string()).collect();
                let sorted = model.windows(2).all(|w| w[0] <= w[1]);
                ctx.case(if sorted { "sorted" } else { "shuffled" }, &format!("hand/{}", name), "list", |c| {
                    check_list(c, &model, k, &Opts { all_starts: true, probe_budget: if small { 4 } else { 100 }, via_extend: k % 4 == 0 });
                    finish_case(c, &format!("hand/{}", name), if sorted { "sorted" } else { "unsorted" }, &model, k, "");
                });
            }
        }
    }

    // 4. rear lengths on the VByte boundaries, at every offset of a block
    //    and across a block head
    {
        let mut rears: Vec<usize> = if small { vec![0, 127, 128, 129] } else { vec![0, 1, 126, 127, 128, 129, 255, 256, 383, 384] };
        if !small {
            rears.extend([16_383, 16_384, 16_511, 16_512, 16_513, 16_640, 32_767, 32_768, 65_535, 65_536]);
        }
        if ctx.thorough() && !small {
            rears.extend([2_113_663, 2_113_664, 2_113_665, 2_097_152, 4_194_304]);
        }
        for &rear in &rears {
            let big = rear > 100_000;
            let pads: &[usize] = if big { &[0, 1, 3] } else if small { &[0, 2] } else { &[0, 1, 2, 3, 4, 7] };
            for &pad in pads {
                let ks: &[usize] = if big || small { &[4] } else { &[1, 2, 3, 4, 8] };
                for &k in ks {
                    for order in [Order::Sorted, Order::SortedExceptLast] {
                        for prefix in ["m", "p€"] {
                            if (big || small) && (order != Order::Sorted) != (prefix == "m") {
                                continue;
                            }
                            let stratum = format!("rear-length/{}", rear);
                            ctx.case(order.name(), &stratum, "list", |c| {
                                let base = rear_boundary_list(rear, pad, prefix);
                                let model = if order == Order::Sorted { base } else { order.apply(c.rng(), base) };
                                check_list(c, &model, k, &Opts { all_starts: !big, probe_budget: if big || small { 6 } else { 40 }, via_extend: pad % 2 == 1 });
                                let n = model.len();
                                c.nontrivial();
                                c.set_cell(format!("rear-length/{}|{}|k={}|pair-at-offset-{}|{}", rear, order.name(), k, (pad + 1) % k, n_class(n, k)));
                                c.describe(|| format!("k={} list={}", k, show_list(&model)));
                            });
                        }
                    }
                }
            }
        }
    }

    // 5. content x order x k x n grid
    {
        let ks: &[usize] = if small { &[1, 3, 4] } else { &[1, 2, 3, 4, 5, 8, 16, 64] };
        for (ci, content) in Content::ALL.into_iter().enumerate() {
            for (oi, order) in Order::ALL.into_iter().enumerate() {
                for (ki, &k) in ks.iter().enumerate() {
                    let mut ns: Vec<usize> = vec![1, k.saturating_sub(1), k, k + 1, 2 * k - 1, 2 * k, 2 * k + 1, 3 * k, 3 * k + 2];
                    if small {
                        // Miri: one order per (content, k), three list lengths
                        if (ci + ki) % 4 != oi {
                            continue;
                        }
                        ns = vec![k.max(2), k + 1, 2 * k + 1];
                    }
                    ns.retain(|&n| n >= 1);
                    ns.sort_unstable();
                    ns.dedup();
                    for &n in &ns {
                        ctx.case(order.name(), content.name(), "list", |c| {
                            let base = gen_content(c.rng(), content, n, small);
                            let model = order.apply(c.rng(), base);
                            let via = c.rng().random_bool(0.25);
                            check_list(c, &model, k, &Opts { all_starts: true, probe_budget: if small { 5 } else { 250 }, via_extend: via });
                            finish_case(c, content.name(), order.name(), &model, k, if via { "built-with-extend " } else { "" });
                        });
                    }
                }
                // k = n and k = n + 1 (a single, possibly incomplete block)
                if small && ci % 4 != oi {
                    continue;
                }
                for &n in if small { &[5usize][..] } else { &[2usize, 5, 17, 100][..] } {
                    for k in [n, n + 1] {
                        ctx.case(order.name(), content.name(), "list", |c| {
                            let base = gen_content(c.rng(), content, n, small);
                            let model = order.apply(c.rng(), base);
                            check_list(c, &model, k, &Opts { all_starts: true, probe_budget: if small { 5 } else { 250 }, via_extend: false });
                            finish_case(c, content.name(), order.name(), &model, k, "");
                        });
                    }
                }
            }
        }
    }

    // 6. larger lists (start positions and probes sampled)
    if !small {
        let sizes: &[usize] = if ctx.thorough() { &[1000, 4096, 20_000, 100_000] } else { &[1000, 4096, 20_000] };
        for &n in sizes {
            for content in [Content::Words, Content::TinyAlphabet, Content::Utf8Multibyte, Content::Duplicates, Content::SharedPrefix] {
                if content == Content::SharedPrefix && n > 5000 {
                    continue;
                }
                for order in [Order::Sorted, Order::Shuffled, Order::SortedExceptLast] {
                    for k in [1usize, 4, 7, 64, 1000] {
                        ctx.case(order.name(), &format!("large/{}", content.name()), "list", |c| {
                            let base = gen_content(c.rng(), content, n, false);
                            let model = order.apply(c.rng(), base);
                            // the scan path is O(n) per probe: fewer probes when unsorted
                            let pb = if order == Order::Sorted { 400 } else { 40 };
                            check_list(c, &model, k, &Opts { all_starts: false, probe_budget: pb, via_extend: k == 7 });
                            finish_case(c, &format!("large/{}", content.name()), order.name(), &model, k, "");
                        });
                    }
                }
            }
        }
    }

    // 7. random rounds
    let rounds = ctx.scale(24, 40_000, 400_000);
    for round in 0..rounds {
        for i in 0..4 {
            // rotate so that every shard sees every order
            let order = Order::ALL[(i + round) % 4];
            ctx.case(order.name(), "random", "list", |c| {
                let content = Content::ALL[c.rng().random_range(0..Content::ALL.len())];
                let nmax = if small { 12 } else { 160 };
                let n = match c.rng().random_range(0..10) {
                    0 => c.rng().random_range(1..=4),
                    _ => c.rng().random_range(1..=nmax),
                };
                let k = match c.rng().random_range(0..10) {
                    0 => n,
                    1 => n + 1,
                    2 => 1,
                    3..=6 => c.rng().random_range(1..=8),
                    _ => c.rng().random_range(1..=if small { 8 } else { 70 }),
                };
                let mut base = gen_content(c.rng(), content, n, small);
                // sometimes mix in strings of a second kind
                if c.rng().random_bool(0.2) {
                    let other = Content::ALL[c.rng().random_range(0..Content::ALL.len())];
                    let m = c.rng().random_range(0..=n);
                    let extra = gen_content(c.rng(), other, m, small);
                    for (i, s) in extra.into_iter().enumerate() {
                        base[i] = s;
                    }
                }
                let model = order.apply(c.rng(), base);
                let via = c.rng().random_bool(0.2);
                check_list(c, &model, k, &Opts { all_starts: true, probe_budget: if small { 5 } else { 200 }, via_extend: via });
                finish_case(c, &format!("random/{}", content.name()), order.name(), &model, k, if via { "built-with-extend " } else { "" });
            });
        }
        if ctx.out_of_time() {
            break;
        }
    }
    ctx.finish();
}
